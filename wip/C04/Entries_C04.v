(* Entry points for C04 (fix): model functions behind val -> val wrappers. *)
From CNV Require Import Base.Prelude Base.Val Base.Str Base.QNum Model.Chromsort Model.Fix.
From Coq Require Import Qabs.
Local Open Scope Q_scope.

Definition getNat (v : val) : option nat :=
  match v with VZ z => if (z <? 0)%Z then None else Some (Z.to_nat z) | _ => None end.

Definition getSrow (v : val) : option srow :=
  match v with
  | VL [VS c; VZ lo; VZ hi; VS g; l2; d] =>
      match getQ l2, getQ d with
      | Some l2, Some d => Some (mkS c lo hi g (Qred l2) (Qred d))
      | _, _ => None
      end
  | _ => None
  end.

Definition getRrow (v : val) : option rrow :=
  match v with
  | VL [VS c; VZ lo; VZ hi; l2; d; gc; rm; sp] =>
      match getQ l2, getQ d, getQ gc, getQ rm, getQ sp with
      | Some l2, Some d, Some gc, Some rm, Some sp =>
          Some (mkR c lo hi (Qred l2) (Qred d) (Qred gc) (Qred rm) (Qred sp))
      | _, _, _, _, _ => None
      end
  | _ => None
  end.

Definition getCfg (v : val) : option cfg :=
  match v with
  | VL [VB a; VB b; VB c; VB d; VB e; VB f; VB g] => Some (mkCfg a b c d e f g)
  | _ => None
  end.

Definition getOracles (v : val) : option oracles :=
  match v with
  | VL [pt; wt; pa; wa] =>
      match getList getNat pt, getNat wt, getList getNat pa, getNat wa with
      | Some pt, Some wt, Some pa, Some wa => Some (mkOr pt wt pa wa)
      | _, _, _, _ => None
      end
  | _ => None
  end.

Definition err_val (e : fix_error) : val :=
  match e with
  | DupSample => VErr "duplicate-sample"
  | DupReference => VErr "duplicate-reference"
  | MissingBins => VErr "missing"
  end.

(* distance of every log2 that takes part in a low-coverage decision to the cut-off *)
Definition low_margin (l : list brow) : Q :=
  qmin (1000 :: map (fun b => Qabs (blog2 b - low_cut)) l).

Definition getInput (v : val) :=
  match v with
  | VL (c :: o :: t :: a :: r :: rest) =>
      match getCfg c, getOracles o, getList getSrow t, getList getSrow a, getList getRrow r with
      | Some c, Some o, Some t, Some a, Some r => Some (c, o, t, a, r, rest)
      | _, _, _, _, _ => None
      end
  | _ => None
  end.

(* phase A: [cfg; oracles; target; antitarget; reference] ->
   [target residuals; antitarget residuals; margin; n_target; n_antitarget] *)
Definition e_c04_pre (v : val) : val :=
  match getInput v with
  | Some (c, o, t, a, r, _) =>
      match fix_pre c o t a r with
      | inl e => err_val e
      | inr l =>
          (* margins at the three places a computed log2 meets the low-coverage cut-off *)
          let m1 := match match_ref r (presort t) with
                    | inr m => Qmin (low_margin (mask_bad c m)) (low_margin (center_all c true (mask_bad c m)))
                    | inl _ => 1000 end in
          let m2 := match match_ref r (presort a) with
                    | inr m => low_margin (center_all c false (mask_bad c m))
                    | inl _ => 1000 end in
          let m3 := Qmin (low_margin l) (low_margin (center_all c true l)) in
          VL [vListQ (class_residuals c false l); vListQ (class_residuals c true l);
              VQ (Qred (Qmin m1 (Qmin m2 m3)));
              VZ (Z.of_nat (length (filter (fun b => negb (is_anti_gene b)) l)));
              VZ (Z.of_nat (length (filter is_anti_gene l)))]
      end
  | None => bad_input
  end.

Definition sqrt_table (tab : list (Z * Q)) (z : Z) : Q :=
  match find (fun p => Z.eqb z (fst p)) tab with Some p => snd p | None => 0 end.

Definition out_row (p : brow * Q) : val :=
  let s := fst (fst p) in
  VL [VS (s_chrom s); VZ (s_lo s); VZ (s_hi s); VS (s_gene s); VQ (Qred (s_log2 s)); VQ (Qred (snd p))].

(* phase B: [cfg; oracles; target; antitarget; reference; sqrt table; var_t; var_a] -> rows *)
Definition e_c04_fix (v : val) : val :=
  match getInput v with
  | Some (c, o, t, a, r, [tab; vt; va]) =>
      match getList (getPair getZ getQ) tab, getQ vt, getQ va with
      | Some tab, Some vt, Some va =>
          match fix_pre c o t a r with
          | inl e => err_val e
          | inr l => VL (map out_row (fix_post c (sqrt_table tab) vt va l))
          end
      | _, _, _ => bad_input
      end
  | _ => bad_input
  end.

(* unit correspondences ---------------------------------------------------------- *)

(* rows (chrom, lo, hi) in table order -> get_edge_bias *)
Definition e_c04_edge (v : val) : val :=
  match getList (getTriple getS getZ getZ) v with
  | Some ks =>
      vListQ (edge_bias (map (fun k => (mkS (fst (fst k)) (snd (fst k)) (snd k) "" 0 0,
                                        mkR "" 0 0 0 0 0 0 0)) ks))
  | None => bad_input
  end.

(* [wing; values] -> smoothing.rolling_median *)
Definition e_c04_rolling (v : val) : val :=
  match getPair getNat (getList getQ) v with
  | Some (w, xs) => vListQ (rolling_median w (map Qred xs))
  | None => bad_input
  end.

(* chromosome name -> matches the autosome pattern *)
Definition e_c04_is_auto (v : val) : val :=
  match getS v with Some s => VB (is_auto_name s) | None => bad_input end.

(* [chromosome names; log2 values] -> median of per-chromosome medians *)
Definition e_c04_cmed (v : val) : val :=
  match getPair (getList getS) (getList getQ) v with
  | Some (cs, xs) => VQ (Qred (cmed (combine cs (map Qred xs))))
  | None => bad_input
  end.
