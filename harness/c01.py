"""C01 -- clonal calls invert the purity/ploidy mixing model; cn is never negative.

Correspondence: cnvlib.call.do_call(method='clonal') on generated CopyNumArray tables
against the extracted Coq model (Model/Call.v, entry c01_call).  Direct oracles,
independent of the model, evaluated on the code's own output:
  * mixture rows (log2 = log2((p*n + (1-p)*x)/r) with (r, x) from the property's class
    table, typed here from the property text): cn == n; for even ploidy and purity < 1
    the rewritten log2 equals log2(max(n, 0.001*ploidy)/r);
  * no purity: |cn - r*2^log2| <= 1/2;
  * every row, every configuration: cn is an integer >= 0.
The Python class table is cross-checked against the Coq specification (Spec/Call.v,
entry c01_spec_table) on every run; a disagreement there is an infrastructure error."""
import os, json, math
from fractions import Fraction as F
import numpy as np
import pandas as pd
import vlib
from vlib import Err

LEVEL = 'proof'
HALF = F(1, 2)
AMBIG = 1e-7

# --------------------------------------------------------------------------------------
# the property's class table, typed from the property text (independent of /repo and of the model)

PAR = {
    'grch37': {'X': [(60000, 2699520), (154931043, 155260560)], 'Y': [(10000, 2649520), (59034049, 59363566)]},
    'grch38': {'X': [(10000, 2781479), (155701382, 156030895)], 'Y': [(10000, 2781479), (56887902, 57217415)]},
}
KL = {'auto': 0, 'X': 1, 'Y': 2, 'parX': 3, 'parY': 4}


def py_class(style_chr, build, chrom, lo, hi, par=True):
    """class of a bin in a consistently named table; par=False: the path that ignores PAR"""
    xn, yn = ('chrX', 'chrY') if style_chr else ('X', 'Y')
    b = build.lower() if (build and par) else None
    if chrom == xn:
        if b and any(a <= lo and hi <= z for a, z in PAR[b]['X']):
            return 'parX'
        return 'X'
    if chrom == yn:
        if b and any(a <= lo and hi <= z for a, z in PAR[b]['Y']):
            return 'parY'
        return 'Y'
    return 'auto'


def py_copies(k, male_ref, female, kl):
    """(r, x): copies in the reference / in the patient's germline"""
    if kl in ('auto', 'parX'):
        return k, k
    if kl == 'X':
        return (k // 2 if male_ref else k), (k if female else k // 2)
    if kl == 'Y':
        return k // 2, (0 if female else k // 2)
    if kl == 'parY':
        return 0, 0
    raise ValueError(kl)


def first_row_class(first, build, chrom, lo, hi):
    """C01_mixed_naming: on the purity-adjusted path the FIRST row's style decides which names are sex chromosomes
    ('chrX'/'chrY' if it starts with 'chr', else 'X'/'Y'); any other name -- including X / Y in the other style -- is an
    autosome.  PAR membership is inclusive at both ends (C01_par_inclusive)."""
    xn, yn = ('chrX', 'chrY') if first.startswith('chr') else ('X', 'Y')
    b = build.lower() if build else None
    if chrom == xn:
        return 'parX' if (b and any(a <= lo and hi <= z for a, z in PAR[b]['X'])) else 'X'
    if chrom == yn:
        return 'parY' if (b and any(a <= lo and hi <= z for a, z in PAR[b]['Y'])) else 'Y'
    return 'auto'


def mixed_expectation(cfg, first, row):
    """(expected absolute copy number, expected rewritten ratio or None) of a row of an arbitrarily named table"""
    k, p, hapx, female = cfg['ploidy'], cfg['purity'], cfg['hapx'], cfg['female']
    e = exp2(row['log2'])
    if purity_path(cfg):
        kl = first_row_class(first, cfg['build'], row['chrom'], row['start'], row['end'])
        r, x = py_copies(k, hapx, female, kl)
        a = max((r * e - x * (1 - F(p))) / F(p), F(0))
        shift = (kl == 'X' and hapx) or kl == 'Y'
        return a, max(a / k, F(1.0e-3)) * (2 if shift else 1)
    low = row['chrom'].lower()
    r = k // 2 if (low in ('chry', 'y') or (hapx and low in ('chrx', 'x'))) else k
    return r * e, None


# --------------------------------------------------------------------------------------
# running the code


def index_labels(n, mode):
    """Row labels of the input table: 'default' 0..n-1; 'gaps' increasing with holes (what a boolean-mask
    subset such as arr[mask] / drop_low_coverage() leaves); 'permuted' a fixed permutation of 0..n-1 (what
    sort() leaves on a table built in another order).  The property is about rows, never about labels."""
    if mode == 'gaps':
        return [3 * i + (i % 2) + 2 for i in range(n)]
    if mode == 'permuted':
        return [(7 * i + 3) % n if math.gcd(7, n) == 1 else (n - 1 - i) for i in range(n)]
    return list(range(n))


def make_cna(rows, index_mode='default'):
    from cnvlib.cnary import CopyNumArray
    d = pd.DataFrame({
        'chromosome': [r['chrom'] for r in rows],
        'start': np.array([r['start'] for r in rows], dtype=np.int64),
        'end': np.array([r['end'] for r in rows], dtype=np.int64),
        'gene': ['-'] * len(rows),
        'log2': np.array([r['log2'] for r in rows], dtype=np.float64),
        'probes': np.array([1] * len(rows), dtype=np.int64),
        'weight': np.array([1.0] * len(rows), dtype=np.float64),
    })
    if index_mode != 'default':
        d.index = index_labels(len(rows), index_mode)
    return CopyNumArray(d, {'sample_id': 'gen'})


def run_code(cfg, rows):
    from cnvlib import call
    arr = make_cna(rows, cfg.get('index', 'default'))
    kw = dict(method='clonal', ploidy=cfg['ploidy'], is_haploid_x_reference=cfg['hapx'],
              is_sample_female=cfg['female'])
    if cfg['purity'] is not None:
        kw['purity'] = cfg['purity']
    if cfg['build'] is not None:
        kw['diploid_parx_genome'] = cfg['build']
    try:
        out = call.do_call(arr, **kw)
    except AssertionError:
        return Err('AssertionError')
    if len(out) != len(rows):
        return Err('row count changed: %d -> %d' % (len(rows), len(out)))
    cn = out.data['cn']
    if not np.issubdtype(cn.dtype, np.integer):
        return Err('cn dtype %s is not an integer type' % cn.dtype)
    return [int(v) for v in cn.values], [float(v) for v in out.data['log2'].values]


def exp2(v):
    """2**v as the code computes it (numpy float64 power), exact rational"""
    return F(float(np.float64(2.0) ** np.float64(v)))


def model_input(cfg, rows):
    return [cfg['ploidy'], None if cfg['purity'] is None else F(cfg['purity']), bool(cfg['hapx']), bool(cfg['female']),
            cfg['build'], [[r['chrom'], r['start'], r['end'], exp2(r['log2'])] for r in rows]]


def purity_path(cfg):
    p = cfg['purity']
    return bool(p) and p < 1.0


# --------------------------------------------------------------------------------------
# generators

FIXED_PURITIES = [1.0, 0.999, 0.9, 0.75, 0.5, 0.3, 0.25, 0.1, 0.01]


def coord_instances(build, sex):
    """[(start, end, tag)] placed inside / on / straddling / outside each PAR of the build
    (coordinates of grch37 when no build is given: then they are plain X / Y bins)"""
    b = (build or 'grch37').lower()
    (a1, z1), (a2, z2) = PAR[b][sex]
    return [
        (a1, z1, 'par1-exact'), (a1 - 1, z1, 'par1-start-1'), (a1, z1 + 1, 'par1-end+1'), (a1 + 1, z1 - 1, 'par1-inner'),
        (z1 - 10, z1 + 10, 'par1-straddle-end'), (a1 - 10, a1 + 10, 'par1-straddle-start'),
        (a2, z2, 'par2-exact'), (a2 - 1, z2, 'par2-start-1'), (a2, z2 + 1, 'par2-end+1'),
        (a2 + 1000, a2 + 2000, 'par2-inner'), (z1 + 1, a2 - 1, 'between'), (z1, a2, 'between-touching'),
        (0, a1, 'before-par1'), (z2, z2 + 1000, 'after-par2'),
    ]


def mixture_log2(n, p, r, x):
    """log2((p*n + (1-p)*x)/r) computed in floating point as a user would; None if undefined"""
    if r <= 0:
        return None
    num = p * n + (1.0 - p) * x
    if num <= 0:
        return None
    return float(np.log2(num / r))


def boundary_log2s(rng, k, p_eff, r, x):
    """log2 values next to the decision boundaries: absolute copy number crossing j + 1/2
    (rounding) and 0 (clip), on both sides"""
    out = []
    if r <= 0:
        return out
    for _ in range(3):
        j = rng.choice([0, 0, 1, 2, 3, rng.randint(0, 12)])
        if p_eff is None:
            e = (j + 0.5) / r
        else:
            e = (p_eff * (j + 0.5) + x * (1.0 - p_eff)) / r
        if e > 0:
            v = math.log2(e)
            out.append((v + rng.choice([-1e-6, 1e-6, -1e-4, 1e-4]), 'round-boundary'))
    if p_eff is not None and x > 0:
        e = x * (1.0 - p_eff) / r
        if e > 0:
            out.append((math.log2(e) + rng.choice([-1e-6, 1e-6, -1e-3]), 'clip-boundary'))
    return out


def gen_table(rng, cfg, n_values, sample_boundary_n=3, n_random=10, first_kind=None):
    """one table for a configuration: mixture rows for every class instance and n, then
    random / boundary log2 rows.  Returns rows (dicts)."""
    k, p, hapx, female, build, style = cfg['ploidy'], cfg['purity'], cfg['hapx'], cfg['female'], cfg['build'], cfg['style']
    pp = purity_path(cfg)
    p_mix = p if p is not None else 1.0        # mixing purity of the generated truth
    autos = ['chr1', 'chr17'] if style else ['1', '17']
    xn, yn = ('chrX', 'chrY') if style else ('X', 'Y')
    inst = [(autos[0], 1000, 2000, 'auto'), (autos[1], 0, 50000000, 'auto'),
            (xn, 3000000, 3100000, 'nonpar'), (yn, 3000000, 3100000, 'nonpar'),
            (xn, 100000, 200000, 'par1-inside'), (yn, 100000, 200000, 'par1-inside')]
    full = len(inst)
    for sex, nm in (('X', xn), ('Y', yn)):
        for (a, z, tag) in coord_instances(build, sex):
            inst.append((nm, a, z, tag))
    rows = []
    for idx, (chrom, lo, hi, tag) in enumerate(inst):
        kl = py_class(style, build, chrom, lo, hi, par=pp)
        r, x = py_copies(k, hapx, female, kl)
        ns = n_values if idx < full else rng.sample(n_values, min(sample_boundary_n, len(n_values)))
        for n in ns:
            v = mixture_log2(n, p_mix, r, x)
            if v is None:
                # premise of the mixing clause cannot hold (r = 0, or zero signal): a plain row instead
                rows.append(dict(chrom=chrom, start=lo, end=hi, log2=float(rng.choice([-1.0, 0.0, 0.5])), n=None,
                                 kl=kl, r=r, x=x, tag='nomix:' + tag))
            else:
                rows.append(dict(chrom=chrom, start=lo, end=hi, log2=v, n=n, kl=kl, r=r, x=x, tag='mix:' + tag))
    for _ in range(n_random):
        chrom, lo, hi, tag = rng.choice(inst)
        kl = py_class(style, build, chrom, lo, hi, par=pp)
        r, x = py_copies(k, hapx, female, kl)
        cands = [(rng.uniform(-30, 30), 'rand-wide'), (rng.uniform(-4, 3), 'rand'), (rng.uniform(-4, 3), 'rand'),
                 (rng.choice([-30.0, 30.0, 0.0, -1.0, -2.0, 1.0, -5.0]), 'rand-fixed')]
        cands += boundary_log2s(rng, k, p if pp else None, r, x)
        v, t = rng.choice(cands)
        rows.append(dict(chrom=chrom, start=lo, end=hi, log2=float(v), n=None, kl=kl, r=r, x=x, tag=t + ':' + tag))
    # which row comes first decides the labels; all candidates are consistently named
    fk = first_kind if first_kind is not None else rng.choice(['auto', 'auto', 'auto', 'X', 'Y'])
    if fk != 'auto':
        nm = xn if fk == 'X' else yn
        i = next(i for i, r in enumerate(rows) if r['chrom'] == nm)
        rows.insert(0, rows.pop(i))
    return rows


def edge_tables(rng, count):
    """inconsistently named tables, odd purities, unsupported / mixed-case builds:
    only non-negativity and model agreement are checked here"""
    names = ['chr1', '1', 'chrX', 'X', 'chrY', 'Y', 'chrx', 'x', 'chry', 'y', 'CHRX', 'ChrY', 'chrXX', 'Xchr', 'chr', 'c',
             'chrM', 'chrX_random', ' chrX', 'chrX ', 'chr23']
    out = []
    for _ in range(count):
        cfg = dict(ploidy=rng.randint(1, 6), purity=rng.choice([None, None, 0.0, 1.0, 1.5, 0.5, 0.7, 0.999, rng.uniform(0.01, 1)]),
                   hapx=rng.random() < 0.5, female=rng.random() < 0.5,
                   build=rng.choice([None, None, 'grch37', 'grch38', 'GRCh38', 'GRCH37', 'hg19', 'grch39', '']), style=None)
        rows = []
        for _ in range(rng.randint(1, 12)):
            chrom = rng.choice(names)
            sex = 'Y' if 'y' in chrom.lower() else 'X'
            a, z, tag = rng.choice(coord_instances(cfg['build'] if cfg['build'] in ('grch37', 'grch38') else None, sex))
            rows.append(dict(chrom=chrom, start=a, end=z, log2=float(rng.choice([rng.uniform(-30, 30), rng.uniform(-3, 3), -1.0, 0.0, -5.0])),
                             n=None, kl=None, r=None, x=None, tag='edge:' + tag))
        out.append((cfg, rows))
    return out


# --------------------------------------------------------------------------------------
# checking one table


def slim(row):
    return {k: row[k] for k in ('chrom', 'start', 'end', 'log2', 'n') if k in row}


def case_of(cfg, rows, i):
    """shrunk case: the first row (it decides the labels) and the failing row"""
    keep = [rows[0]] if i == 0 else [rows[0], rows[i]]
    return {'cfg': cfg, 'rows': [slim(r) for r in keep], 'row_index': 0 if i == 0 else 1}


def check_table(ck, cfg, rows, code, model, consistent=True, count=True, tol=vlib.TOL, src=''):
    """direct oracles on the code's output, then code vs model.  Returns #violations reported."""
    nv = 0
    pp = purity_path(cfg)
    k = cfg['ploidy']
    if isinstance(code, Err) or isinstance(model, Err):
        if count:
            ck.count(['err', cfg, [slim(r) for r in rows]], nontrivial=False, cls='error:%s' % (code.msg if isinstance(code, Err) else 'model'))
        if isinstance(code, Err) and code.msg != 'AssertionError':
            ck.violation('do_call output malformed: %s' % code.msg, {'cfg': cfg, 'rows': [slim(r) for r in rows]},
                         code=code, clause='C01_nonneg')
            return 1
        if code != model:
            ck.tie_break('error behaviour differs between do_call and the model', {'cfg': cfg, 'rows': [slim(r) for r in rows]},
                         code=code, model=model)
        return 0
    cns, logs = code
    if len(model) != len(rows):
        raise RuntimeError('model returned %d rows for %d' % (len(model), len(rows)))
    for i, (row, cn, new_v, m) in enumerate(zip(rows, cns, logs, model)):
        m_cn, m_abs, m_ratio = m
        bad = False
        e = exp2(row['log2'])
        # --- direct oracles ---------------------------------------------------------
        if cn < 0:
            ck.violation('clonal call reports a negative copy number', case_of(cfg, rows, i), code=cn, expected='>= 0',
                         clause='C01_nonneg')
            bad = True
        if consistent and row.get('n') is not None:
            n = row['n']
            if cn != n:
                ck.violation('clonal call does not invert the mixing model: cn=%d for a generated n=%d' % (cn, n),
                             case_of(cfg, rows, i), code=cn, expected=n, clause='C01_cn_exact')
                bad = True
            if pp and k % 2 == 0 and row['r'] > 0:
                exp_ratio = max(F(n), F(1, 1000) * k) / row['r']
                if not (new_v == new_v) or not vlib.close(2.0 ** new_v, exp_ratio, tol):
                    ck.violation('rewritten log2 is not that of a pure %d-copy sample against the reference' % n,
                                 case_of(cfg, rows, i), code=new_v, expected=math.log2(exp_ratio), clause='C01_rescaled_log2')
                    bad = True
        if consistent and not pp and row.get('r') is not None:
            d = abs(F(cn) - row['r'] * e)
            if d > HALF:
                if float(d - HALF) <= AMBIG * max(1.0, float(row['r'] * e)):
                    ck.float_ambiguous += 1
                else:
                    ck.violation('cn is not the nearest integer to r*2^log2', case_of(cfg, rows, i), code=cn,
                                 expected=float(row['r'] * e), clause='C01_nearest')
                    bad = True
        if not consistent and (cfg['build'] is None or cfg['build'].lower() in PAR):
            exp_a, exp_ratio = mixed_expectation(cfg, rows[0]['chrom'], row)
            fr = exp_a - math.floor(exp_a)
            if cn != round(exp_a):          # round() of a Fraction: half to even, as numpy
                if abs(float(fr - HALF)) <= AMBIG * max(1.0, float(exp_a)):
                    ck.float_ambiguous += 1
                else:
                    # outside the property's quantifier (consistent naming): a deviation from the proved characterisation of
                    # the current behaviour is a broken tie, not a violated clause
                    ck.tie_break('inconsistently named table: cn is not what the first row\'s naming style implies (C01_mixed_naming)',
                                 case_of(cfg, rows, i), code=cn, model=float(exp_a))
                    bad = True
            if exp_ratio is not None and (not (new_v == new_v) or not vlib.close(2.0 ** new_v, exp_ratio, tol)):
                ck.tie_break('inconsistently named table: rewritten log2 is not what the first row\'s naming style implies (C01_mixed_naming)',
                             case_of(cfg, rows, i), code=new_v, model=math.log2(exp_ratio))
                bad = True
        if not pp and (new_v != row['log2'] if tol == vlib.TOL else abs(new_v - row['log2']) > 1e-5 * max(1.0, abs(row['log2']))):
            ck.violation('log2 changed on the no-purity path', case_of(cfg, rows, i), code=new_v, expected=row['log2'],
                         clause='C01_rescaled_log2')
            bad = True
        # --- code vs model ----------------------------------------------------------
        nontriv = bool(row.get('n')) or row['tag'].split(':')[0] in ('round-boundary', 'clip-boundary')
        if count:
            ck.count(['row', cfg, slim(row)], nontrivial=nontriv,
                     cls='%s%s|%s|%s' % (src, 'purity' if pp else 'pure', row['tag'].split(':')[0], row.get('kl') or 'edge'))
        if bad:
            nv += 1
            continue
        if cn != m_cn:
            frac = m_abs - math.floor(m_abs)
            if abs(float(frac - HALF)) <= AMBIG * max(1.0, abs(float(m_abs))):
                ck.float_ambiguous += 1
            else:
                ck.tie_break('model cn differs from do_call', case_of(cfg, rows, i), code=cn, model=m_cn, model_abs=float(m_abs))
        if pp:
            if m_ratio is None or not vlib.close(2.0 ** new_v, m_ratio, tol):
                # the floor max(a/ploidy, 0.001) is a decision too: ambiguous only right at it
                ck.tie_break('model rewritten ratio differs from do_call', case_of(cfg, rows, i), code=2.0 ** new_v,
                             model=m_ratio)
        elif m_ratio is not None:
            ck.tie_break('model rewrites log2 on the no-purity path', case_of(cfg, rows, i), code=new_v, model=m_ratio)
    return nv


def check_tables(ck, tables, consistent=True, count=True):
    codes = [run_code(cfg, rows) for cfg, rows in tables]
    models = vlib.model_batch_parallel('c01_call', [model_input(cfg, rows) for cfg, rows in tables])
    nv = 0
    for (cfg, rows), c, m in zip(tables, codes, models):
        nv += check_table(ck, cfg, rows, c, m, consistent=consistent, count=count)
    return nv


# --------------------------------------------------------------------------------------
# harness self-consistency: Python class table == Coq specification table


def check_spec_table(ck):
    reqs, exp = [], []
    for style in (True, False):
        xn, yn = ('chrX', 'chrY') if style else ('X', 'Y')
        for build in (None, 'grch37', 'grch38'):
            inst = [('chr1' if style else '1', 5, 10), (xn, 3000000, 3100000), (yn, 3000000, 3100000)]
            for sex, nm in (('X', xn), ('Y', yn)):
                inst += [(nm, a, z) for a, z, _ in coord_instances(build, sex)]
            for chrom, lo, hi in inst:
                for k in range(1, 7):
                    for mr in (False, True):
                        for fs in (False, True):
                            kl = py_class(style, build, chrom, lo, hi)
                            r, x = py_copies(k, mr, fs, kl)
                            reqs.append([style, build, chrom, lo, hi, k, mr, fs])
                            exp.append([KL[kl], r, x])
    got = vlib.model_batch('c01_spec_table', reqs)
    for q, g, e in zip(reqs, got, exp):
        if g != e:
            raise RuntimeError('Coq Spec.Call table disagrees with the python oracle table on %r: %r vs %r' % (q, g, e))
    ck.extra['spec_table_points'] = len(reqs)


def check_rounding(ck):
    """numpy round vs the model's round_he on exact halves and neighbours"""
    vals = []
    for j in range(-6, 40):
        for d in (0.0, 0.5, 0.25, 0.75, 0.5 - 2 ** -30, 0.5 + 2 ** -30):
            vals.append(j + d)
    got = vlib.model_batch('c01_round', [F(v) for v in vals])
    for v, g in zip(vals, got):
        c = int(np.round(np.float64(v)))
        ck.count(['round', v], nontrivial=(v % 1 == 0.5), cls='round')
        if c != g:
            ck.tie_break('model round_he differs from numpy round', {'value': v}, code=c, model=g)


# --------------------------------------------------------------------------------------


# --------------------------------------------------------------------------------------
# command-line round trip: cnvkit.py call -m clonal on a written .cns file


def cli_args(cfg, fname, out):
    argv = ['call', fname, '-m', 'clonal', '--ploidy', str(cfg['ploidy']), '-o', out]
    if cfg['purity'] is not None:
        argv += ['--purity', repr(cfg['purity'])]
    if cfg['hapx']:
        argv += ['-y']
    argv += ['-x', 'female' if cfg['female'] else 'male']
    if cfg['build'] is not None:
        argv += ['--diploid-parx-genome', cfg['build']]
    return argv


def run_cli(cfg, rows, scratch, idx, spawn):
    """write the table as .cns, run the `call` command (in-process through commands.parse_args, or as a
    separate process), read the .call.cns back; rows are matched through the gene column"""
    import subprocess
    fname = os.path.join(scratch, 'cli%d.cns' % idx)
    out = os.path.join(scratch, 'cli%d.call.cns' % idx)
    with open(fname, 'w') as fh:
        fh.write('chromosome\tstart\tend\tgene\tlog2\tdepth\tprobes\tweight\n')
        for i, r in enumerate(rows):
            fh.write('%s\t%d\t%d\tr%d\t%r\t1.0\t1\t1.0\n' % (r['chrom'], r['start'], r['end'], i, r['log2']))
    argv = cli_args(cfg, fname, out)
    if spawn:
        p = subprocess.run([vlib.PY, '-c', 'from cnvlib import cnvkit; cnvkit.main()'] + argv, env=vlib.repo_env(),
                           stdout=subprocess.PIPE, stderr=subprocess.PIPE, timeout=600)
        if p.returncode != 0:
            return Err('cnvkit.py call exited %d: %s' % (p.returncode, p.stderr.decode(errors='replace')[-200:]))
    else:
        from cnvlib import commands
        args = commands.parse_args(argv)
        args.func(args)
    tab = pd.read_csv(out, sep='\t', dtype={'chromosome': str, 'gene': str})
    os.remove(fname)
    os.remove(out)
    if len(tab) != len(rows):
        return Err('row count changed: %d -> %d' % (len(rows), len(tab)))
    if not np.issubdtype(tab['cn'].dtype, np.integer):
        return Err('cn column of the written file is not integral (%s)' % tab['cn'].dtype)
    pos = {int(g[1:]): j for j, g in enumerate(tab['gene'])}
    cns = [int(tab['cn'].iat[pos[i]]) for i in range(len(rows))]
    logs = [float(tab['log2'].iat[pos[i]]) for i in range(len(rows))]
    return cns, logs


def check_cli(ck, scratch, count, spawn_count):
    rng = ck.rng
    tables, codes = [], []
    for i in range(count):
        cfg = dict(ploidy=rng.randint(1, 6), purity=rng.choice([None, 1.0, 0.999, 0.9, 0.5, 0.3, round(rng.uniform(0.05, 0.99), 3)]),
                   hapx=rng.random() < 0.5, female=rng.random() < 0.5, build=rng.choice([None, 'grch37', 'grch38']),
                   style=rng.random() < 0.5)
        # the reader sorts the table: chr1 / 1 comes first, which is also the first generated row
        rows = gen_table(rng, cfg, list(range(0, 13)), n_random=8, first_kind='auto')
        if i % 3 == 1:
            # a table without chrX rows (autosomes + Y only): the sample sex cannot be guessed from it, so the
            # sex GIVEN on the command line is all there is
            rows = [r for r in rows if r['chrom'] not in ('chrX', 'X')]
        tables.append((cfg, rows))
        codes.append(run_cli(cfg, rows, scratch, i, spawn=i < spawn_count))
    models = vlib.model_batch_parallel('c01_call', [model_input(cfg, rows) for cfg, rows in tables])
    for (cfg, rows), c, m in zip(tables, codes, models):
        # the written log2 carries 6 significant digits
        check_table(ck, cfg, rows, c, m, consistent=True, tol=1e-4, src='cli:')
    ck.extra['cli_round_trips'] = '%d files (%d through a separate process)' % (count, min(count, spawn_count))


def load_corpus():
    p = os.path.join(vlib.VERIF, 'corpus', 'c01.json')
    return [c for c in (json.load(open(p)) if os.path.exists(p) else []) if c.get('stream') != 'do_call']


def load_docall_corpus():
    p = os.path.join(vlib.VERIF, 'corpus', 'c01.json')
    return [c for c in (json.load(open(p)) if os.path.exists(p) else []) if c.get('stream') == 'do_call']


def corpus_tables():
    out = []
    for c in load_corpus():
        cfg = dict(c['cfg'])
        rows = []
        for r in c['rows']:
            r = dict(r)
            r.setdefault('tag', 'corpus')
            if cfg.get('style') is not None:
                kl = py_class(cfg['style'], cfg['build'], r['chrom'], r['start'], r['end'], par=purity_path(cfg))
                r['kl'] = kl
                r['r'], r['x'] = py_copies(cfg['ploidy'], cfg['hapx'], cfg['female'], kl)
            else:
                r['kl'] = r['r'] = r['x'] = None
            r.setdefault('n', None)
            rows.append(r)
        out.append((cfg, rows, c.get('name', '')))
    return out


def run(ck, scratch):
    ck.rule = ('one do_call(method=clonal) per configuration (ploidy 1..6 x haploid/diploid-X reference x female/male sample x '
               'chr/plain naming x row labels default / with gaps / permuted x build None/grch37/grch38 x purities: None, 1.0, 0.999, 7 fixed in (0,1), random) on a table '
               'holding, for every class instance (2 autosomes, X, Y, bins inside / exactly on / one base off / straddling / '
               'between each PAR), a row per n in 0..12 whose log2 is computed from the property\'s (r, x) table, plus rows with '
               'random log2 in [-30,30], fixed values and values 1e-6/1e-4 either side of every rounding and clipping boundary; '
               'edge stream: inconsistently named tables (second, independent statement of C01_mixed_naming: the first row\'s style decides; deviations are tie-breaks), purity 0 / >= 1, mixed-case and unsupported builds; the same tables through '
               '`cnvkit.py call -m clonal` on written .cns files (6 quick / 50 thorough). '
               'non-trivial = mixture row with n >= 1, or a row next to a rounding/clipping boundary; distinct by (config,row) hash')
    if not ck.build_status.get('driver_ok'):
        raise RuntimeError('model driver unavailable')
    check_spec_table(ck)
    check_rounding(ck)
    rng = ck.rng
    # corpus first
    ctabs = corpus_tables()
    check_tables(ck, [(cfg, rows) for cfg, rows, _ in ctabs if cfg.get('style') is not None], consistent=True)
    check_tables(ck, [(cfg, rows) for cfg, rows, _ in ctabs if cfg.get('style') is None], consistent=False)
    ck.extra['corpus_cases'] = len(ctabs)
    # configuration grid
    quick = ck.tier == 'quick'
    n_rand_p = 2 if quick else 50
    n_values = list(range(0, 13))
    tables = []
    for k in range(1, 7):
        for hapx in (False, True):
            for female in (False, True):
                for style in (True, False):
                    purities = [None] + FIXED_PURITIES + [round(rng.uniform(0.02, 0.998), rng.choice([2, 3, 17])) for _ in range(n_rand_p)]
                    for p in purities:
                        builds = [None, 'grch37', 'grch38'] if (p is not None and p < 1.0) else [None, rng.choice(['grch37', 'grch38'])]
                        for build in builds:
                            cfg = dict(ploidy=k, purity=p, hapx=hapx, female=female, build=build, style=style,
                                       index=('default', 'gaps', 'permuted')[len(tables) % 3])
                            tables.append((cfg, gen_table(rng, cfg, n_values, n_random=10 if quick else 30)))
    ck.extra['grid_tables'] = len(tables)
    # in chunks, to bound memory and give the model batches a sensible size
    step = 400
    for i in range(0, len(tables), step):
        check_tables(ck, tables[i:i + step], consistent=True)
    # edge stream
    check_tables(ck, edge_tables(rng, 300 if quick else 5000), consistent=False)
    # do_call end to end (shared stream): clonal / none / threshold x purity x baf none / column / variants
    import calldo
    calldo.corpus(ck, load_docall_corpus())
    calldo.stream(ck, 180 if quick else 3000, (0.2, 0.65, 0.15), 'docall')
    ck.rule += ' || ' + calldo.RULE
    # command line
    check_cli(ck, scratch, 6 if quick else 50, 1 if quick else 5)
    ck.unproved_remainder = [
        'that numpy 2**v / np.log2 are within 1e-12 of the real functions is trusted (RealFacts proves the real-function contracts; '
        'the harness supplies the library values to the model as exact rationals)',
        'rows whose exact absolute copy number lies within 1e-7 (relative) of a rounding boundary are counted float_ambiguous and '
        'their cn is not compared with the model',
        'do_call end to end (Model/Baf.v do_call_model; C01_do_call_clonal, C01_do_call_rows): outside the model are the filters= argument '
        '(C14), the content of variants.baf_by_ranges (C18), sort_columns, and a NaN log2 under method=clonal',
        'source ties: _log2_ratio_to_absolute(_pure), _reference_copies_pure and log2_ratios (C01_source_log2_ratios, per element, masks as '
        'booleans) are translated from the source on every run; get_as_dframe_and_set_reference_and_expect_copies (pandas .loc assignments) and '
        'the cnary masks (chr_x_filter, parx_filter, ...) are tied by literal/statement pinning (tools/genspecs/c01.py) + correspondence only',
    ]


def replay(ck, body):
    case = body.get('case') or {}
    cfg, rows = case.get('cfg'), case.get('rows')
    if not cfg or not rows:
        print('replay: no case in file (%s)' % body.get('what'))
        return 0
    if case.get('stream') == 'do_call':
        import calldo
        calldo.replay_case(ck, case)
        bad = bool(ck.violations or ck.tie_breaks)
        what = [v[1] for v in ck.violations] + [t[0] for t in ck.tie_breaks]
        print('replay: %s' % (('still failing: %s' % what) if bad else 'passes now'))
        return 1 if bad else 0
    full = []
    for r in rows:
        r = dict(r)
        r.setdefault('tag', 'replay')
        if cfg.get('style') is not None:
            kl = py_class(cfg['style'], cfg['build'], r['chrom'], r['start'], r['end'], par=purity_path(cfg))
            r['kl'] = kl
            r['r'], r['x'] = py_copies(cfg['ploidy'], cfg['hapx'], cfg['female'], kl)
        else:
            r['kl'] = r['r'] = r['x'] = None
        r.setdefault('n', None)
        full.append(r)
    code = run_code(cfg, full)
    print('configuration:', cfg)
    for r in full:
        print('  row:', slim(r))
    print('do_call output (cn, log2):', code)
    model = vlib.model_batch('c01_call', [model_input(cfg, full)])[0] if os.path.exists(vlib.DRIVER) else None
    print('model output (cn, absolute, ratio):', model)
    nv = check_table(ck, cfg, full, code, model, consistent=cfg.get('style') is not None, count=False) if model is not None else 0
    bad = bool(ck.violations or ck.tie_breaks)
    what = [v[1] for v in ck.violations] + [t[0] for t in ck.tie_breaks]
    print('replay: %s' % (('still failing: %s' % what) if bad else 'passes now'))
    return 1 if bad else 0
