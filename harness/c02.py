"""C02 -- threshold calls are a monotone step function of log2; cn1 + cn2 = cn.

Correspondence: cnvlib.call.do_call(method='threshold') on generated CopyNumArray tables
(with and without a baf column) against the extracted Coq model (Model/Threshold.v,
Model/Baf.v; entry c02_call).  Direct oracles, independent of the model, on the code's
own output:
  * cn == number of thresholds strictly below log2 (times r/ploidy, truncated, where the
    reference has fewer copies); above the last threshold cn == ceil(r * 2^log2);
    NaN log2 -> r; row count unchanged;
  * with the default thresholds cn is non-decreasing in log2 on every chromosome (evaluated
    on the code's outputs sorted by log2) and is 2 at log2 0 on a diploid autosome;
  * with a baf column: cn1 + cn2 == cn, 0 <= cn1, cn2 <= cn, both missing exactly where
    baf is missing and cn > 0.
The monotonicity clause is known to fail for ploidy 1 / one reference copy / default
thresholds (cn 3 on (0.2, 0.7], cn 2 on (0.7, 1]): exactly that region is reported with the
signature of the open known finding; any other decrease is a normal violation."""
import os, json, math
from fractions import Fraction as F
import math
import numpy as np
import pandas as pd
import vlib
from vlib import Err

LEVEL = 'proof'
HALF = F(1, 2)
AMBIG = 1e-7
DEFAULTS = (-1.1, -0.25, 0.2, 0.7)          # the documented defaults (property text / docstring)
GERMLINE = (-1.1, -0.4, 0.3, 0.7)
KNOWN_SIG = 'threshold-ploidy1-refcopies1-nonmonotone'
NAN = float('nan')


def isnan(x):
    return x is None or x != x


# --------------------------------------------------------------------------------------
# the property's own statement (independent of the model)


def py_ref(chrom, k, hapx):
    """reference copies on the canonical chromosome names of the quantifier"""
    if chrom in ('chrY', 'Y'):
        return k // 2
    if chrom in ('chrX', 'X') and hapx:
        return k // 2
    return k


def exp2(v):
    return F(float(np.float64(2.0) ** np.float64(v)))


def py_step(v, ts, k, r):
    """(expected cn, ambiguous?) from the property text"""
    if isnan(v):
        return r, False
    if all(t < v for t in ts):
        x = r * exp2(v)
        c = math.ceil(x)
        near = min(x - math.floor(x), math.ceil(x) - x) if x != math.floor(x) else F(0)
        amb = (x != math.floor(x)) and float(near) <= AMBIG * max(1.0, float(x))
        # an exact integer in rational arithmetic may be one ulp off in floating point only if
        # r * 2^v is not exactly representable: r small, e a double -> r*e exact unless it overflows 53 bits
        return c, amb
    i = sum(1 for t in ts if t < v)
    if r == k:
        return i, False
    return math.floor(F(i * r, k)), False


# --------------------------------------------------------------------------------------
# running the code


def make_cna(rows, with_baf, index_mode='default'):
    from cnvlib.cnary import CopyNumArray
    d = {
        'chromosome': [r['chrom'] for r in rows],
        'start': np.arange(len(rows), dtype=np.int64) * 1000,
        'end': np.arange(len(rows), dtype=np.int64) * 1000 + 900,
        'gene': ['-'] * len(rows),
        'log2': np.array([NAN if isnan(r['log2']) else r['log2'] for r in rows], dtype=np.float64),
        'probes': np.array([1] * len(rows), dtype=np.int64),
        'weight': np.array([1.0] * len(rows), dtype=np.float64),
    }
    if with_baf:
        d['baf'] = np.array([NAN if isnan(r.get('baf')) else r['baf'] for r in rows], dtype=np.float64)
    df = pd.DataFrame(d)
    if index_mode == 'gaps':          # labels of a boolean-mask subset (arr[mask], drop_low_coverage())
        df.index = [3 * i + (i % 2) + 2 for i in range(len(rows))]
    elif index_mode == 'permuted':    # labels left by sort() on a table built in another order
        n = len(rows)
        df.index = [(7 * i + 3) % n if math.gcd(7, n) == 1 else (n - 1 - i) for i in range(n)]
    return CopyNumArray(df, {'sample_id': 'gen'})


def index_mode_of(cfg, rows):
    """row labels are not part of the property: vary them deterministically per table"""
    return ('default', 'gaps', 'permuted')[(len(rows) + cfg['ploidy'] + (1 if cfg['hapx'] else 0)) % 3]


def run_code(cfg, rows):
    from cnvlib import call
    arr = make_cna(rows, cfg['with_baf'], cfg.get('index') or index_mode_of(cfg, rows))
    kw = dict(method='threshold', ploidy=cfg['ploidy'], is_haploid_x_reference=cfg['hapx'])
    if cfg['thresholds'] is not None:
        kw['thresholds'] = tuple(cfg['thresholds']) if cfg.get('as_tuple', True) else np.array(cfg['thresholds'])
    out = call.do_call(arr, **kw)
    if len(out) != len(rows):
        return Err('row count changed: %d -> %d' % (len(rows), len(out)))
    cn = out.data['cn']
    if not np.issubdtype(cn.dtype, np.integer):
        return Err('cn dtype %s is not an integer type' % cn.dtype)
    res = {'cn': [int(x) for x in cn.values], 'has_alleles': ('cn1' in out.data.columns, 'cn2' in out.data.columns)}
    if 'cn1' in out.data.columns and 'cn2' in out.data.columns:
        res['cn1'] = [None if x != x else float(x) for x in out.data['cn1'].values]
        res['cn2'] = [None if x != x else float(x) for x in out.data['cn2'].values]
    # the input columns must come back untouched
    lg = out.data['log2'].values
    for r, x in zip(rows, lg):
        if not ((isnan(r['log2']) and x != x) or r['log2'] == x):
            return Err('log2 column changed')
    return res


def model_input(cfg, rows):
    ts = None if cfg['thresholds'] is None else [F(t) for t in cfg['thresholds']]
    return [cfg['ploidy'], bool(cfg['hapx']), ts, bool(cfg['with_baf']),
            [[r['chrom'], None if isnan(r['log2']) else F(r['log2']), F(0) if isnan(r['log2']) else exp2(r['log2']),
              None if isnan(r.get('baf')) else F(r['baf'])] for r in rows]]


# --------------------------------------------------------------------------------------
# generators


def threshold_vectors(rng, count):
    vecs = [None, DEFAULTS, GERMLINE]
    # the vectors the command line derives for other ploidies: log2((arange(n) + .5) / ploidy)
    for k in (1, 2, 3, 4, 6):
        vecs.append(tuple(float(x) for x in np.log2((np.arange(k + 2) + 0.5) / k)))
    while len(vecs) < count:
        n = rng.choice([1, 1, 2, 3, 4, 4, 5, 8, 12, rng.randint(1, 12)])
        kind = rng.random()
        if kind < 0.6:
            xs = sorted({round(rng.uniform(-3, 3), rng.choice([1, 2, 6])) for _ in range(n * 2)})
        elif kind < 0.8:
            # thresholds one ulp apart
            base = rng.uniform(-2, 2)
            xs = [base]
            for _ in range(n):
                xs.append(float(np.nextafter(xs[-1], np.inf)) if rng.random() < 0.5 else xs[-1] + rng.uniform(0.01, 1))
        else:
            xs = sorted({float(rng.randint(-4, 4)) * 0.5 for _ in range(n * 2)})
        xs = sorted(set(xs))
        if len(xs) > n:
            start = rng.randint(0, len(xs) - n)
            xs = xs[start:start + n]
        if xs and all(a < b for a, b in zip(xs, xs[1:])):
            vecs.append(tuple(xs))
    return vecs


def log2_points(rng, ts, k, r, n_random):
    """(value, tag): every threshold, its two float neighbours, values where r*2^v crosses an
    integer (both sides, and exactly), NaN, 0, random reals"""
    pts = [(NAN, 'nan'), (0.0, 'zero')]
    for t in ts:
        pts.append((t, 'at-threshold'))
        pts.append((float(np.nextafter(t, -np.inf)), 'just-below'))
        pts.append((float(np.nextafter(t, np.inf)), 'just-above'))
        pts.append((t - 1e-9, 'near-below'))
        pts.append((t + 1e-9, 'near-above'))
    top = max(ts) if ts else -5.0
    if r > 0:
        j0 = int(math.floor(r * 2.0 ** top))
        js = {j0 + 1, j0 + 2, j0 + rng.randint(1, 6), j0 + rng.randint(3, 40)}
        for n_j, j in enumerate(sorted(js)):
            if j <= 0:
                continue
            v = math.log2(j / r)
            if n_j == 0:
                # r*2^v within an ulp of the integer: ceil is decided by rounding noise, so this
                # point is float-ambiguous unless j/r is a power of two; one per chromosome
                pts.append((v, 'int-crossing-at'))
            pts.append((v - 1e-6, 'int-crossing-below'))
            pts.append((v + 1e-6, 'int-crossing-above'))
    for p in range(int(math.ceil(top)), int(math.ceil(top)) + 3):
        pts.append((float(p), 'power-of-two'))
    lo = (min(ts) if ts else 0.0) - 2
    for _ in range(n_random):
        u = rng.random()
        if u < 0.7:
            pts.append((rng.uniform(lo, top + 2.5), 'random'))
        elif u < 0.85:
            pts.append((rng.uniform(-30, 30), 'random-wide'))
        else:
            pts.append((float(rng.choice([-30, 30, -6, 6, 1, -1])), 'random-fixed'))
    return pts


def baf_for(rng, exp_cn):
    u = rng.random()
    if u < 0.18:
        return NAN
    if u < 0.40:
        return rng.choice([0.0, 0.5, 1.0, 0.25, 0.75, 0.375, 0.625, 0.125, 0.875])
    if u < 0.70 and exp_cn and exp_cn > 0:
        # upper_baf * cn next to j + 1/2
        j = rng.randint(exp_cn // 2, exp_cn)
        ub = (j + 0.5) / exp_cn
        if 0.5 <= ub <= 1.0:
            ub += rng.choice([-1e-6, 1e-6, -1e-4, 1e-4])
            return min(1.0, max(0.0, rng.choice([ub, 1.0 - ub])))
    return rng.random()


def gen_table(rng, cfg, n_random):
    k, hapx, style = cfg['ploidy'], cfg['hapx'], cfg['style']
    ts = DEFAULTS if cfg['thresholds'] is None else cfg['thresholds']
    chroms = ['chr1', 'chrX', 'chrY', 'chr17'] if style else ['1', 'X', 'Y', '17']
    rows = []
    for chrom in chroms[:3] if rng.random() < 0.7 else chroms:
        r = py_ref(chrom, k, hapx)
        for v, tag in log2_points(rng, ts, k, r, n_random):
            exp_cn, _ = py_step(v, ts, k, r)
            row = dict(chrom=chrom, log2=v, tag=tag, r=r)
            if cfg['with_baf']:
                row['baf'] = baf_for(rng, exp_cn)
            rows.append(row)
    rng.shuffle(rows)
    return rows


def edge_tables(rng, count):
    """names outside the quantifier (lower / upper case, look-alikes), thresholds that are not
    strictly increasing, BAF outside [0,1]: code vs model only"""
    names = ['chr1', '1', 'chrX', 'X', 'chrY', 'Y', 'chrx', 'x', 'chry', 'y', 'CHRX', 'ChrY', 'chrXX', 'Xchr', 'chr', 'chrM', 'xy']
    out = []
    for _ in range(count):
        n = rng.randint(0, 6)
        ts = tuple(round(rng.uniform(-2, 2), 1) for _ in range(n))
        cfg = dict(ploidy=rng.randint(1, 6), hapx=rng.random() < 0.5, thresholds=ts, with_baf=rng.random() < 0.7, style=None)
        rows = []
        for _ in range(rng.randint(1, 25)):
            v = rng.choice([NAN, rng.uniform(-4, 4), rng.uniform(-4, 4), rng.choice(ts) if ts else 0.0, 0.0])
            row = dict(chrom=rng.choice(names), log2=v, tag='edge', r=None)
            if cfg['with_baf']:
                row['baf'] = rng.choice([NAN, rng.random(), rng.uniform(-0.5, 1.5), 0.5, 1.0, 0.0])
            rows.append(row)
        out.append((cfg, rows))
    return out


# --------------------------------------------------------------------------------------
# checking


def slim(row):
    d = {'chrom': row['chrom'], 'log2': row['log2']}
    if 'baf' in row:
        d['baf'] = row['baf']
    return d


def case_of(cfg, rows):
    c = {k: cfg[k] for k in ('ploidy', 'hapx', 'thresholds', 'with_baf', 'style')}
    return {'cfg': c, 'rows': [slim(r) for r in rows]}


def in_known_region(cfg, ts_eff, r, v, cn, v2, cn2):
    return (cfg['ploidy'] == 1 and r == 1 and tuple(ts_eff) == DEFAULTS
            and 0.2 < v <= 0.7 < v2 <= 1.0 and cn == 3 and cn2 == 2)


def check_table(ck, cfg, rows, code, model, canonical=True, count=True):
    if isinstance(code, Err):
        ck.violation('do_call(threshold) output malformed: %s' % code.msg, case_of(cfg, rows), code=code, clause='C02_rows')
        return
    k, hapx = cfg['ploidy'], cfg['hapx']
    ts_eff = DEFAULTS if cfg['thresholds'] is None else tuple(cfg['thresholds'])
    is_default = tuple(ts_eff) == DEFAULTS
    cns = code['cn']
    bad_rows = set()
    if len(model) != len(rows):
        raise RuntimeError('model returned %d rows for %d' % (len(model), len(rows)))
    # ---- allele columns present exactly when a baf column was supplied
    if cfg['with_baf'] != all(code['has_alleles']) or cfg['with_baf'] != any(code['has_alleles']):
        ck.violation('cn1/cn2 columns present=%s with baf column=%s' % (code['has_alleles'], cfg['with_baf']), case_of(cfg, rows[:1]),
                     code=code['has_alleles'], clause='C02_alleles')
        return
    for i, (row, cn, m) in enumerate(zip(rows, cns, model)):
        v = row['log2']
        amb = False
        continue_after_count = False
        if canonical:
            # ---- step function
            exp_cn, amb = py_step(v, ts_eff, k, row['r'])
            if cn != exp_cn:
                if amb and abs(cn - exp_cn) == 1:
                    ck.float_ambiguous += 1
                    ck.cls('ambiguous:ceil-at-integer')
                    continue_after_count = True
                else:
                    what = ('missing log2 does not yield the reference copy number' if isnan(v) else
                            'cn above the last threshold is not ceil(r*2^log2)' if all(t < v for t in ts_eff) else
                            'cn is not the (scaled) number of thresholds strictly below log2')
                    ck.violation(what, case_of(cfg, [row]), code=cn, expected=exp_cn,
                                 clause='C02_nan' if isnan(v) else 'C02_above' if all(t < v for t in ts_eff) else 'C02_step')
                    bad_rows.add(i)
            if cn < 0:
                ck.violation('negative copy number', case_of(cfg, [row]), code=cn, expected='>= 0', clause='C02_thr_nonneg')
                bad_rows.add(i)
            if is_default and k == 2 and row['r'] == 2 and v == 0.0 and cn != 2:
                ck.violation('cn at log2 0 on a diploid autosome is not 2', case_of(cfg, [row]), code=cn, expected=2,
                             clause='C02_diploid_zero')
                bad_rows.add(i)
        # ---- alleles
        raw_amb = False
        if cfg['with_baf']:
            b = row.get('baf')
            c1, c2 = code['cn1'][i], code['cn2'][i]
            want_missing = isnan(b) and cn > 0
            ok = True
            if want_missing:
                ok = c1 is None and c2 is None
                why = 'cn1/cn2 are not both missing where baf is missing and cn > 0'
            else:
                why = 'cn1/cn2 missing although baf is present or cn = 0'
                ok = c1 is not None and c2 is not None
                if ok:
                    why = 'cn1 + cn2 != cn or an allele count outside [0, cn]'
                    ok = (c1 == int(c1) and c2 == int(c2) and c1 + c2 == cn and 0 <= c1 <= cn and 0 <= c2 <= cn)
            if not ok:
                ck.violation(why, case_of(cfg, [row]), code=[cn, c1, c2], clause='C02_missing' if 'missing' in why else 'C02_alleles')
                bad_rows.add(i)
        # ---- count
        if count:
            ck.count(['row', cfg['ploidy'], cfg['hapx'], cfg['thresholds'], slim(row)],
                     nontrivial=not isnan(v) and row['tag'] not in ('random-wide',),
                     cls='%s|%s|%s' % (row['tag'], 'baf' if cfg['with_baf'] else 'nobaf',
                                       'edge' if row['r'] is None else ('r=k' if row['r'] == k else 'r<k')))
        if i in bad_rows or continue_after_count:
            continue
        # ---- code vs model
        m_cn = m[0]
        if cn != m_cn:
            if amb:
                ck.float_ambiguous += 1
                ck.cls('ambiguous:ceil-at-integer(model)')
                continue
            ck.tie_break('model cn differs from do_call(threshold)', case_of(cfg, [row]), code=cn, model=m_cn)
            continue
        if cfg['with_baf']:
            m1, m2, raw = m[1], m[2], m[3]
            c1, c2 = code['cn1'][i], code['cn2'][i]
            c1 = None if c1 is None else int(c1)
            c2 = None if c2 is None else int(c2)
            if (c1, c2) != (m1, m2):
                frac = raw - math.floor(raw)
                if abs(float(frac - HALF)) <= AMBIG * max(1.0, float(raw)):
                    ck.float_ambiguous += 1
                    ck.cls('ambiguous:cn1-at-half')
                else:
                    ck.tie_break('model cn1/cn2 differ from do_call', case_of(cfg, [row]), code=[c1, c2], model=[m1, m2])
    # ---- monotonicity on the code's own outputs (default thresholds)
    if canonical and is_default:
        by_chrom = {}
        for row, cn in zip(rows, cns):
            if not isnan(row['log2']):
                by_chrom.setdefault(row['chrom'], []).append((row['log2'], cn, row['r']))
        for chrom, pts in by_chrom.items():
            pts.sort()
            known_reported = False
            for (v, cn, r), (v2, cn2, _) in zip(pts, pts[1:]):
                if cn2 < cn:
                    pair = [dict(chrom=chrom, log2=v), dict(chrom=chrom, log2=v2)]
                    if in_known_region(cfg, ts_eff, r, v, cn, v2, cn2):
                        if not known_reported:
                            ck.violation('cn decreases as log2 increases (ploidy 1, one reference copy, default thresholds)',
                                         case_of(cfg, pair), sig=KNOWN_SIG, code=[cn, cn2], clause='C02_monotone')
                            known_reported = True
                            ck.cls('known-finding-region')
                    else:
                        ck.violation('cn decreases as log2 increases with the default thresholds: %d at %r, %d at %r' % (cn, v, cn2, v2),
                                     case_of(cfg, pair), code=[cn, cn2], clause='C02_monotone')


def check_tables(ck, tables, canonical=True, count=True):
    codes = []
    for cfg, rows in tables:
        try:
            codes.append(run_code(cfg, rows))
        except Exception as e:   # noqa
            codes.append(Err('%s: %s' % (type(e).__name__, str(e)[:120])))
    models = vlib.model_batch_parallel('c02_call', [model_input(cfg, rows) for cfg, rows in tables])
    for (cfg, rows), c, m in zip(tables, codes, models):
        if isinstance(m, Err):
            raise RuntimeError('model error %r' % m)
        check_table(ck, cfg, rows, c, m, canonical=canonical, count=count)


def check_spec_function(ck, tables, limit):
    """the Python statement of the step function == the Coq specification function (Spec/CallThreshold.v)"""
    reqs, exp = [], []
    for cfg, rows in tables:
        ts = DEFAULTS if cfg['thresholds'] is None else cfg['thresholds']
        for row in rows:
            if isnan(row['log2']) or len(reqs) >= limit:
                continue
            e, amb = py_step(row['log2'], ts, cfg['ploidy'], row['r'])
            reqs.append([F(row['log2']), exp2(row['log2']), [F(t) for t in ts], cfg['ploidy'], row['r']])
            exp.append(e)
    got = vlib.model_batch_parallel('c02_spec_thr', reqs)
    for q, g, e in zip(reqs, got, exp):
        if g != e:
            raise RuntimeError('Coq Spec.CallThreshold.spec_thr disagrees with the python oracle on %r: %r vs %r' % (q, g, e))
    ck.extra['spec_function_points'] = len(reqs)


def check_defaults(ck):
    """the model's default thresholds (generated from do_call's signature) vs the code's and the documented ones"""
    import inspect
    from cnvlib import call
    d = inspect.signature(call.do_call).parameters['thresholds'].default
    m = vlib.model_batch('c02_defaults', [None])[0]
    if [F(x) for x in d] != list(m):
        ck.tie_break('generated default thresholds differ from do_call\'s signature', {'code': list(d)}, code=list(d), model=m)
    ck.extra['default_thresholds'] = list(d)


def check_rescale_baf(ck):
    from cnvlib import call
    rng = ck.rng
    cases = []
    for _ in range(300 if ck.tier == 'quick' else 5000):
        p = rng.choice([1.0, 0.5, 0.25, 0.999, rng.uniform(0.05, 1.0)])
        b = rng.choice([NAN, 0.0, 0.5, 1.0, rng.random()])
        cases.append((p, b))
    model = vlib.model_batch('c02_rescale_baf', [[F(p), None if isnan(b) else F(b)] for p, b in cases])
    code = call.rescale_baf(np.array([p for p, _ in cases]), pd.Series([b for _, b in cases]))
    for (p, b), c, m in zip(cases, code.values, model):
        ck.count(['rescale_baf', p, b], nontrivial=not isnan(b) and p < 1, cls='rescale_baf')
        if isnan(b):
            exp = None
        else:
            exp = (F(b) - HALF * (1 - F(p))) / F(p)
        if not vlib.close(float(c), exp):
            ck.violation('rescale_baf is not (b - (1-p)/2)/p', {'purity': p, 'baf': b}, code=float(c), expected=exp, clause='C02_alleles')
        elif not vlib.close(float(c), m):
            ck.tie_break('model rescale_baf differs from the code', {'purity': p, 'baf': b}, code=float(c), model=m)


def check_scan(ck, tables):
    """the literal walk of absolute_threshold's for/else (Model/Threshold.v scan_row, exact quotient) == thr_cn on the
    grid's rows (the theorem C02_scan_equiv says so for every input; this keeps the extracted code honest)"""
    reqs = []
    for cfg, rows in tables[::7]:
        ts = DEFAULTS if cfg['thresholds'] is None else cfg['thresholds']
        for row in rows[::5]:
            v = row['log2']
            reqs.append([None if isnan(v) else F(v), F(0) if isnan(v) else exp2(v), [F(t) for t in ts], cfg['ploidy'], row['r']])
    got = vlib.model_batch_parallel('c02_scan', reqs)
    for q, g in zip(reqs, got):
        if isinstance(g, Err) or g[0] != g[1]:
            raise RuntimeError('scan_row (literal loop) and thr_cn disagree on %r: %r' % (q, g))
    ck.extra['scan_loop_points'] = len(reqs)


def canonical_known(ck):
    """replay the canonical case of every open known finding of this property"""
    for kf in ck.known.get('open', []):
        if kf.get('property') != 'C02':
            continue
        cc = kf['canonical_case']
        cfg = dict(ploidy=cc['ploidy'], hapx=False, thresholds=None if tuple(cc['thresholds']) == DEFAULTS else tuple(cc['thresholds']),
                   with_baf=False, style=cc['chromosome'].startswith('chr'))
        rows = [dict(chrom=cc['chromosome'], log2=float(v), tag='canonical', r=py_ref(cc['chromosome'], cc['ploidy'], False))
                for v in cc['log2']]
        check_tables(ck, [(cfg, rows)], canonical=True)
        ck.extra['known_canonical_replayed'] = kf['id']


def load_corpus():
    p = os.path.join(vlib.VERIF, 'corpus', 'c02.json')
    return [c for c in (json.load(open(p)) if os.path.exists(p) else []) if c.get('stream') != 'do_call']


def load_docall_corpus():
    p = os.path.join(vlib.VERIF, 'corpus', 'c02.json')
    return [c for c in (json.load(open(p)) if os.path.exists(p) else []) if c.get('stream') == 'do_call']


def rows_from_json(cfg, rows):
    out = []
    for r in rows:
        r = dict(r)
        for key in ('log2', 'baf'):
            if key in r and (r[key] is None or r[key] == 'NaN'):
                r[key] = NAN
        r.setdefault('tag', 'corpus')
        r['r'] = py_ref(r['chrom'], cfg['ploidy'], cfg['hapx']) if cfg.get('style') is not None else None
        if cfg['with_baf']:
            r.setdefault('baf', NAN)
        out.append(r)
    return out


def run(ck, scratch):
    ck.rule = ('one do_call(method=threshold) per configuration: threshold vector (code default, documented default, germline, '
               'command-line style log2((i+.5)/ploidy), random strictly increasing vectors of length 1..12 incl. thresholds one ulp '
               'apart) x ploidy 1..6 x haploid/diploid-X reference x chr/plain naming x with/without baf column, on a shuffled table '
               'of autosome, X and Y rows holding every threshold, its two float neighbours, +-1e-9, every value where r*2^log2 '
               'crosses an integer (exactly and 1e-6 either side), powers of two, 0, NaN and random reals; baf: NaN, 0, 1/2, 1, exact '
               'ties (k/8), values putting cn*upper_baf 1e-6/1e-4 either side of j+1/2, random. Monotonicity is evaluated on the '
               'code\'s outputs sorted by log2 per chromosome for the default thresholds. Edge stream: names outside the quantifier, '
               'unsorted thresholds, BAF outside [0,1] (code vs model only). non-trivial = finite log2 not from the wide random '
               'stream; distinct by (config,row) hash')
    if not ck.build_status.get('driver_ok'):
        raise RuntimeError('model driver unavailable')
    rng = ck.rng
    quick = ck.tier == 'quick'
    check_defaults(ck)
    canonical_known(ck)
    # corpus
    corp = [(dict(c['cfg']), rows_from_json(c['cfg'], c['rows'])) for c in load_corpus()]
    for cfg, _ in corp:
        if cfg['thresholds'] is not None:
            cfg['thresholds'] = tuple(cfg['thresholds'])
    check_tables(ck, [t for t in corp if t[0].get('style') is not None], canonical=True)
    check_tables(ck, [t for t in corp if t[0].get('style') is None], canonical=False)
    ck.extra['corpus_cases'] = len(corp)
    # grid
    vecs = threshold_vectors(rng, 40 if quick else 400)
    tables = []
    for ts in vecs:
        for k in range(1, 7):
            for hapx in (False, True):
                for style in (True, False):
                    cfg = dict(ploidy=k, hapx=hapx, thresholds=ts, with_baf=rng.random() < 0.75, style=style)
                    tables.append((cfg, gen_table(rng, cfg, n_random=12 if quick else 20)))
    ck.extra['grid_tables'] = len(tables)
    check_spec_function(ck, tables, 40000 if quick else 400000)
    step = 300
    for i in range(0, len(tables), step):
        check_tables(ck, tables[i:i + step], canonical=True)
    check_tables(ck, edge_tables(rng, 300 if quick else 5000), canonical=False)
    check_rescale_baf(ck)
    check_scan(ck, tables)
    # do_call end to end: purity rewrite, then the method on the rewritten log2, then the allelic split
    import calldo
    calldo.corpus(ck, load_docall_corpus())
    calldo.stream(ck, 260 if quick else 4000, (0.7, 0.15, 0.15), 'docall')
    ck.rule += ' || ' + calldo.RULE
    ck.unproved_remainder = [
        'that numpy 2**v is within 1e-12 of the real function is trusted (RealFacts proves the real-function contracts, including '
        '3/2 < 2^(7/10); the harness supplies the library values to the model as exact rationals)',
        'rows where r*2^log2 lies within 1e-7 (relative) of an integer, or cn*upper_baf within 1e-7 of j+1/2, are counted '
        'float_ambiguous when code and exact arithmetic round differently',
        'do_call end to end (Model/Baf.v do_call_model, theorems C02_do_call_threshold / C02_purity_then_threshold): on the purity-adjusted '
        'path the model is given v2 = np.log2(q) and e2 = 2**v2 for ITS OWN rewritten ratio q (library values, second model pass); a row whose '
        'v2 lies within 1e-9 of a threshold, or whose r*e2 lies within 1e-7 of an integer above the last threshold, is float-ambiguous',
        'outside do_call_model: the filters= argument (segfilters, C14), the content of variants.baf_by_ranges (C18; its values are taken from '
        'the code and fed to the model), sort_columns; a NaN log2 under method=clonal (IntCastingNaNError / undefined cast) is outside the model',
        'source ties: rescale_baf, _reference_copies_pure and the allelic split of do_call (C02_source_alleles) are translated from the '
        'source on every run; absolute_threshold\'s loop is outside the function-body translator and is tied by a hand transcription '
        '(scan_row, C02_scan_equiv) whose statements are pinned verbatim in tools/genspecs/c01.py; Python\'s float division int/int enters as '
        'an oracle with the correctly-rounded contract (fdiv_contract), not as a bit-exact model',
    ]


def replay(ck, body):
    case = body.get('case') or {}
    cfg, rows = case.get('cfg'), case.get('rows')
    if not cfg or not rows:
        print('replay: no case in file (%s)' % body.get('what'))
        return 0
    if case.get('stream') == 'do_call':
        import calldo
        calldo.replay_case(ck, case)
        bad = bool(ck.violations or ck.tie_breaks)
        what = [v[1] for v in ck.violations] + [t[0] for t in ck.tie_breaks]
        print('replay: %s' % (('still failing: %s' % what) if bad else 'passes now'))
        return 1 if bad else 0
    cfg = dict(cfg)
    if cfg['thresholds'] is not None:
        cfg['thresholds'] = tuple(cfg['thresholds'])
    rows = rows_from_json(cfg, rows)
    print('configuration:', cfg)
    for r in rows:
        print('  row:', slim(r))
    code = run_code(cfg, rows)
    print('do_call output:', code)
    model = vlib.model_batch('c02_call', [model_input(cfg, rows)])[0]
    print('model output:', model)
    check_table(ck, cfg, rows, code, model, canonical=cfg.get('style') is not None, count=False)
    for k in ck.known_hits:
        print('KNOWN-FINDING: property=C02 %s' % k['what'])
    bad = bool(ck.violations or ck.tie_breaks)
    what = [v[1] for v in ck.violations] + [t[0] for t in ck.tie_breaks]
    print('replay: %s' % (('still failing: %s' % what) if bad else ('reproduces a known finding' if ck.known_hits else 'passes now')))
    return 1 if bad else 0
