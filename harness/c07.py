"""C07 -- range queries return exactly the overlapping / contained / clipped rows.
Correspondence: GenomicArray.by_ranges / in_range / in_ranges / intersection /
iter_ranges_of / into_ranges (skgenome/gary.py, intersect.py, combiners.py) against
the extracted Coq model (Model/Ranges.v, Model/Into.v); direct oracle: a brute-force
filter written here independently (bf_select), cross-checked on every pair against
the extracted Coq specification functions (Spec/RangeQuery.v: answers / select_spec_opt).

A table is a dict {rows: [(chrom, lo, hi)], labels: [...], gene: [...], x: [...], n: [...]};
`labels` are the data frame's index labels and double as row identities (column rid)."""
import os, itertools, json, math
from fractions import Fraction
import vlib
from vlib import Err

LEVEL = 'proof'
MODES = ('outer', 'inner', 'trim')
COLS = ['chromosome', 'start', 'end', 'rid', 'gene', 'x', 'n']
NAN = float('nan')

# Four defects found by this check are repaired in /repo (4451e5f intersection on an empty
# selection, cd519dc iter_ranges_of(mode='trim'), 4e4ddd7 one open bound on nested rows,
# ee01845 into_ranges on an empty source); their inputs live in corpus/c07.json.
# A fifth one (the type default first_of for integer columns was a pandas label lookup:
# KeyError / another row's value) is repaired as well; its inputs are in the corpus too.


# ----------------------------------------------------------------------------
# tables

def table(rows, labels=None, gene=None, x=None, n=None):
    k = len(rows)
    labels = list(range(k)) if labels is None else list(labels)
    return {
        'rows': [tuple(r) for r in rows],
        'labels': labels,
        'gene': list(gene) if gene is not None else ['g%d' % ((r[1] + r[2]) % 2) for r in rows],
        'x': list(x) if x is not None else [(NAN if r[2] - r[1] == 3 else r[1] + 0.5) for r in rows],
        'n': list(n) if n is not None else [10 + i for i in range(k)],
    }


def build_ga(tab):
    from skgenome import GenomicArray as GA
    recs = [(r[0], r[1], r[2], lab, g, xv, nv)
            for r, lab, g, xv, nv in zip(tab['rows'], tab['labels'], tab['gene'], tab['x'], tab['n'])]
    ga = GA.from_rows(recs, columns=COLS)
    if recs and tab['labels'] != list(range(len(recs))):
        import pandas as pd
        ga.data.index = pd.Index(tab['labels'], dtype='int64')
    return ga


def trows(tab):
    """model encoding: [chrom, id, lo, hi]"""
    return [[r[0], lab, r[1], r[2]] for r, lab in zip(tab['rows'], tab['labels'])]


def chrom_rows(tab, chrom):
    """(id, lo, hi) of one chromosome (None: all rows) in table order"""
    return [(lab, r[1], r[2]) for r, lab in zip(tab['rows'], tab['labels']) if chrom is None or r[0] == chrom]


def ga_rows(ga):
    d = ga.data
    return [(int(a), int(b), int(c)) for a, b, c in zip(d['rid'].values, d['start'].values, d['end'].values)]


# ----------------------------------------------------------------------------
# the independent oracle

def bf_select(rows, qs, qe, mode):
    """rows of ONE chromosome [(id, lo, hi)] in table order; query [qs, qe), None = unbounded."""
    out = []
    for rid, lo, hi in rows:
        left_ok = True if qs is None else (qs < hi)
        right_ok = True if qe is None else (lo < qe)
        if mode == 'inner':
            if (qs is None or qs <= lo) and (qe is None or hi <= qe):
                out.append((rid, lo, hi))
        elif left_ok and right_ok:
            if mode == 'trim':
                out.append((rid, lo if qs is None else max(lo, qs), hi if qe is None else min(hi, qe)))
            else:
                out.append((rid, lo, hi))
    return out


def bf_answers(T, Q, mode):
    return [(qlab, bf_select(chrom_rows(T, q[0]), q[1], q[2], mode)) for q, qlab in zip(Q['rows'], Q['labels'])]


def distinct(xs):
    seen, out = set(), []
    for v in xs:
        if v not in seen:
            seen.add(v)
            out.append(v)
    return out


def exact_median(vals):
    """median of the non-NaN floats as an exact Fraction; None (NaN) when there are none"""
    s = sorted(Fraction(v) for v in vals if v == v)
    k = len(s)
    if k == 0:
        return None
    return s[k // 2] if k % 2 else (s[k // 2 - 1] + s[k // 2]) / 2


USER_FUNCS = {
    'gene': (lambda s: '|'.join(s)),
    'x': None,   # np.max, set lazily
    'n': None,   # np.sum
}


def user_func(col):
    import numpy as np
    return {'gene': USER_FUNCS['gene'], 'x': np.max, 'n': np.sum}[col]


def bf_into(T, Q, col, default, func):
    """expected into_ranges output, or None where the property text does not fix the value"""
    colv = dict(zip(T['labels'], T[col]))
    out = []
    for qlab, hits in bf_answers(T, Q, 'outer'):
        vals = [colv[h[0]] for h in hits]
        if len(vals) == 0:
            out.append(default)
        elif len(vals) == 1:
            out.append(vals[0])
        elif func is None:
            if col == 'gene':
                out.append(','.join(distinct(vals)))
            elif col == 'x':
                out.append(exact_median(vals))
            else:
                out.append(vals[0])               # the code's own type default: first_of
        elif func == 'user':
            if col == 'gene':
                out.append('|'.join(vals))
            elif col == 'x':
                nn = [v for v in vals if v == v]
                out.append(max(nn) if nn else None)
            else:
                out.append(sum(vals))
        else:
            out.append(func[1])
    return out


# ----------------------------------------------------------------------------
# running the code (in worker processes)

def canon_val(v):
    import numpy as np
    if isinstance(v, (float, np.floating)):
        v = float(v)
        return None if v != v else v
    if isinstance(v, (np.integer,)):
        return int(v)
    if isinstance(v, (np.str_,)):
        return str(v)
    return v


def run_call(ga_t, ga_q, T, call):
    import pandas as pd
    kind = call[0]
    try:
        if kind == 'by_ranges':
            _, mode, ke = call
            return [(int(b.rid), ga_rows(sub)) for b, sub in ga_t.by_ranges(ga_q, mode=mode, keep_empty=ke)]
        if kind == 'intersection':
            return ga_rows(ga_t.intersection(ga_q, mode=call[1]))
        if kind == 'iter_ranges_of':
            _, mode, ke = call
            ids = [[int(v) for v in ser.values] for ser in ga_t.iter_ranges_of(ga_q, 'rid', mode, ke)]
            if mode != 'trim':
                return ids
            # the clipped coordinates are observable through the start / end columns
            los = [[int(v) for v in ser.values] for ser in ga_t.iter_ranges_of(ga_q, 'start', mode, ke)]
            his = [[int(v) for v in ser.values] for ser in ga_t.iter_ranges_of(ga_q, 'end', mode, ke)]
            if [len(x) for x in ids] != [len(x) for x in los] or [len(x) for x in ids] != [len(x) for x in his]:
                return Err('ragged')
            return [list(zip(a, b, c)) for a, b, c in zip(ids, los, his)]
        if kind == 'into':
            _, col, default, func = call
            f = None if func is None else (user_func(col) if func == 'user' else func[1])
            res = ga_t.into_ranges(ga_q, col, default, f)
            if isinstance(res, pd.DataFrame):
                return Err('returns dest') if len(res) else []
            return [canon_val(v) for v in res]
        if kind == 'into_missing':
            _, default = call
            res = ga_t.into_ranges(ga_q, 'no_such_column', default)
            return [canon_val(v) for v in res]
        if kind == 'in_range':
            _, chrom, qs, qe, mode = call
            return ga_rows(ga_t.in_range(chrom, qs, qe, mode))
        if kind == 'in_ranges':
            _, chrom, starts, ends, mode = call
            return ga_rows(ga_t.in_ranges(chrom, starts, ends, mode))
        raise RuntimeError('unknown call %r' % (call,))
    except RuntimeError:
        raise
    except Exception as e:      # any exception of the code on a valid call is an answer that differs from the rows
        return Err(type(e).__name__)


def eval_unit(unit):
    T, Q, calls = unit
    ga_t = build_ga(T)
    ga_q = build_ga(Q) if Q is not None else None
    return [run_call(ga_t, ga_q, T, c) for c in calls]


def run_units(units, workers):
    if workers <= 1 or len(units) < 32:
        return [eval_unit(u) for u in units]
    import multiprocessing as mp
    ctx = mp.get_context('fork')
    with ctx.Pool(workers) as pool:
        return pool.map(eval_unit, units, chunksize=max(1, min(64, len(units) // (workers * 4))))


# ----------------------------------------------------------------------------
# model inputs / outputs

def fl(v):
    return None if (v is None or (isinstance(v, float) and v != v)) else v


def model_request(T, Q, call):
    kind = call[0]
    if kind == 'by_ranges':
        return 'c07_by_ranges', [trows(T), trows(Q), call[1], call[2]]
    if kind == 'intersection':
        return 'c07_intersection', [trows(T), trows(Q), call[1]]
    if kind == 'iter_ranges_of':
        return 'c07_iter_ranges_of', [trows(T), trows(Q), call[1], call[2]]
    if kind == 'into':
        _, col, default, func = call
        entry = {'gene': 'c07_into_str', 'x': 'c07_into_float', 'n': 'c07_into_int'}[col]
        vals = T[col]
        if col == 'x':
            column = [[lab, (None if v != v else Fraction(v))] for lab, v in zip(T['labels'], vals)]
            d = None if default != default else Fraction(default)
            f = None if func is None else ('user' if func == 'user' else ['const', Fraction(func[1])])
        else:
            column = [[lab, v] for lab, v in zip(T['labels'], vals)]
            d = default
            f = None if func is None else ('user' if func == 'user' else ['const', func[1]])
        return entry, [trows(T), trows(Q), column, d, f]
    if kind == 'in_range':
        _, chrom, qs, qe, mode = call
        return 'c07_in_range', [trows(T), chrom, qs, qe, mode]
    if kind == 'in_ranges':
        _, chrom, starts, ends, mode = call
        return 'c07_in_ranges_e', [trows(T), chrom, starts, ends, mode]
    return None, None


def canon_model(call, m, Q=None):
    kind = call[0]
    if isinstance(m, Err):
        if kind == 'into' and m.msg == 'returns dest' and Q is not None and not Q['rows']:
            return []          # the (empty) destination table itself: no query, no value
        return m
    if kind == 'by_ranges':
        return [(q, [tuple(r) for r in rows]) for q, rows in m]
    if kind in ('intersection', 'in_range', 'in_ranges'):
        return [tuple(r) for r in m]
    if kind == 'iter_ranges_of':
        if call[1] == 'trim':
            return [[tuple(r) for r in sub] for sub in m]
        return [[r[0] for r in sub] for sub in m]
    if kind == 'into':
        if any(isinstance(v, Err) for v in m):
            return Err('KeyError')
        return m
    return m


def same(call, code, other):
    """code output vs model output / expectation (floats by the 1e-9 rule)"""
    if isinstance(code, Err) or isinstance(other, Err):
        return code == other
    if call[0] == 'into' and call[1] == 'x':
        if len(code) != len(other):
            return False
        for c, o in zip(code, other):
            if isinstance(o, tuple):
                continue
            if not vlib.close(c, None if o is None else Fraction(o)):
                return False
        return True
    if call[0] == 'into':
        if len(code) != len(other):
            return False
        return all(isinstance(o, tuple) or c == o for c, o in zip(code, other))
    return code == other


# ----------------------------------------------------------------------------
# expectations

def ends_monotone(rows):
    return all(rows[i][2] <= rows[i + 1][2] for i in range(len(rows) - 1))


def expected(T, Q, call):
    """(expected value, finding signature that explains a deviation or None)"""
    kind = call[0]
    if kind == 'by_ranges':
        _, mode, ke = call
        ans = bf_answers(T, Q, mode)
        return [a for a in ans if ke or a[1]], None
    if kind == 'intersection':
        ans = bf_answers(T, Q, call[1])
        return [r for _, sub in ans for r in sub], None
    if kind == 'iter_ranges_of':
        _, mode, ke = call
        ans = bf_answers(T, Q, mode)
        if mode == 'trim':
            return [list(sub) for _, sub in ans if ke or sub], None
        return [[r[0] for r in sub] for _, sub in ans if ke or sub], None
    if kind == 'into':
        _, col, default, func = call
        exp = [(fl(v) if isinstance(v, float) else v) for v in bf_into(T, Q, col, default, func)]
        return exp, None
    if kind == 'into_missing':
        return [fl(call[1])] * len(Q['rows']), None
    if kind == 'in_range':
        _, chrom, qs, qe, mode = call
        rows = chrom_rows(T, chrom or None)
        return bf_select(rows, qs, qe, mode), None
    if kind == 'in_ranges':
        _, chrom, starts, ends, mode = call
        return expected_in_ranges(chrom_rows(T, chrom or None), starts, ends, mode), None
    raise RuntimeError(kind)


def expected_in_ranges(rows, starts, ends, mode):
    """in_ranges with every argument shape, as the code documents / behaves (independent restatement):
    an empty table or no bound at all -> the whole table; a missing or EMPTY side is filled in (starts -> zeros,
    ends -> open); on the mask path (ends of the rows not monotone) an empty starts with ends None is a TypeError
    (len(None)) and lists of unequal length or no query at all fail the assertion; on the binary-search path the
    lists are zipped (truncated to the shorter) and no query at all makes pd.concat raise ValueError."""
    if not rows or (starts is None and ends is None):
        return list(rows) if not rows else bf_select(rows, None, None, mode)
    has_s = starts is not None and len(starts) > 0
    has_e = ends is not None and len(ends) > 0
    if not ends_monotone(rows):
        if not has_s and ends is None:
            return Err('TypeError')
        ss = list(starts) if has_s else [0] * len(ends)
        es = list(ends) if has_e else [None] * len(ss)
        if len(ss) != len(es) or not ss:
            return Err('AssertionError')
    else:
        ss = list(starts) if has_s else [0] * (len(ends) if ends is not None else 1)
        es = list(ends) if has_e else [None] * len(ss)
    qs = list(zip(ss, es))
    if not qs:
        return Err('ValueError')
    # a filled-in start of 0 is "from the beginning" (rows live in [0, oo))
    return [r for a, b in qs for r in bf_select(rows, a if (has_s or a) else None, b, mode)]


# ----------------------------------------------------------------------------
# judging a batch of units

class Judge:
    def __init__(self, ck):
        self.ck = ck
        self.reported = set()
        self.finding_cases = {}

    def run(self, units, workers, cls, valid=True):
        import time
        t0 = time.time()
        outputs = run_units(units, workers)
        t1 = time.time()
        self.judge(units, outputs, cls, valid)
        self.ck.extra.setdefault('phase_s', {})[cls] = [round(t1 - t0, 1), round(time.time() - t1, 1)]

    def judge(self, units, outputs, cls, valid=True, nontrivial=None):
        """valid=False: edge stream, model vs code only."""
        ck = self.ck
        reqs = {}
        for ui, (T, Q, calls) in enumerate(units):
            for ci, call in enumerate(calls):
                entry, arg = model_request(T, Q, call)
                if entry:
                    reqs.setdefault(entry, []).append((ui, ci, arg))
        model_out = {}
        for entry, lst in reqs.items():
            res = vlib.model_batch_parallel(entry, [a for _, _, a in lst])
            for (ui, ci, _), r in zip(lst, res):
                model_out[(ui, ci)] = r
        for ui, (T, Q, calls) in enumerate(units):
            for ci, call in enumerate(calls):
                code = outputs[ui][ci]
                case = {'table': T, 'other': Q, 'call': list(call)}
                m = canon_model(call, model_out[(ui, ci)], Q) if (ui, ci) in model_out else None
                if valid:
                    exp, sig = expected(T, Q, call)
                    nt = bool(exp) if nontrivial is None else nontrivial
                    if call[0] == 'by_ranges':
                        nt = any(sub for _, sub in exp)
                    ck.count(case, nontrivial=nt, cls='%s:%s' % (cls, call[0]))
                    if not same(call, code, exp):
                        if sig is not None and m is not None and same(call, code, m):
                            # a recorded finding, reproduced identically by the faithful model
                            ck.cls('finding:' + sig)
                            if sig not in self.reported:
                                self.reported.add(sig)
                                ck.violation(FINDING_TEXT[sig], case, sig=sig, code=code, expected=exp, model=m,
                                             clause=FINDING_CLAUSE[sig])
                            continue
                        ck.violation('%s does not return the rows the property states' % call[0], case, code=code,
                                     expected=exp, model=m, clause='C07_%s' % call[0])
                        continue
                else:
                    ck.count(case, nontrivial=False, cls='%s:%s' % (cls, call[0]))
                if m is not None and not same(call, code, m):
                    ck.tie_break('model of %s differs from the code' % call[0], case, code=code, model=m)


FINDING_TEXT = {}      # signature -> text of an open finding (none at present)
FINDING_CLAUSE = {}


# ----------------------------------------------------------------------------
# generators

def intervals(maxc):
    return [(a, b) for a in range(maxc + 1) for b in range(a + 1, maxc + 1)]


def sorted_multisets(universe, kmax):
    for k in range(kmax + 1):
        for c in itertools.combinations_with_replacement(universe, k):
            yield list(c)


def pair_calls(T, Q, rot=0, full=True, light=False):
    """the pair-level calls.  full: every entry point x mode x keep_empty (+ one rotating into_ranges variant);
    light (quick tier): by_ranges in all modes with keep_empty on, intersection in all modes, into_ranges on two of the three
    column types (rotating), and -- rotating over the pairs -- by_ranges with keep_empty off, iter_ranges_of (inner/outer, either
    keep_empty; trim every third pair: it makes three by_ranges passes);
    not full: by_ranges in all modes (keep_empty alternating) plus one rotating other call"""
    into = [('into', 'gene', '-', None), ('into', 'x', -1.0, None), ('into', 'n', -5, None)]
    extra = [('into', 'gene', '-', 'user'), ('into', 'x', NAN, 'user'), ('into', 'n', -5, 'user'),
             ('into', 'gene', '-', ('const', 'K')), ('into', 'x', -1.0, ('const', 9.5)), ('into_missing', -1.0)]
    if full and not light:
        return ([('by_ranges', m, ke) for m in MODES for ke in (True, False)]
                + [('intersection', m) for m in MODES]
                + [('iter_ranges_of', m, ke) for m in ('outer', 'inner') for ke in (True, False)]
                + [('iter_ranges_of', 'trim', bool(rot % 2))]
                + into + [extra[rot % len(extra)]])
    if full:
        calls = ([('by_ranges', m, True) for m in MODES] + [('by_ranges', MODES[rot % 3], False)]
                 + [('intersection', m) for m in MODES]
                 + [('iter_ranges_of', 'outer', bool(rot % 2)), ('iter_ranges_of', 'inner', not (rot % 2))])
        if rot % 3 == 0:
            calls.append(('iter_ranges_of', 'trim', bool((rot // 3) % 2)))
        # two of the three column types per pair, rotating (every type default is also run on typed, mixed and missing
        # columns by into_full_check)
        return calls + [into[rot % 3], into[(rot + 1) % 3]] + [extra[rot % len(extra)]]
    rest = ([('intersection', m) for m in MODES] + [('iter_ranges_of', m, ke) for m in MODES for ke in (True, False)] + into)
    return [('by_ranges', m, bool((rot + i) % 2)) for i, m in enumerate(MODES)] + [rest[rot % len(rest)]]


def table_calls(T, chrom, queries, nonevariants=True, single=True):
    """in_range for each query and in_ranges for the list, all modes (+ None-bound variants)"""
    calls = []
    for m in MODES:
        for (a, b) in (queries if single else []):
            calls.append(('in_range', chrom, a, b, m))
        if queries:
            calls.append(('in_ranges', chrom, [a for a, _ in queries], [b for _, b in queries], m))
        if nonevariants:
            if queries:
                a, b = queries[0]
                if single:
                    calls.append(('in_range', chrom, None, b, m))
                    calls.append(('in_range', chrom, a, None, m))
                calls.append(('in_ranges', chrom, None, [b for _, b in queries], m))
                calls.append(('in_ranges', chrom, [a for a, _ in queries], None, m))
            else:
                calls.append(('in_range', chrom, None, None, m))
                calls.append(('in_ranges', chrom, None, None, m))
    return calls


def exhaustive_units(maxc, nrows, nq, chroms, full, budget=None, light=False):
    """all pairs of sorted tables (<= nrows rows) and sorted query tables (<= nq rows) over
    coordinates 0..maxc and the given chromosomes; with a budget, every stride-th pair.
    Returns (units, stride, size of the full scope)."""
    universe = [(c, a, b) for c in chroms for (a, b) in intervals(maxc)]
    tabs = [table(r) for r in sorted_multisets(universe, nrows)]
    qs = [table(r) for r in sorted_multisets(universe, nq)]
    total = len(tabs) * len(qs)
    stride = 1 if not budget else max(1, total // budget)
    if stride > 1 and stride % 2 == 0:
        stride += 1          # keep the rotation of calls mixing
    units = []
    k = 0
    for T in tabs:
        for Q in qs:
            if k % stride == 0:
                units.append((T, Q, pair_calls(T, Q, k // stride, full, light)))
            k += 1
    return units, stride, total


def exhaustive_table_units(maxc, nrows, nq):
    """single tables x query lists (ordered, so repeated / unsorted query lists are included)"""
    ivs = intervals(maxc)
    universe = [('a', a, b) for (a, b) in ivs]
    units = []
    for rows in sorted_multisets(universe, nrows):
        T = table(rows)
        for k in range(nq + 1):
            for qs in itertools.product(ivs, repeat=k):
                chrom = 'a' if (len(units) % 5) else None      # None: "table has one chromosome"
                if not rows and chrom is None:
                    chrom = 'a'
                # in_range is a function of (table, query): called where the list has <= 1 query
                units.append((T, None, table_calls(T, chrom, list(qs), nonevariants=(k <= 1 or (k == 2 and len(units) % 3 == 0)), single=(k <= 1))))
    return units


ERR_SHAPES = [([], []), (None, []), ([], None), ([1, 2], [4]), ([1], [4, 8]), ([], [4]), ([1], []), ([0, 2, 3], [2, 4]),
              ([2], [1, 3, 5]), ([0], [0]), ([3, 1], [4, 2])]


def error_units(thorough):
    """in_ranges with empty query lists and starts / ends of unequal length on every sorted table of <= 2 (<= 3) rows
    over 0..4 (both index paths: nested and not), all modes; the chromosome given by name or left out"""
    universe = [('a', a, b) for (a, b) in intervals(4)]
    units = []
    for rows in sorted_multisets(universe, 3 if thorough else 2):
        T = table(rows)
        chrom = 'a' if (len(units) % 3) else None
        units.append((T, None, [('in_ranges', chrom, s_, e_, m) for m in MODES for (s_, e_) in ERR_SHAPES]))
    # three-row nested tables (the mask path with more than one nested row)
    for rows in ([('a', 0, 10), ('a', 1, 2), ('a', 3, 4)], [('a', 0, 9), ('a', 0, 3), ('a', 2, 12)], [('a', 1, 5), ('a', 1, 3), ('a', 4, 5)]):
        units.append((table(rows), None, [('in_ranges', 'a', s_, e_, m) for m in MODES for (s_, e_) in ERR_SHAPES]))
    return units


def rand_chrom_rows(rng, chrom, style, n, span):
    rows = []
    pos = rng.randint(0, 5)
    for _ in range(n):
        if style == 'tiling':
            ln = rng.randint(1, 12)
            rows.append((chrom, pos, pos + ln))
            pos += ln + rng.choice([0, 0, 0, 1, rng.randint(0, 10)])
        elif style == 'nested':
            lo = rng.randint(0, span)
            rows.append((chrom, lo, lo + rng.choice([1, 2, rng.randint(1, span), rng.randint(1, 6)])))
        elif style == 'dups':
            if rows and rng.random() < 0.4:
                rows.append(rng.choice(rows))
            else:
                lo = rng.randint(0, span)
                rows.append((chrom, lo, lo + rng.randint(1, 8)))
        else:
            lo = rng.randint(0, span)
            hi = lo + rng.randint(1, max(1, span // 3))
            rows.append((chrom, lo, hi))
            if rng.random() < 0.3:
                rows.append((chrom, lo, hi + rng.randint(0, 3)))
            if rng.random() < 0.3:
                rows.append((chrom, hi, hi + rng.randint(1, 5)))       # abutting
    rows.sort(key=lambda r: (r[1], r[2]))
    return rows


def rand_table(rng, chroms, big, labels_mode=None):
    rows = []
    for c in chroms:
        style = rng.choice(['tiling', 'nested', 'dups', 'mixed'])
        n = rng.choice([0, 1, 2, 3, rng.randint(0, 12), rng.randint(0, 60 if big else 12)])
        rows += rand_chrom_rows(rng, c, style, n, 80 if big else 20)
    k = len(rows)
    labels = None
    if labels_mode == 'perm' and k:
        base = rng.sample(range(0, 3 * k + 3), k)
        labels = base
    gene = [rng.choice(['A', 'B', 'C', 'TP53', '-', 'A,B']) for _ in range(k)]
    x = [rng.choice([NAN, 0.0, 0.5, -1.25, rng.random(), rng.uniform(-3, 3)]) for _ in range(k)]
    n = [rng.randint(-5, 50) for _ in range(k)]
    return table(rows, labels, gene, x, n)


CHROMS = ['chr1', 'chr2', 'chrX', 'chr10', '7']


def random_units(rng, count, big):
    units = []
    for i in range(count):
        shape = rng.choice(['same1', 'same1', 'two', 'two', 'three', 'miss_t', 'miss_q', 'disjoint', 'empty_t', 'empty_q'])
        if shape == 'same1':
            tc = qc = [rng.choice(CHROMS)]
        elif shape == 'two':
            tc = qc = rng.sample(CHROMS, 2)
        elif shape == 'three':
            tc = qc = rng.sample(CHROMS, 3)
        elif shape == 'miss_t':
            qc = rng.sample(CHROMS, rng.randint(2, 3))
            tc = [c for c in qc if rng.random() < 0.5] or qc[:1]
        elif shape == 'miss_q':
            tc = rng.sample(CHROMS, rng.randint(2, 3))
            qc = [c for c in tc if rng.random() < 0.5] or tc[:1]
        elif shape == 'disjoint':
            cs = rng.sample(CHROMS, 2)
            tc, qc = cs[:1], cs[1:]
        elif shape == 'empty_t':
            tc, qc = [], rng.sample(CHROMS, rng.randint(1, 2))
        else:
            tc, qc = rng.sample(CHROMS, rng.randint(1, 2)), []
        T = rand_table(rng, tc, big, rng.choice([None, None, 'perm']))
        Q = rand_table(rng, qc, False, rng.choice([None, None, 'perm']))
        # queries at the table's own boundaries
        if T['rows'] and Q['rows'] and rng.random() < 0.7:
            qrows = list(Q['rows'])
            for j in range(len(qrows)):
                if rng.random() < 0.5:
                    c = qrows[j][0]
                    own = [r for r in T['rows'] if r[0] == c]
                    if own:
                        r1, r2 = rng.choice(own), rng.choice(own)
                        lo = rng.choice([r1[1], r1[2], max(0, r1[1] - 1), r1[1] + 1, 0])
                        hi = rng.choice([r2[1], r2[2], r2[2] + 1, max(1, r2[2] - 1)])
                        if lo < hi:
                            qrows[j] = (c, lo, hi)
            order = {c: i for i, c in enumerate(distinct([r[0] for r in qrows]))}
            qrows.sort(key=lambda r: (order[r[0]], r[1], r[2]))
            Q = table(qrows, Q['labels'], Q['gene'], Q['x'], Q['n'])
        calls = pair_calls(T, Q, i, True)
        # per-chromosome calls on the same table
        for c in distinct([r[0] for r in Q['rows']] + ['chrNone']):
            qs = [(r[1], r[2]) for r in Q['rows'] if r[0] == c][:6] or [(0, 5)]
            single = len(set(r[0] for r in T['rows'])) <= 1
            calls += table_calls(T, (None if (single and rng.random() < 0.3 and T['rows'] and T['rows'][0][0] == c) else c), qs)
        units.append((T, Q, calls))
    return units


def edge_units(rng, count):
    """malformed inputs, model vs code only: unsorted rows, interleaved chromosomes, zero-width
    rows and queries, chrom=None on a multi-chromosome table"""
    units = []
    for i in range(count):
        tc = rng.sample(CHROMS, rng.randint(1, 2))
        T = rand_table(rng, tc, False)
        Q = rand_table(rng, rng.sample(CHROMS, rng.randint(1, 2)), False)
        kind = rng.choice(['shuffle_t', 'shuffle_q', 'zero', 'chrom_none'])
        calls = []
        if kind == 'shuffle_t':
            rows = list(T['rows'])
            rng.shuffle(rows)
            T = table(rows)
            calls = pair_calls(T, Q, i, True)
        elif kind == 'shuffle_q':
            rows = list(Q['rows'])
            rng.shuffle(rows)
            Q = table(rows)
            calls = pair_calls(T, Q, i, True)
        elif kind == 'zero':
            T = table([(c, a, a if rng.random() < 0.3 else b) for c, a, b in T['rows']])
            Q = table([(c, a, a if rng.random() < 0.3 else b) for c, a, b in Q['rows']])
            calls = pair_calls(T, Q, i, True)
        else:
            qs = [(r[1], r[2]) for r in Q['rows']][:4] or [(0, 3)]
            calls = table_calls(T, None, qs)
        units.append((T, Q, calls))
    return units


def searchsorted_check(ck, count):
    """the binary search itself (numpy never checks sortedness): model vs pandas on arbitrary arrays"""
    import pandas as pd
    cases = []
    for _ in range(count):
        n = ck.rng.randint(0, 12)
        arr = [ck.rng.randint(0, 9) for _ in range(n)]
        if ck.rng.random() < 0.4:
            arr.sort()
        keys = [ck.rng.randint(-1, 10) for _ in range(ck.rng.randint(1, 6))]
        cases.append((ck.rng.choice(['left', 'right']), arr, keys))
    model = vlib.model_batch('c07_searchsorted', [[s, a, k] for s, a, k in cases])
    for (s, a, k), m in zip(cases, model):
        code = [int(v) for v in pd.Series(a, dtype='int64').searchsorted(pd.Series(k, dtype='int64'), s)]
        ck.count(['searchsorted', s, a, k], nontrivial=a != sorted(a), cls='searchsorted')
        if a == sorted(a):
            exp = [sum(1 for v in a if (v < key if s == 'left' else v <= key)) for key in k]
            if code != exp:
                ck.violation('searchsorted on a sorted array is not the count', {'side': s, 'arr': a, 'keys': k},
                             code=code, expected=exp, clause='searchsorted_sorted')
                continue
        if code != m:
            ck.tie_break('model binary search differs from numpy', {'side': s, 'arr': a, 'keys': k}, code=code, model=m)


def cell_of(v):
    """python value -> wire cell"""
    import numpy as np
    if isinstance(v, (bool, np.bool_)):
        return ['b', bool(v)]
    if isinstance(v, (int, np.integer)):
        return ['i', int(v)]
    if isinstance(v, (float, np.floating)):
        v = float(v)
        return ['f', None if v != v else Fraction(v)]
    if isinstance(v, str):
        return ['s', v]
    raise RuntimeError('no cell for %r' % (v,))


def cell_same(code, model):
    """code: a python value out of the result Series; model: a wire cell.  pandas re-types the result list (an int among
    floats becomes a float, a missing value in a bool/int list NaN), so numbers are compared by value."""
    import numpy as np
    kind, mv = model
    if isinstance(code, (bool, np.bool_)):
        return (kind == 'b' and bool(code) == mv) or (kind in ('i', 'f') and mv is not None and float(mv) == float(code))
    if isinstance(code, str):
        return kind == 's' and code == mv
    if code is None or (isinstance(code, (float, np.floating)) and code != code):
        return kind == 'f' and mv is None
    if isinstance(code, (int, float, np.integer, np.floating)):
        if kind == 'b':
            return float(code) == (1.0 if mv else 0.0)
        return kind in ('i', 'f') and mv is not None and vlib.close(float(code), Fraction(mv))
    return False


def into_full_check(ck, count):
    """into_ranges with every kind of summary_func on every kind of column: None (type default chosen by the FIRST element:
    str -> join_strings, float -> nanmedian, else first_of), a callable (len), a non-callable (constant) of the column's
    or of another type; a missing column; an object column of mixed types (first_of, or TypeError from join_strings)."""
    import numpy as np, pandas as pd
    rng = ck.rng
    cases = []
    for i in range(count):
        tc = rng.sample(CHROMS, rng.randint(1, 2))
        qc = tc if rng.random() < 0.7 else rng.sample(CHROMS, rng.randint(1, 2))
        T = rand_table(rng, tc, False, rng.choice([None, 'perm']))
        Q = rand_table(rng, qc, False)
        if rng.random() < 0.08:
            T = table([])
        if rng.random() < 0.05:
            Q = table([])
        colkind = rng.choice(['gene', 'x', 'n', 'flag', 'mixed_s', 'mixed_i', 'missing'])
        if colkind == 'gene':
            vals = list(T['gene'])
        elif colkind == 'x':
            vals = [float(v) for v in T['x']]
        elif colkind == 'n':
            vals = list(T['n'])
        elif colkind == 'flag':
            vals = [bool(v % 2) for v in T['n']]
        elif colkind == 'mixed_s':
            vals = [(g if j % 2 == 0 else n) for j, (g, n) in enumerate(zip(T['gene'], T['n']))]
        elif colkind == 'mixed_i':
            vals = [(n if j % 2 == 0 else g) for j, (g, n) in enumerate(zip(T['gene'], T['n']))]
        else:
            vals = list(T['n'])
        default = rng.choice(['-', -1.0, -5, NAN, True])
        summ = rng.choice([None, None, None, 'len', ('const', 'K'), ('const', 7), ('const', 2.5), ('const', False)])
        cases.append((T, Q, colkind, vals, default, summ))
    reqs = []
    for T, Q, colkind, vals, default, summ in cases:
        column = [[lab, cell_of(v)] for lab, v in zip(T['labels'], vals)]
        f = None if summ is None else ('len' if summ == 'len' else ['const', cell_of(summ[1])])
        reqs.append([colkind != 'missing', trows(T), trows(Q), column, cell_of(default), f])
    model = vlib.model_batch_parallel('c07_into_full', reqs)
    for (T, Q, colkind, vals, default, summ), m in zip(cases, model):
        ga_t, ga_q = build_ga(T), build_ga(Q)
        colname = 'v'
        if colkind != 'missing':
            ga_t.data[colname] = pd.Series(vals, index=ga_t.data.index, dtype=(object if colkind.startswith('mixed') else None))
        f = None if summ is None else (len if summ == 'len' else summ[1])
        try:
            res = ga_t.into_ranges(ga_q, colname, default, f)
            code = Err('returns dest') if isinstance(res, pd.DataFrame) else list(res)
        except Exception as e:   # noqa
            code = Err(type(e).__name__)
        case = {'table': T, 'other': Q, 'column': colkind, 'values': [repr(v) for v in vals], 'default': repr(default), 'summary': repr(summ)}
        # independent expectation
        colv = dict(zip(T['labels'], vals))
        exp = []
        if colkind == 'missing':
            exp = [default] * len(Q['rows'])
        elif not Q['rows']:
            exp = Err('returns dest')
        elif not T['rows']:
            exp = [default] * len(Q['rows'])
        else:
            first = vals[0]
            for qlab, hits in bf_answers(T, Q, 'outer'):
                hv = [colv[h[0]] for h in hits]
                if len(hv) == 0:
                    exp.append(default)
                elif len(hv) == 1:
                    exp.append(hv[0])
                elif summ == 'len':
                    exp.append(len(hv))
                elif summ is not None:
                    exp.append(summ[1])
                elif isinstance(first, str):
                    if not all(isinstance(v, str) for v in hv):
                        exp = Err('TypeError')
                        break
                    exp.append(','.join(distinct(hv)))
                elif isinstance(first, float):
                    md = exact_median(hv)
                    exp.append(NAN if md is None else float(md))
                else:
                    exp.append(hv[0])
        nt = isinstance(exp, list) and len(exp) > 0
        ck.count(case, nontrivial=nt, cls='into_full:%s' % colkind)

        def agree(code, other, cells):
            if isinstance(code, Err) or isinstance(other, Err):
                return code == other
            if len(code) != len(other):
                return False
            if cells:
                return all(cell_same(c, o) for c, o in zip(code, other))
            return all(cell_same(c, cell_of(o)) for c, o in zip(code, other))
        mm = m
        if isinstance(m, list) and any(isinstance(x, Err) for x in m):
            mm = Err('TypeError')
        if not agree(code, exp, False):
            ck.violation('into_ranges does not return default / the value / the summary chosen by the column type or the given '
                         'function / constant', case, code=repr(code), expected=repr(exp), model=repr(mm), clause='C07_into_full')
            continue
        if not agree(code, mm, True):
            ck.tie_break('model of into_ranges (dynamic cells) differs from the code', case, code=repr(code), model=repr(mm))


def loc_check(ck, count):
    """the label / position bridge: DataFrame.loc[labels] and .iloc[positions] against rows_loc / rows_iloc, on default,
    permuted (unique) and repeated labels"""
    import pandas as pd
    rng = ck.rng
    cases = []
    for _ in range(count):
        n = rng.randint(0, 8)
        mode = rng.choice(['default', 'perm', 'gaps', 'dups'])
        if mode == 'default':
            labels = list(range(n))
        elif mode == 'perm':
            labels = rng.sample(range(0, 2 * n + 2), n)
        elif mode == 'gaps':
            labels = sorted(rng.sample(range(0, 3 * n + 3), n))
        else:
            labels = [rng.randint(0, max(1, n // 2)) for _ in range(n)]
        rows = [[lab, 10 * i, 10 * i + 5] for i, lab in enumerate(labels)]
        want = [rng.choice(labels) for _ in range(rng.randint(0, 5))] if labels else []
        pos = [rng.randint(0, n - 1) for _ in range(rng.randint(0, 5))] if n else []
        cases.append((mode, rows, want, pos))
    mloc = vlib.model_batch('c07_loc', [[r, w] for _, r, w, _ in cases])
    miloc = vlib.model_batch('c07_iloc', [[r, p_] for _, r, _, p_ in cases])
    for (mode, rows, want, pos), ml, mi in zip(cases, mloc, miloc):
        df = pd.DataFrame({'rid': [r[0] for r in rows], 'start': [r[1] for r in rows], 'end': [r[2] for r in rows]},
                          index=pd.Index([r[0] for r in rows], dtype='int64'))
        a = df.loc[want] if want else df.iloc[:0]
        b = df.iloc[pos] if pos else df.iloc[:0]
        code_loc = [[int(x), int(y), int(z)] for x, y, z in zip(a['rid'], a['start'], a['end'])]
        code_iloc = [[int(x), int(y), int(z)] for x, y, z in zip(b['rid'], b['start'], b['end'])]
        ck.count(['loc', mode, rows, want, pos], nontrivial=bool(want or pos), cls='labels:%s' % mode)
        if code_loc != [list(x) for x in ml]:
            ck.tie_break('model label lookup (rows_loc) differs from DataFrame.loc', {'rows': rows, 'labels': want}, code=code_loc, model=ml)
        if code_iloc != [list(x) for x in mi]:
            ck.tie_break('model positional lookup (rows_iloc) differs from DataFrame.iloc', {'rows': rows, 'positions': pos}, code=code_iloc, model=mi)
        if mode == 'default' and want and code_loc != [rows[w] for w in want]:
            ck.violation('with default labels a label lookup is not the positional lookup', {'rows': rows, 'labels': want},
                         code=code_loc, expected=[rows[w] for w in want], clause='C07_labels')


def summary_check(ck, count):
    """join_strings / nanmedian models against the oracle"""
    strs, flts = [], []
    for _ in range(count):
        strs.append([ck.rng.choice(['A', 'B', 'C', '', 'A,B', 'x y']) for _ in range(ck.rng.randint(0, 7))])
        flts.append([ck.rng.choice([NAN, 0.0, 1.0, 2.5, -3.0, ck.rng.random()]) for _ in range(ck.rng.randint(0, 7))])
    mj = vlib.model_batch('c07_join', strs)
    mm = vlib.model_batch('c07_nanmedian', [[None if v != v else Fraction(v) for v in f] for f in flts])
    for s, m in zip(strs, mj):
        if m != ','.join(distinct(s)):
            raise RuntimeError('Coq join/dedup disagrees with the python oracle on %r: %r' % (s, m))
    for f, m in zip(flts, mm):
        if m != exact_median(f):
            raise RuntimeError('Coq nanmedian disagrees with the python oracle on %r: %r' % (f, m))


def spec_crosscheck(units, sample):
    """the extracted Coq specification (answers / select_spec_opt) must equal the python oracle"""
    reqs, exps = [], []
    for T, Q, _ in units[::max(1, len(units) // sample)]:
        if Q is None:
            continue
        for m in MODES:
            reqs.append([trows(T), trows(Q), m])
            exps.append(bf_answers(T, Q, m))
    res = vlib.model_batch_parallel('c07_answers', reqs)
    for rq, r, e in zip(reqs, res, exps):
        got = [(q, [tuple(x) for x in rows]) for q, rows in r]
        if got != e:
            raise RuntimeError('Coq spec `answers` disagrees with the python oracle on %r: %r vs %r' % (rq, got, e))
    reqs, exps = [], []
    for T, Q, _ in units[::max(1, len(units) // sample)]:
        rows = chrom_rows(T, T['rows'][0][0]) if T['rows'] else []
        for m in MODES:
            for qs, qe in [(None, 3), (2, None), (None, None), (1, 4)]:
                reqs.append([[list(r) for r in rows], qs, qe, m])
                exps.append(bf_select(rows, qs, qe, m))
    res = vlib.model_batch_parallel('c07_spec', reqs)
    for rq, r, e in zip(reqs, res, exps):
        if [tuple(x) for x in r] != e:
            raise RuntimeError('Coq spec select_spec_opt disagrees with the python oracle on %r' % (rq,))


# ----------------------------------------------------------------------------

def load_corpus():
    path = os.path.join(vlib.VERIF, 'corpus', 'c07.json')
    if not os.path.exists(path):
        return []
    units = []
    for c in json.load(open(path)):
        T = table([tuple(r) for r in c['table']], c.get('labels'), c.get('gene'), c.get('x'), c.get('n'))
        Q = table([tuple(r) for r in c['other']], c.get('other_labels')) if c.get('other') is not None else None
        calls = [tuple(tuple(x) if isinstance(x, list) and x and x[0] == 'const' else x for x in call) for call in c['calls']]
        units.append((T, Q, calls))
    return units


def run(ck, scratch):
    ck.rule = ('corpus first; exhaustive: every pair of a sorted table (<=2 rows) and a sorted query table (<=2 / <=3 rows) over '
               'the coordinate scope on one chromosome (single-chromosome shortcut) and on two chromosomes (a reduced scope, see '
               'coverage.exhaustive_scope), each with by_ranges / intersection / iter_ranges_of x 3 modes x keep_empty and '
               'into_ranges on a string, a float and an integer column; every single table x ordered query list with in_range / '
               'in_ranges x 3 modes x None bounds (the None-bound variants of two-element lists on every third list); random large tables (tiling / nested / duplicated / abutting rows, permuted index '
               'labels, NaN values, chromosome missing on either side, empty tables, single-chromosome fast path) with queries placed '
               'on the rows\' own boundaries; an edge stream (unsorted rows, interleaved chromosomes, zero-width rows, chrom=None on '
               'several chromosomes) compared model-vs-code only; numpy searchsorted vs the model binary search on arbitrary arrays; in_ranges with empty '
               'query lists and starts / ends of unequal length on every small table (error outcomes TypeError / AssertionError / ValueError as values of the model); '
               'into_ranges with dynamically typed columns (str / float / int / bool / mixed object / missing) x summary None / callable / constant; '
               'DataFrame.loc / .iloc vs the model label and position lookups on default, permuted, gapped and repeated labels. '
               'non-trivial = the expected selection is not empty; distinct by case hash')
    ck.exhaustive = True
    ck.explanation = 'exhaustive: true refers to the enumerated scopes listed in coverage.exhaustive_scope'
    ck.unproved_remainder = [
        'pandas/numpy internals (groupby order, searchsorted, label-based .loc/.iloc, clip, the re-typing of the result list by '
        'pd.Series) are exercised, not proved; the label lookup itself is modelled (rows_loc / rows_iloc) and compared with DataFrame.loc / .iloc',
        'a column whose label occurs twice in the source table (the model reads the column as a function of the label) and user summary '
        'functions that raise are outside the model of into_ranges',
    ]
    if not ck.build_status.get('driver_ok'):
        raise RuntimeError('model driver unavailable')
    quick = ck.tier == 'quick'
    workers = max(1, min(12, (os.cpu_count() or 2) - 2))
    J = Judge(ck)

    corpus = load_corpus()
    J.run(corpus, 1, 'corpus')

    searchsorted_check(ck, 2000 if quick else 40000)
    summary_check(ck, 300 if quick else 5000)
    into_full_check(ck, 400 if quick else 6000)
    loc_check(ck, 400 if quick else 6000)
    uerr = error_units(not quick)
    J.run(uerr, workers, 'errors')

    scope = []
    # (A) one chromosome, direct calls: the single-chromosome shortcut of by_shared_chroms
    ua, _, _ = exhaustive_units(4, 2, 2 if quick else 3, ['a'], full=True, light=quick)
    scope.append('1 chromosome: all sorted tables (<=2 rows) x sorted query tables (<=%d) over 0..4, %s: %d pairs'
                 % (2 if quick else 3, 'by_ranges x 3 modes (keep_empty on), intersection x 3, into_ranges on two of the three column types (rotating) on every '
                    'pair; keep_empty off / iter_ranges_of rotating over the pairs' if quick else 'every pair-level call', len(ua)))
    J.run(ua, workers, 'exh1')
    spec_crosscheck(ua, 400)
    if not quick:
        ua2, stride, total = exhaustive_units(6, 2, 3, ['a'], full=False, budget=60000)
        scope.append('1 chromosome: sorted tables (<=2) x sorted query tables (<=3) over 0..6 (%d pairs), every %d-th pair: %d pairs, '
                     'by_ranges in all modes + one rotating other call' % (total, stride, len(ua2)))
        J.run(ua2, workers, 'exh1w')
    # (B) two chromosomes
    ub, _, _ = exhaustive_units(2 if quick else 3, 2, 2, ['a', 'b'], full=True)
    scope.append('2 chromosomes: all sorted tables (<=2 rows) x sorted query tables (<=2) over 0..%d, every pair-level call: %d pairs'
                 % (2 if quick else 3, len(ub)))
    J.run(ub, workers, 'exh2')
    spec_crosscheck(ub, 200)
    ub2, stride, total = exhaustive_units(4, 2, 2, ['a', 'b'], full=False, budget=(1500 if quick else None))
    scope.append('2 chromosomes: sorted tables (<=2) x sorted query tables (<=2) over 0..4 (%d pairs), every %d-th pair: %d pairs, '
                 'by_ranges in all modes + one rotating other call' % (total, stride, len(ub2)))
    J.run(ub2, workers, 'exh2w')
    # (C) single table x ordered query lists: in_range / in_ranges
    uc = exhaustive_table_units(4, 2, 2) if quick else exhaustive_table_units(5, 2, 2) + exhaustive_table_units(3, 2, 3)
    scope.append('in_range / in_ranges: all sorted tables (<=2 rows) x ordered query lists (%s), 3 modes, None bounds: %d tables x lists'
                 % ('<=2 over 0..4' if quick else '<=2 over 0..5 and <=3 over 0..3', len(uc)))
    J.run(uc, workers, 'exhT')
    ck.extra['exhaustive_scope'] = scope

    # (D) random large tables
    ur = random_units(ck.rng, 100 if quick else 1500, True)
    J.run(ur, workers, 'rand')
    spec_crosscheck(ur, 60)
    # (E) edge stream
    ue = edge_units(ck.rng, 60 if quick else 1000)
    J.run(ue, workers, 'edge', valid=False)


def replay(ck, body):
    case = body.get('case') or {}
    T, Q, call = case.get('table'), case.get('other'), case.get('call')
    if not T or not call:
        print(json.dumps(body, indent=1)[:2000])
        return 0
    call = tuple(tuple(x) if isinstance(x, list) and x and x[0] == 'const' else x for x in call)
    for t in (T, Q):
        if t:
            t['rows'] = [tuple(r) for r in t['rows']]
            t['x'] = [NAN if v == 'NaN' else v for v in t['x']]
    code = eval_unit((T, Q, [call]))[0]
    exp, sig = expected(T, Q, call)
    print('call     :', call)
    print('table    :', T['rows'])
    print('other    :', Q['rows'] if Q else None)
    print('code     :', code)
    print('expected :', exp)
    ok = same(call, code, exp)
    print('holds' if ok else 'VIOLATED' + (' (finding %s)' % sig if sig else ''))
    return 0 if ok else 1
