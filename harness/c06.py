"""C06 -- interval arithmetic (merge / flatten / subtract / intersection(trim) /
subdivide / resize_ranges / total_range_size) is base-exact.

Correspondence: GenomicArray.<op> on generated tables against the extracted Coq
model at GENOME level (Model/Intervals.v: g_merge / g_flatten / g_subtract / g_intersect /
g_subdivide / g_resize / g_total on the whole multi-chromosome table, rows compared in
order, every column) and against direct oracles that are independent of the model's
algorithm: a per-base bitmap (every base in the enumerated scopes; every elementary
segment between consecutive endpoints for the large random tables, which is the same
thing for half-open intervals), cross-checked against the extracted specification
function covers_b; the order of the chromosome blocks as coded; and, for merge / flatten,
the payload rule (gene / accession = comma-join of the distinct names of exactly the
input rows an output row covers, in row order; weight / probes summed; strand merged;
a column without combiner from the first row of the overlap group).

A table row is (chromosome, start, end, gene, tag, accession, strand, weight, probes);
`cols` says which of the extra columns exist in the DataFrame
('plain' | 'gene' | 'gene+tag' | 'full'); absent columns are blank ('' / 0)."""
import os, sys, json, itertools, multiprocessing
from fractions import Fraction
import vlib
from vlib import Err

LEVEL = 'proof'

COLSETS = {
    'plain': ['chromosome', 'start', 'end'],
    'gene': ['chromosome', 'start', 'end', 'gene'],
    'gene+tag': ['chromosome', 'start', 'end', 'gene', 'tag'],
    'full': ['chromosome', 'start', 'end', 'gene', 'tag', 'accession', 'strand', 'weight', 'probes'],
}
BLANK = ('', 0, '', '', 0.0, 0)      # gene, tag, accession, strand, weight, probes of an absent column


def full_row(r):
    """pad a generator row (chrom, lo, hi[, gene[, tag[, accession, strand, weight, probes]]]) to 9 fields"""
    r = tuple(r)
    return r + BLANK[len(r) - 3:]


# ----------------------------------------------------------------------------
# running the implementation (worker side)

_GA_CACHE = {}


def mk_ga(rows, cols):
    from skgenome import GenomicArray as GA
    key = (tuple(map(tuple, rows)), cols)
    ga = _GA_CACHE.get(key)
    if ga is None:
        names = COLSETS[cols]
        k = len(names)
        ga = GA.from_rows([tuple(r[:k]) for r in rows], columns=names)
        if len(_GA_CACHE) > 20000:
            _GA_CACHE.clear()
        _GA_CACHE[key] = ga
    return ga


def _num(v):
    try:
        if v == int(v):
            return int(v)
    except (TypeError, ValueError, OverflowError):
        pass
    return repr(v)


def canon_table(ga, cols):
    """GenomicArray -> list of 9-field rows; column set must be the input's."""
    df = ga.data
    names = COLSETS[cols]
    if list(df.columns) != names:
        return Err('columns %r' % (list(df.columns),))
    out = []
    st = lambda v: v if isinstance(v, str) else repr(v)     # noqa
    for tup in df.itertuples(index=False):
        gene, tag, acc, strand, weight, probes = tuple(tup[3:]) + BLANK[len(names) - 3:]
        try:
            weight = float(weight)
        except (TypeError, ValueError):
            weight = repr(weight)
        out.append((str(tup[0]), _num(tup[1]), _num(tup[2]), st(gene), _num(tag), st(acc), st(strand), weight, _num(probes)))
    return out


def explicit_gene_combiner(genes):
    return '|'.join(sorted(set(genes)))


def run_job(job):
    """Run one operation of the real code; returns canonical rows, an int, or Err."""
    op = job['op']
    cols = job['cols']
    try:
        a = mk_ga(job['a'], cols)
        if op == 'merge':
            return canon_table(a.merge(bp=job['bp']) if job.get('bp') is not None else a.merge(), cols)
        if op == 'flatten':
            if job.get('combiner') == 'explicit':
                return canon_table(a.flatten(combine={'gene': explicit_gene_combiner}), cols)
            return canon_table(a.flatten(), cols)
        if op == 'subtract':
            return canon_table(a.subtract(mk_ga(job['b'], job.get('bcols', cols))), cols)
        if op == 'intersect':
            return canon_table(a.intersection(mk_ga(job['b'], job.get('bcols', cols)), mode='trim'), cols)
        if op == 'subdivide':
            if job.get('mn') is None:
                return canon_table(a.subdivide(job['avg']), cols)
            return canon_table(a.subdivide(job['avg'], job['mn']), cols)
        if op == 'resize':
            return canon_table(a.resize_ranges(job['bp'], job.get('sizes')), cols)
        if op == 'total':
            return _num(a.total_range_size())
        if op == 'sort':
            b = a.copy()          # sort() works in place; the cached table must stay as generated
            b.sort()
            return canon_table(b, cols)
        return Err('unknown op')
    except ValueError as e:
        return Err('ValueError')
    except AssertionError:
        return Err('Assertion')
    except ZeroDivisionError:
        return Err('ZeroDivisionError')
    except Exception as e:   # noqa
        return Err('Other:' + type(e).__name__)


def _init_worker():
    import warnings, logging
    warnings.filterwarnings('ignore')
    logging.disable(logging.CRITICAL)
    import skgenome  # noqa


class Runner:
    def __init__(self, workers):
        self.workers = workers
        self.pool = None
        if workers > 1:
            ctx = multiprocessing.get_context('fork')
            self.pool = ctx.Pool(workers, initializer=_init_worker)

    def map(self, jobs):
        if self.pool is None or len(jobs) < 32:
            return [run_job(j) for j in jobs]
        cs = max(8, min(256, len(jobs) // (self.workers * 8) + 1))
        return self.pool.map(run_job, jobs, chunksize=cs)

    def close(self):
        if self.pool is not None:
            self.pool.close()
            self.pool.join()
            self.pool = None


# ----------------------------------------------------------------------------
# the direct oracle: bitmaps and textbook statements (no model code involved)


def by_chrom(rows):
    """rows -> {chrom: [(lo, hi, gene, tag, acc, strand, weight, probes)]} in first-occurrence order, table order inside."""
    d = {}
    for r in rows:
        d.setdefault(r[0], []).append(tuple(r[1:9]))
    return d


def points(*tables, dense_below=12):
    """the bases at which the covers of the given per-chromosome tables are compared:
    every endpoint (the cover of half-open intervals is constant between consecutive
    endpoints) and, when coordinates are small, simply every base."""
    s = set()
    for t in tables:
        for r in t:
            s.add(r[0])
            s.add(r[1])
    if not s:
        return [0]
    lo, hi = min(s), max(s)
    if hi - lo <= dense_below:
        return list(range(lo - 1, hi + 2))
    s.add(lo - 1)
    return sorted(s)


def bitmap(t, pts):
    return [any(r[0] <= p < r[1] for r in t) for p in pts]


def runs_of(t):
    """maximal runs of covered bases of a per-chromosome table, from the bitmap."""
    pts = points(t)
    bm = bitmap(t, pts)
    out, start = [], None
    for p, b in zip(pts, bm):
        if b and start is None:
            start = p
        elif not b and start is not None:
            out.append((start, p))
            start = None
    assert start is None     # the last point is an endpoint or beyond: never covered
    return out


def round_half_even(fr):
    fl = fr.numerator // fr.denominator
    rem = fr - fl
    if rem < Fraction(1, 2):
        return fl
    if rem > Fraction(1, 2):
        return fl + 1
    return fl if fl % 2 == 0 else fl + 1


def coords(t):
    return [(r[0], r[1]) for r in t]


def has_source(piece, src_rows):
    s, e = piece[0], piece[1]
    return any(r[0] <= s and e <= r[1] and tuple(r[2:]) == tuple(piece[2:]) for r in src_rows)


def oracle(job, out):
    """cover clause first (bitmaps), then the order of the chromosome blocks and the payload rule"""
    if job['op'] == 'sort':
        # GenomicArray.sort: stable sort on (sorter_chrom(chromosome), start, end) -- python's sorted() is stable
        from skgenome.chromsort import sorter_chrom
        exp = sorted([tuple(r) for r in job['a']], key=lambda r: (sorter_chrom(r[0]), r[1], r[2]))
        if [tuple(r) for r in out] != exp:
            return ('C06_genome_sort', 'GenomicArray.sort is not the stable sort on (chromosome key, start, end)', exp)
        return None
    bad = cover_oracle(job, out)
    if bad is not None:
        return bad
    if job['op'] in ('total', 'resize'):
        return None
    return order_oracle(job, out) or payload_oracle(job, out)


def distinct(xs):
    seen, res = set(), []
    for x in xs:
        if x not in seen:
            seen.add(x)
            res.append(x)
    return res


def blocks(rows):
    """the chromosome names of consecutive rows, runs collapsed"""
    res = []
    for r in rows:
        if not res or res[-1] != r[0]:
            res.append(r[0])
    return res


def whole_fast(rows, op, bp):
    """the fast path of merge() / flatten(): decided on the whole table in table order (all chromosomes)"""
    cmax = None
    for r in rows:
        if cmax is not None:
            gap = r[1] - cmax
            if not (gap > -bp if op != 'flatten' else gap >= 0):
                return False
        cmax = r[2] if cmax is None else max(cmax, r[2])
    return True


def order_oracle(job, out):
    """the order of the chromosome blocks of the output, as coded:
    merge / flatten / subdivide: the table's own order when nothing overlaps anywhere (the table comes back as it is);
    otherwise one block per chromosome, ordered by sorter_chrom (ties: by name);
    subtract: the chromosomes of `a` in order of first appearance, one block each (`b` empty: `a` itself);
    intersection(trim): the chromosomes of `b` in order of first appearance."""
    from skgenome.chromsort import sorter_chrom
    op = job['op']
    bl = blocks(out)
    have = set(bl)
    if op in ('merge', 'flatten', 'subdivide'):
        bp = (job.get('bp') or 0) if op == 'merge' else 0
        if not job['a']:
            exp = []
        elif whole_fast(job['a'], op, bp):
            exp = blocks([r for r in job['a'] if r[0] in have])
            if op != 'subdivide' and [tuple(r) for r in out] != [tuple(r) for r in job['a']]:
                return ('C06_genome_%s' % op, '%s changes a table in which nothing overlaps' % op, job['a'])
        else:
            exp = [c for c in sorted(sorted(set(r[0] for r in job['a'])), key=sorter_chrom) if c in have]
    elif op == 'subtract':
        if not job['b']:
            if [tuple(r) for r in out] != [tuple(r) for r in job['a']]:
                return ('C06_genome_subtract', 'subtracting an empty table changes the table', job['a'])
            return None
        exp = [c for c in distinct(r[0] for r in job['a']) if c in have]
    else:
        exp = [c for c in distinct(r[0] for r in job['b']) if c in have]
    if bl != exp:
        return ('C06_genome_%s' % op, '%s: the chromosome blocks of the output are not in the order the code documents' % op, exp)
    return None


def merged_payload(cov, first):
    """what the default combiners make of the rows `cov` (in row order) of a group whose first row is `first`:
    (gene, tag, accession, strand, weight, probes)"""
    strands = distinct(r[5] for r in cov)
    return (','.join(distinct(r[2] for r in cov)), first[3], ','.join(distinct(r[4] for r in cov)),
            strands[0] if len(strands) == 1 else '.', sum(r[6] for r in cov), sum(r[7] for r in cov))


def payload_oracle(job, out):
    """merge() (bp 0) / flatten() with the default combiners: the other fields of every output row, stated on the
    input rows it covers (merge: the rows lying inside it; flatten: the rows containing it), in (start, end) order."""
    op = job['op']
    if op not in ('merge', 'flatten') or job.get('compare') == 'coords' or (op == 'merge' and (job.get('bp') or 0) != 0):
        return None
    A, O = by_chrom(job['a']), by_chrom(out)
    fast = whole_fast(job['a'], op, 0)
    for c, o in O.items():
        srt = sorted(A.get(c, []), key=lambda r: (r[0], r[1]))
        runs = runs_of(srt)
        for x in o:
            if op == 'merge':
                cov = [r for r in srt if x[0] <= r[0] and r[1] <= x[1]]
                first = cov[0] if cov else None
            else:
                cov = [r for r in srt if r[0] <= x[0] and x[1] <= r[1]]
                run = [rn for rn in runs if rn[0] <= x[0] and x[1] <= rn[1]]
                grp = [r for r in srt if run and run[0][0] <= r[0] and r[1] <= run[0][1]]
                first = x if fast else (grp[0] if grp else None)
            if not cov:
                return ('C06_%s_payload' % op, '%s: an output row covers no input row (%s)' % (op, c), None)
            exp = merged_payload(cov, first)
            if tuple(x[2:]) != exp:
                return ('C06_%s_payload' % op, '%s: the other fields of output row %s:%d-%d are not the combination of the input '
                        'rows it covers' % (op, c, x[0], x[1]), list(exp))
    return None


def cover_oracle(job, out):
    """Evaluate the property's clause for this operation on the code's output `out`
    (already known not to be an Err). Returns None if it holds, else (clause, what, expected)."""
    op = job['op']
    A = by_chrom(job['a'])
    if op == 'total':
        exp = sum(e - s for c in A for (s, e) in runs_of(A[c]))
        if out != exp:
            return ('C06_total_size', 'total_range_size is not the number of covered bases', exp)
        return None
    O = by_chrom(out)
    if any(not (isinstance(r[0], int) and isinstance(r[1], int)) for c in O for r in O[c]):
        return ('C06', 'non-integer coordinates in the output', None)
    if op == 'merge':
        bp = job.get('bp') or 0
        for c in set(A) | set(O):
            a, o = A.get(c, []), O.get(c, [])
            if bp == 0:
                exp = runs_of(a)
                if coords(o) != exp:
                    return ('C06_merge', 'merge is not the sorted minimal list of disjoint non-abutting intervals covering the union (%s)' % c, exp)
            else:
                pts = points(a, o)
                if bitmap(o, pts) != bitmap(a, pts):
                    return ('C06_merge_bp', 'merge(bp=%d) changes the covered bases (%s)' % (bp, c), runs_of(a))
                for x, y in zip(o, o[1:]):
                    if not (x[1] - y[0] < bp):
                        return ('C06_merge_bp', 'merge(bp=%d) leaves consecutive rows overlapping by >= bp (%s)' % (bp, c), None)
        return None
    if op == 'flatten':
        for c in set(A) | set(O):
            a, o = A.get(c, []), O.get(c, [])
            pts = points(a, o)
            if bitmap(o, pts) != bitmap(a, pts):
                return ('C06_flatten', 'flatten changes the covered bases (%s)' % c, runs_of(a))
            for x in o:
                if not x[0] < x[1]:
                    return ('C06_flatten', 'flatten emits an empty piece (%s)' % c, None)
            for x, y in zip(o, o[1:]):
                if not x[1] <= y[0]:
                    return ('C06_flatten', 'flatten pieces overlap or are out of order (%s)' % c, None)
            ends = {e for r in a for e in r[:2]}
            for x in o:
                if any(x[0] < e < x[1] for e in ends):
                    return ('C06_flatten', 'a flatten piece is not cut at an input boundary (%s)' % c, None)
        return None
    if op in ('subtract', 'intersect'):
        B = by_chrom(job['b'])
        for c in set(A) | set(O) | set(B):
            a, b, o = A.get(c, []), B.get(c, []), O.get(c, [])
            pts = points(a, b, o)
            ba, bb, bo = bitmap(a, pts), bitmap(b, pts), bitmap(o, pts)
            if op == 'subtract':
                exp = [x and not y for x, y in zip(ba, bb)]
                if bo != exp:
                    return ('C06_subtract', 'a.subtract(b) does not cover exactly the bases of a not in b (%s)' % c,
                            [p for p, e in zip(pts, exp) if e])
            else:
                exp = [x and y for x, y in zip(ba, bb)]
                if bo != exp:
                    return ('C06_intersect_trim', 'intersection(mode=trim) does not cover exactly a AND b (%s)' % c,
                            [p for p, e in zip(pts, exp) if e])
            for piece in o:
                if not piece[0] < piece[1]:
                    return ('C06_%s' % op, '%s emits an empty piece (%s)' % (op, c), None)
                if not has_source(piece, a):
                    return ('C06_%s' % op, '%s: a piece does not carry the other fields of a row of a containing it (%s)' % (op, c), None)
        return None
    if op == 'subdivide':
        avg = job['avg']
        mn = job.get('mn') or 0
        for c in set(A) | set(O):
            a, o = A.get(c, []), O.get(c, [])
            i = 0
            for (s, e) in runs_of(a):
                span = e - s
                if span < mn:
                    continue
                n = max(1, round_half_even(Fraction(span, avg)))
                bins = o[i:i + n]
                i += n
                ok = (len(bins) == n and bins[0][0] == s and bins[-1][1] == e
                      and all(x[1] == y[0] for x, y in zip(bins, bins[1:]))
                      and all(abs((x[1] - x[0]) - Fraction(span, n)) <= 1 for x in bins))
                if not ok:
                    return ('C06_subdivide', 'region %s:%d-%d is not cut into max(1, round(length/avg)) = %d consecutive '
                            'equal (+-1) bins covering it exactly' % (c, s, e, n), None)
            if i != len(o):
                return ('C06_subdivide', 'subdivide emits bins outside the merged regions of at least the minimum size (%s)' % c, None)
        return None
    if op == 'resize':
        bp = job['bp']
        sizes = job.get('sizes') or None
        exp = []
        for r in job['a']:
            lo, hi = max(r[1] - bp, 0), max(r[2] + bp, 0)
            if sizes:
                lo, hi = min(lo, sizes[r[0]]), min(hi, sizes[r[0]])
            if bp < 0 and hi - lo <= 0:
                continue
            exp.append((r[0], lo, hi) + tuple(r[3:]))
        if [tuple(r) for r in out] != exp:
            return ('C06_resize', 'resize_ranges does not move both ends by bp clipped to [0, size], dropping rows that shrink to nothing', exp)
        return None
    raise RuntimeError('no oracle for op %r' % op)


def nontrivial(job, out):
    op = job['op']
    if isinstance(out, Err):
        return False
    if op == 'total':
        A = by_chrom(job['a'])
        return out != sum(r[1] - r[0] for c in A for r in A[c])
    if op in ('merge', 'flatten', 'subdivide', 'resize', 'sort'):
        return [tuple(r) for r in out] != [tuple(r) for r in job['a']]
    if op == 'subtract':
        return [tuple(r) for r in out] != [tuple(r) for r in job['a']] and len(out) > 0
    if op == 'intersect':
        return len(out) > 0
    return True


# ----------------------------------------------------------------------------
# the model side


def mrows(t):
    return [[r[0], r[1], r[2], r[3]] for r in t]


def float_cuts(a_rows, avg, mn):
    """the cut oracle, supplied by the same float arithmetic the code uses:
    int(i * (span / nbins)) for every merged region; also checks its contract."""
    out = []
    seen = set()
    for (s, e) in runs_of(a_rows):
        span = e - s
        if span < mn:
            continue
        n = int(round(span / avg)) or 1
        if n <= 1 or (span, n) in seen:
            continue
        seen.add((span, n))
        bin_size = span / n
        cuts = [int(i * bin_size) for i in range(1, n)]
        for i, cpt in enumerate(cuts, 1):
            if not (i * span - n <= n * cpt <= i * span):
                raise RuntimeError('cut oracle contract violated: span=%d nbins=%d i=%d cut=%d' % (span, n, i, cpt))
        out.append([span, n, cuts])
    return out


def frows(rows):
    """model encoding of a genome table: [chrom, lo, hi, gene, accession, strand, weight, probes, tag]"""
    return [[r[0], r[1], r[2], r[3], r[5], r[6], Fraction(r[7]), r[8], r[4]] for r in rows]


def from_model_row(x):
    w = x[6]
    return (x[0], x[1], x[2], x[3], x[8], x[4], x[5], float(w) if isinstance(w, (int, Fraction)) else w, x[7])


def model_requests(job):
    """-> list of (entry, input, key): ONE genome-level request per job (the whole table(s) in table order; the
    grouping by chromosome, the fast paths and the order of the output are the model's business)."""
    op = job['op']
    A = by_chrom(job['a'])
    if op == 'merge':
        bp = job['bp'] if job.get('bp') is not None else 0
        return [('c06_g_merge', [bp, frows(job['a'])], None)]
    if op == 'flatten':
        return [('c06_g_flatten', frows(job['a']), None)]
    if op == 'subtract':
        return [('c06_g_subtract', [frows(job['a']), frows(job['b'])], None)]
    if op == 'intersect':
        return [('c06_g_intersect', [frows(job['a']), frows(job['b'])], None)]
    if op == 'subdivide':
        mn = job['mn'] if job.get('mn') is not None else 0
        cuts = []
        for c in A:
            for ct in float_cuts([r for r in A[c] if r[0] < r[1]], job['avg'], mn):
                if not any(x[0] == ct[0] and x[1] == ct[1] for x in cuts):
                    cuts.append(ct)
        return [('c06_g_subdivide', [job['avg'], mn, frows(job['a']), cuts], None)]
    if op == 'resize':
        sizes = job.get('sizes')
        return [('c06_g_resize', [job['bp'], None if sizes is None else [[c, v] for c, v in sizes.items()], frows(job['a'])], None)]
    if op == 'total':
        return [('c06_g_total', frows(job['a']), None)]
    if op == 'sort':
        return [('c06_g_sort', frows(job['a']), None)]
    return []


def model_assemble(job, reqs, results):
    """-> the model's output table (9-field rows, in order), an int for total, or Err."""
    for r in results:
        if isinstance(r, Err):
            return r
    if job['op'] == 'total':
        return results[0]
    return [from_model_row(x) for x in results[0]]


def code_as_model_shape(job, out):
    if isinstance(out, Err) or job['op'] == 'total':
        return out
    if job.get('compare') == 'coords':
        return [(r[0], r[1], r[2]) for r in out]
    return [tuple(r) for r in out]


# ----------------------------------------------------------------------------
# evaluation of a batch of jobs


class State:
    def __init__(self, ck, runner):
        self.ck = ck
        self.runner = runner
        self.reported = {}
        self.intersect_empty = 0
        self.spec_checks = 0


def job_case(job):
    return {k: v for k, v in job.items() if k not in ('stream', 'cls')}


def shrink(job, still_fails, budget=150):
    """greedy row dropping on a and b while the oracle still fails (in-process)."""
    cur = dict(job)
    n = 0
    changed = True
    while changed and n < budget:
        changed = False
        for key in ('a', 'b'):
            rows = cur.get(key)
            if not rows:
                continue
            i = 0
            while i < len(rows) and n < budget:
                cand = dict(cur)
                cand[key] = rows[:i] + rows[i + 1:]
                if cand.get('sizes') and key == 'a':
                    pass
                n += 1
                try:
                    bad = still_fails(cand)
                except Exception:   # noqa
                    bad = False
                if bad:
                    cur = cand
                    rows = cur[key]
                    changed = True
                else:
                    i += 1
    return cur


def oracle_fails(job):
    out = run_job(job)
    if isinstance(out, Err):
        return True
    return oracle(job, out) is not None


def report_violation(st, job, what, clause, out, expected, sig=None):
    key = (job['op'], clause, sig)
    n = st.reported.get(key, 0)
    st.reported[key] = n + 1
    if n >= (1 if sig else 2):
        return
    small = job
    if job.get('stream') != 'exhaustive' and sig is None:
        small = shrink(job, oracle_fails)
        if small is not job:
            out = run_job(small)
    st.ck.violation(what, job_case(small), sig=sig, code=out, expected=expected, clause=clause, original=job_case(job))


def norm_rows(rows, cols):
    """blank the columns that do not exist in the DataFrame ('' / 0) and pad every row to 9 fields."""
    k = len(COLSETS[cols])
    return [full_row(tuple(r)[:k]) for r in rows]


def normalise(job):
    job['a'] = norm_rows(job['a'], job['cols'])
    if 'b' in job:
        job['b'] = norm_rows(job['b'], job.get('bcols', job['cols']))
    return job


def evaluate(st, jobs):
    """Run code, oracle and model on the jobs; record verdict material on st.ck."""
    ck = st.ck
    if not jobs:
        return
    jobs = [normalise(dict(j)) for j in jobs]
    outs = st.runner.map(jobs)
    # model requests, batched per entry
    allreqs = [model_requests(j) for j in jobs]
    per_entry = {}
    for ji, reqs in enumerate(allreqs):
        for ri, (entry, inp, key) in enumerate(reqs):
            per_entry.setdefault(entry, []).append((ji, ri, inp))
    results = [[None] * len(r) for r in allreqs]
    for entry, lst in per_entry.items():
        res = vlib.model_batch_parallel(entry, [x[2] for x in lst])
        for (ji, ri, _), r in zip(lst, res):
            results[ji][ri] = r
    # specification cross-check: extracted covers_b on the code's output vs the python bitmap
    spec_in, spec_exp = [], []
    for job, out in zip(jobs, outs):
        if isinstance(out, Err) or job['op'] in ('total', 'resize', 'sort'):
            continue
        O = by_chrom(out)
        for c, rows in O.items():
            if any(not (isinstance(r[0], int) and isinstance(r[1], int)) for r in rows):
                continue
            pts = points(rows, by_chrom(job['a']).get(c, []))
            spec_in.append([mrows(rows), pts])
            spec_exp.append(bitmap(rows, pts))
    if spec_in:
        got = vlib.model_batch_parallel('c06_covers', spec_in)
        for i, (g, e) in enumerate(zip(got, spec_exp)):
            if g != e:
                raise RuntimeError('Coq covers_b disagrees with the python bitmap on %r: %r vs %r' % (spec_in[i], g, e))
        st.spec_checks += len(spec_in)
    for job, out, reqs, res in zip(jobs, outs, allreqs, results):
        model = model_assemble(job, reqs, res)
        code = code_as_model_shape(job, out)
        if job.get('compare') == 'coords' and isinstance(model, list):
            model = [(r[0], r[1], r[2]) for r in model]
        stream = job.get('stream', 'valid')
        ck.count(job_case(job), nontrivial=(stream != 'edge' and nontrivial(job, out)), cls='%s:%s' % (job['op'], job.get('cls', stream)))
        if stream == 'edge':
            # outside the theorems' precondition: model-vs-code only
            if code != model:
                ck.tie_break('model differs from the code on the edge stream (%s)' % job['op'], job_case(job), code=out, model=model)
            continue
        if job['op'] == 'intersect' and intersect_expected_empty(job):
            st.intersect_empty += 1
        if isinstance(out, Err):
            what = '%s raised %s on a valid input' % (job['op'], out.msg)
            if job['op'] == 'intersect' and intersect_expected_empty(job):
                what = ('intersection(mode="trim") raises %s when a AND b is empty instead of returning an empty table '
                        '(regression of the repaired defect 4451e5f)' % out.msg)
            report_violation(st, job, what, 'C06_' + {'intersect': 'intersect_trim', 'total': 'total_size'}.get(job['op'], job['op']),
                             out, None)
            continue
        bad = oracle(job, out)
        if bad is not None:
            clause, what, expected = bad
            report_violation(st, job, what, clause, out, expected)
            continue
        if code != model:
            ck.tie_break('model differs from the code (%s)' % job['op'], job_case(job), code=out, model=model)


def intersect_expected_empty(job):
    A, B = by_chrom(job['a']), by_chrom(job['b'])
    for c in A:
        if c in B:
            pts = points(A[c], B[c])
            if any(x and y for x, y in zip(bitmap(A[c], pts), bitmap(B[c], pts))):
                return False
    return True


# ----------------------------------------------------------------------------
# generators

GENES = ['A', 'B', 'A', 'C']


ACCS = ['p', 'q', 'p']
STRANDS = ['+', '-', '+', '+']


def table_from(ivs, chrom='chr1', genes=GENES, tag0=1):
    return [(chrom, lo, hi, genes[i % len(genes)], tag0 + i, ACCS[i % 3], STRANDS[(i + tag0) % 4], 0.25 * (1 + (i + tag0) % 5), 1 + i)
            for i, (lo, hi) in enumerate(ivs)]


def intervals_over(n):
    return [(i, j) for i in range(n + 1) for j in range(i + 1, n + 1)]


def multisets(ivs, k):
    for m in range(k + 1):
        for t in itertools.combinations_with_replacement(ivs, m):
            yield list(t)


VARIANTS = ('one', 'chr2', 'gene')


def variant_tables(a_ivs, b_ivs, variant, idx):
    """the three variants of the enumerated scope: one chromosome; rows on a second
    chromosome (in both tables / only a / only b, rotating); a gene column."""
    a = table_from(a_ivs)
    b = table_from(b_ivs, genes=['x', 'y', 'x'], tag0=7)
    cols = 'plain'
    if variant == 'chr2':
        k = idx % 3
        if k in (0, 1):
            a = a + table_from([(1, 3)], 'chr2', tag0=50)
        if k in (0, 2):
            b = b + table_from([(2, 4)], 'chr2', genes=['z'], tag0=60)
    elif variant == 'gene':
        cols = ('gene', 'gene+tag', 'full', 'full')[idx % 4]
    return a, b, cols


def unary_jobs(a, cols, hi, stream, cls, quick=True):
    """all unary operations on one table in the enumerated scope (coordinates 0..hi)."""
    jobs = []
    base = {'a': a, 'cols': cols, 'stream': stream, 'cls': cls}
    chroms = list(by_chrom(a))
    for bp in ((None, 1, 2) if quick else (None, 0, 1, 2, 3)):
        jobs.append(dict(base, op='merge', bp=bp))
    jobs.append(dict(base, op='merge', bp=-1, stream='edge', cls='bp<0'))
    jobs.append(dict(base, op='flatten'))
    if cols != 'plain':
        jobs.append(dict(base, op='flatten', combiner='explicit', compare='coords'))
    for avg in (1, 2, 3):
        for mn in (None, 1, 2, 3):
            jobs.append(dict(base, op='subdivide', avg=avg, mn=mn))
    for bp in (-2, -1, 0, 1, 2):
        for size in (None, hi - 2, hi):
            jobs.append(dict(base, op='resize', bp=bp, sizes=None if size is None else {c: size for c in chroms}))
    jobs.append(dict(base, op='total'))
    return jobs


def exhaustive(st, n, ka, kb, rotate):
    """every pair (multiset of <= ka intervals, multiset of <= kb intervals) over 0..n.
    rotate=False: all three variants for every pair; True: one variant per pair, rotating."""
    ivs = intervals_over(n)
    As = list(multisets(ivs, ka))
    Bs = list(multisets(ivs, kb))
    npairs = 0
    # unary operations on every table of either side
    seen = set()
    jobs = []
    for t in As + Bs:
        key = tuple(t)
        if key in seen:
            continue
        seen.add(key)
        for vi, variant in enumerate(VARIANTS):
            a, _, cols = variant_tables(t, [], variant, len(seen))
            if variant == 'chr2' and len(seen) % 3 == 2:
                a = a + table_from([(1, 3), (2, 4)], 'chr2', tag0=50)
            jobs.extend(unary_jobs(a, cols, n, 'exhaustive', 'exh', quick=(st.ck.tier == 'quick')))
        if len(jobs) > 20000:
            evaluate(st, jobs)
            jobs = []
    evaluate(st, jobs)
    jobs = []
    idx = 0
    for ia, ai in enumerate(As):
        for ib, bi in enumerate(Bs):
            idx += 1
            npairs += 1
            vs = (VARIANTS[idx % 3],) if rotate else VARIANTS
            for variant in vs:
                a, b, cols = variant_tables(ai, bi, variant, idx // 3 if rotate else idx)
                base = {'a': a, 'b': b, 'cols': cols, 'stream': 'exhaustive', 'cls': 'exh'}
                jobs.append(dict(base, op='subtract'))
                jobs.append(dict(base, op='intersect'))
        if len(jobs) > 24000:
            evaluate(st, jobs)
            jobs = []
    evaluate(st, jobs)
    return len(As), len(Bs), npairs


def rand_len(rng, scale):
    return rng.choice([1, 1, 2, 3, rng.randint(1, 10), rng.randint(1, max(1, scale // 50)), rng.randint(1, max(1, scale // 5))])


def rand_chrom_rows(rng, k, scale, zero_width=False):
    """k intervals on one chromosome with coordinates in [0, scale], biased to
    duplicates / abutting / overlapping / nested / shared endpoints; sorted by (lo, hi)."""
    rows = []
    top = 0
    for _ in range(k):
        if not rows or rng.random() < 0.25:
            lo = top + rng.choice([0, 1, 1, 2, rng.randint(1, max(1, scale // 20))]) if rows else rng.choice([0, 0, 1, rng.randint(0, scale // 2)])
            hi = lo + rand_len(rng, scale)
        else:
            plo, phi = rng.choice(rows[-3:])
            kind = rng.choice(['dup', 'abut', 'overlap', 'nest', 'same_lo', 'same_hi', 'contain', 'abut_top', 'overlap1'])
            if phi <= plo and kind in ('overlap', 'nest', 'same_hi', 'overlap1'):
                kind = 'abut'
            if kind == 'dup':
                lo, hi = plo, phi
            elif kind == 'abut':
                lo, hi = phi, phi + rand_len(rng, scale)
            elif kind == 'abut_top':
                lo, hi = top, top + rand_len(rng, scale)
            elif kind == 'overlap':
                lo = rng.randint(plo, phi - 1)
                hi = phi + rand_len(rng, scale)
            elif kind == 'overlap1':
                lo, hi = phi - 1, phi + rand_len(rng, scale)
            elif kind == 'nest':
                lo = rng.randint(plo, phi - 1)
                hi = rng.randint(lo + 1, phi)
            elif kind == 'same_lo':
                lo, hi = plo, plo + rand_len(rng, scale)
            elif kind == 'same_hi':
                lo, hi = rng.randint(max(0, plo - 3), phi - 1), phi
            else:
                lo, hi = max(0, plo - rng.randint(0, 3)), phi + rng.randint(0, 3)
        if zero_width and rng.random() < 0.3:
            lo = max(lo, 1)
            hi = lo
        lo, hi = min(lo, scale - (0 if zero_width else 1)), min(hi, scale)
        if hi <= lo and not zero_width:
            lo, hi = max(0, hi - 1), max(1, hi)
        rows.append((lo, hi))
        top = max(top, hi)
    rows.sort()
    return rows


def rand_near_rows(rng, k, ref, scale, zero_width=False):
    """k intervals whose endpoints sit on / next to the endpoints of `ref` (the proofs'
    case splits compare keeper ends with excluded ends), sorted by (lo, hi)."""
    ends = sorted({e for r in ref for e in r}) or [0, scale // 2, scale]
    rows = []
    for _ in range(k):
        def pick():
            return min(scale, max(0, rng.choice(ends) + rng.choice([0, 0, 0, -1, 1, rng.randint(-5, 5)])))
        if rows and rng.random() < 0.3:
            plo, phi = rng.choice(rows)
            kind = rng.choice(['dup', 'nest', 'overlap', 'abut'])
            if kind == 'dup':
                lo, hi = plo, phi
            elif kind == 'nest':
                lo = rng.randint(plo, phi - 1) if phi > plo else plo
                hi = rng.randint(lo + 1, phi) if phi > lo else lo
            elif kind == 'overlap':
                lo = rng.randint(plo, max(plo, phi - 1))
                hi = phi + rng.randint(1, 5)
            else:
                lo, hi = phi, phi + rng.randint(1, 5)
        else:
            x, y = pick(), pick()
            lo, hi = min(x, y), max(x, y)
        if zero_width and rng.random() < 0.3:
            lo = max(lo, 1)
            hi = lo
        elif hi <= lo:
            hi = lo + 1
        rows.append((lo, min(hi, scale + 5)))
    rows = [(lo, hi) for lo, hi in rows if lo < hi or (zero_width and lo == hi and lo > 0)]
    rows.sort()
    return rows


CHROMS = ['chr1', 'chr2', 'chrX']
GENE_POOL = ['A', 'B', 'C', 'TP53', 'A', '-', 'BRCA1']
ACC_POOL = ['NM_1', 'NM_2', 'NM_1', '']
# chromosome names as the slow path of merge() / flatten() orders them: by name first, then stably by sorter_chrom
NAME_SETS = [['chr1', 'chr2', 'chrX'], ['chr2', 'chr10', 'chr1'], ['1', '10', '2'], ['chrX', 'chrY', 'chr9'],
             ['chrM', 'chr1', 'chr1_gl000191_random'], ['chrUn_a', 'chr3', 'chr22'], ['X', '7', 'MT'], ['chr1', 'Chr1', 'CHR2']]


def attach(rng, chrom, ivs, tag0):
    return [(chrom, lo, hi, rng.choice(GENE_POOL), tag0 + i, rng.choice(ACC_POOL), rng.choice('++-.'), 0.25 * rng.randint(0, 12),
             rng.randint(0, 9)) for i, (lo, hi) in enumerate(ivs)]


def interleave(rng, rows):
    """mix the chromosomes of a table while keeping each chromosome's own rows in order"""
    d = by_chrom_rows(rows)
    res = []
    while d:
        c = rng.choice(list(d))
        res.append(d[c].pop(0))
        if not d[c]:
            del d[c]
    return res


def by_chrom_rows(rows):
    d = {}
    for r in rows:
        d.setdefault(r[0], []).append(r)
    return d


def random_pair(rng, edge=False):
    """a pair of tables (each chromosome's rows sorted by (start, end), chromosome blocks in the order of the name set,
    which need not be the sorted one) + column sets."""
    scale = rng.choice([8, 12, 30, 100, 1000, 10 ** 4, 10 ** 6, 10 ** 6])
    maxrows = rng.choice([2, 4, 8, 16, 40])
    na = rng.randint(0 if rng.random() < 0.05 else 1, maxrows)
    nb = rng.randint(0 if rng.random() < 0.05 else 1, maxrows)
    names = CHROMS if rng.random() < 0.4 else rng.choice(NAME_SETS)
    layout = rng.choice(['same1', 'same1', 'same2', 'a_more', 'b_more', 'disjoint_chroms', 'three', 'three_all'])
    n0, n1, n2 = names
    ca = {'same1': [n0], 'same2': [n0, n1], 'a_more': [n0, n1], 'b_more': [n0],
          'disjoint_chroms': [n0], 'three': [n0, n1, n2], 'three_all': [n0, n1, n2]}[layout]
    cb = {'same1': [n0], 'same2': [n0, n1], 'a_more': [n1], 'b_more': [n0, n2],
          'disjoint_chroms': [n1], 'three': [n0, n2], 'three_all': [n2, n0, n1]}[layout]
    a, b = [], []
    refs = {}
    for c in ca:
        k = max(0, na // len(ca) + rng.choice([0, 0, 1]))
        ivs = rand_chrom_rows(rng, k, scale, zero_width=edge)
        refs[c] = ivs
        a += attach(rng, c, ivs, 100 * (names.index(c) + 1))
    for c in cb:
        k = max(0, nb // len(cb) + rng.choice([0, 0, 1]))
        if rng.random() < 0.7:
            ivs = rand_near_rows(rng, k, refs.get(c, []), scale, zero_width=edge)
        else:
            ivs = rand_chrom_rows(rng, k, scale, zero_width=edge)
        b += attach(rng, c, ivs, 500 + 100 * names.index(c))
    a, b = a[:40], b[:40]
    cols = rng.choice(['plain', 'gene', 'gene+tag', 'full', 'full'])
    bcols = rng.choice([cols, 'plain', 'gene+tag', 'full'])
    return a, b, cols, bcols, scale


def random_jobs(rng, edge=False):
    a, b, cols, bcols, scale = random_pair(rng, edge)
    stream = 'edge' if edge else 'valid'
    cls = 'zero-width' if edge else 'rand'
    base = {'a': a, 'cols': cols, 'stream': stream, 'cls': cls}
    jobs = []
    # subtract looks the rows of b up per chromosome (b's chromosomes may interleave, a's rows may come in any order);
    # the trimmed intersection looks the rows of a up (a's chromosomes may interleave, b's rows in any order)
    sa, sb, ia, ib, bcls = a, b, a, b, cls
    if not edge and rng.random() < 0.25:
        bcls = 'interleaved'
        sa = list(a)
        rng.shuffle(sa)
        sb = interleave(rng, b)
        ia = interleave(rng, a)
        ib = list(b)
        rng.shuffle(ib)
    jobs.append(dict(base, op='subtract', a=sa, b=sb, bcols=bcols, cls=bcls))
    jobs.append(dict(base, op='intersect', a=ia, b=ib, bcols=bcols, cls=bcls))
    # unary operations also see shuffled tables (merge and flatten sort internally;
    # resize and total_range_size do not care) -- never with zero-width rows
    au = a
    shuffled = False
    if not edge and rng.random() < 0.3:
        au = list(a)
        rng.shuffle(au)
        shuffled = True
    ubase = dict(base, a=au, cls=('shuffled' if shuffled else cls))
    bp = rng.choice([None, 0, 0, 1, 1, 2, 3, rng.randint(1, max(2, scale // 10))])
    jobs.append(dict(ubase, op='merge', bp=bp))
    if rng.random() < 0.3:
        jobs.append(dict(ubase, op='merge', bp=-rng.choice([1, 2, rng.randint(1, max(2, scale // 10))]), stream='edge', cls='bp<0'))
    jobs.append(dict(ubase, op='flatten'))
    if cols != 'plain' and rng.random() < 0.3:
        jobs.append(dict(ubase, op='flatten', combiner='explicit', compare='coords'))
    jobs.append(dict(ubase, op='total'))
    if shuffled or rng.random() < 0.15:
        # GenomicArray.sort on the shuffled table (rows with equal keys differ in their other fields: stability)
        jobs.append(dict(ubase, op='sort'))
    # subdivide: avg chosen so that no region gets more than ~300 bins; sizes around span/k and ties (.5)
    A = by_chrom(a)
    spans = [e - s for c in A for (s, e) in runs_of([r for r in A[c] if r[0] < r[1]])] or [1]
    smax = max(spans)
    sp = rng.choice(spans)
    avg = max(1, smax // 300, rng.choice([1, 2, 3, sp, max(1, sp // 2), max(1, sp // 3), max(1, (2 * sp) // 3), max(1, (2 * sp) // 5),
                                         sp + 1, max(1, sp - 1), rng.randint(1, max(1, smax))]))
    mn = rng.choice([None, 0, 1, sp, sp + 1, max(0, sp - 1), rng.randint(0, max(1, smax))])
    jobs.append(dict(base, op='subdivide', avg=avg, mn=mn))
    # resize: amounts around the row lengths (rows shrinking to exactly nothing), sizes around the ends
    lens = [r[2] - r[1] for r in a] or [1]
    ln = rng.choice(lens)
    rbp = rng.choice([0, 1, -1, 2, -2, ln // 2, -(ln // 2), -((ln + 1) // 2), -(ln // 2) - 1, ln, -ln, rng.randint(-scale, scale)])
    sizes = None
    if rng.random() < 0.6:
        sizes = {}
        for c in by_chrom(au):
            ends = [r[1] for r in A.get(c, [])] + [r[0] for r in A.get(c, [])] or [0]
            sizes[c] = max(0, rng.choice(ends) + rng.choice([0, 0, 1, -1, rbp, -rbp, rng.randint(0, scale)]))
    elif rng.random() < 0.2:
        sizes = {}
    jobs.append(dict(ubase, op='resize', bp=rbp, sizes=sizes))
    if sizes and len(sizes) > 1 and rng.random() < 0.3:
        # a chromosome the mapping lacks (outside resize_ranges' contract): its limit is NaN, which clip ignores
        part = dict(sizes)
        del part[rng.choice(sorted(part))]
        jobs.append(dict(ubase, op='resize', bp=rbp, sizes=part, stream='edge', cls='size-missing'))
    return jobs


# ----------------------------------------------------------------------------
# corpus: inputs of the defects already repaired in /repo, and minimal cases per clause

def builtin_corpus():
    jobs = []
    # fixed 4451e5f: the trimmed intersection of tables with nothing in common raised ValueError
    # (disjoint rows; no shared chromosome; an empty table)
    jobs.append({'op': 'intersect', 'a': [('chr1', 0, 1, 'A', 1)], 'b': [('chr1', 2, 3, 'x', 1)], 'cols': 'plain', 'stream': 'valid',
                 'cls': 'corpus'})
    jobs.append({'op': 'intersect', 'a': [('chr1', 0, 5, 'A', 1)], 'b': [('chr2', 0, 5, 'x', 1)], 'cols': 'gene+tag', 'stream': 'valid',
                 'cls': 'corpus'})
    jobs.append({'op': 'intersect', 'a': [('chr1', 0, 5, 'A', 1)], 'b': [], 'cols': 'gene', 'stream': 'valid', 'cls': 'corpus'})
    # fixed c941c28: [0,100) - {[10,90),[20,30)} returned [0,10),[30,100)
    a = [('chr1', 0, 100, 'A', 1)]
    b = [('chr1', 10, 90, 'x', 1), ('chr1', 20, 30, 'y', 2)]
    for cols in ('plain', 'gene+tag'):
        jobs.append({'op': 'subtract', 'a': a, 'b': b, 'cols': cols, 'stream': 'valid', 'cls': 'corpus'})
        jobs.append({'op': 'intersect', 'a': a, 'b': b, 'cols': cols, 'stream': 'valid', 'cls': 'corpus'})
    # nested + overlapping + duplicate excludes reaching over both edges
    a2 = [('chr1', 5, 50, 'A', 1), ('chr1', 40, 60, 'B', 2), ('chr2', 0, 9, 'C', 3)]
    b2 = [('chr1', 0, 10, 'x', 1), ('chr1', 0, 10, 'x', 1), ('chr1', 8, 30, 'y', 2), ('chr1', 12, 14, 'z', 3), ('chr1', 29, 45, 'w', 4),
          ('chr1', 44, 70, 'v', 5), ('chrX', 1, 2, 'u', 6)]
    jobs.append({'op': 'subtract', 'a': a2, 'b': b2, 'cols': 'gene+tag', 'stream': 'valid', 'cls': 'corpus'})
    jobs.append({'op': 'intersect', 'a': a2, 'b': b2, 'cols': 'gene+tag', 'stream': 'valid', 'cls': 'corpus'})
    # fixed 0080ed0: flatten() with the default gene-name combiner raised TypeError
    f = [('chr1', 0, 5, 'A', 1), ('chr1', 3, 8, 'B', 2), ('chr1', 3, 8, 'A', 3), ('chr1', 8, 9, 'C', 4), ('chr1', 20, 30, 'D', 5),
         ('chr2', 1, 2, 'E', 6), ('chr2', 1, 2, 'E', 7)]
    for cols in ('gene', 'gene+tag'):
        jobs.append({'op': 'flatten', 'a': f, 'cols': cols, 'stream': 'valid', 'cls': 'corpus'})
        jobs.append({'op': 'merge', 'a': f, 'bp': None, 'cols': cols, 'stream': 'valid', 'cls': 'corpus'})
        jobs.append({'op': 'merge', 'a': f, 'bp': 1, 'cols': cols, 'stream': 'valid', 'cls': 'corpus'})
        jobs.append({'op': 'total', 'a': f, 'cols': cols, 'stream': 'valid', 'cls': 'corpus'})
        jobs.append({'op': 'subdivide', 'a': f, 'avg': 3, 'mn': 2, 'cols': cols, 'stream': 'valid', 'cls': 'corpus'})
        jobs.append({'op': 'resize', 'a': f, 'bp': -2, 'sizes': {'chr1': 25, 'chr2': 2}, 'cols': cols, 'stream': 'valid', 'cls': 'corpus'})
    # subdivide ties (round half to even): span 5 / avg 2 = 2.5 -> 2 bins; span 7 / avg 2 = 3.5 -> 4 bins
    t = [('chr1', 0, 5, 'A', 1), ('chr1', 10, 17, 'B', 2), ('chr1', 20, 21, 'C', 3)]
    jobs.append({'op': 'subdivide', 'a': t, 'avg': 2, 'mn': None, 'cols': 'gene', 'stream': 'valid', 'cls': 'corpus'})
    jobs.append({'op': 'subdivide', 'a': t, 'avg': 10, 'mn': 5, 'cols': 'gene', 'stream': 'valid', 'cls': 'corpus'})
    return jobs


def load_corpus():
    jobs = builtin_corpus()
    path = os.path.join(vlib.VERIF, 'corpus', 'c06.json')
    if os.path.exists(path):
        for j in json.load(open(path)):
            j = dict(j)
            for key in ('a', 'b'):
                if key in j:
                    j[key] = [tuple(r) for r in j[key]]
            j.setdefault('stream', 'valid')
            j.setdefault('cls', 'corpus')
            jobs.append(j)
    return jobs


# ----------------------------------------------------------------------------

UNPROVED = []   # filled from the theorem list at run time


def run(ck, scratch):
    quick = ck.tier == 'quick'
    ck.rule = ('corpus (inputs of the repaired subtract / flatten defects) first; then the enumerated scope: every pair of multisets of '
               'intervals over 0..n (quick: <=2 x <=2 over 0..4, each pair in three variants: one chromosome / rows on a second chromosome '
               'in both, only a, only b / gene (+tag) column; thorough additionally <=2 x <=3 over 0..6, one rotating variant per pair) for '
               'subtract and intersection(trim), and every table of either side for merge(bp None,1,2; thorough also 0,3) / flatten (default and explicit '
               'combiner) / subdivide(avg 1..3 x min None,1,2,3) / resize_ranges(bp -2..2 x sizes None,n-2,n) / total_range_size; then '
               'random pairs (1 500 quick / 50 000 thorough; <=40 rows, coordinates to 10^6; duplicates, abutting, overlapping by one, nested, shared ends, second table '
               'placed on/next to the first one\'s endpoints, extra columns up to the full set gene / accession / strand / weight / probes + a combiner-less tag, '
               'chromosomes in only one table, chromosome name sets whose name order, sorter_chrom order and table order all differ (chr2 chr10 chr1 / 1 10 2 / chrM chr1 chr1_gl.. / X 7 MT / chr1 Chr1 CHR2), '
               'shuffled rows for the unary operations, interleaved chromosomes and shuffled rows for subtract / intersection); then an edge stream (zero-width rows, bp < 0) compared model-vs-code only. Every case: code vs per-base bitmap '
               'oracle (all bases / all elementary segments), vs the extracted GENOME-LEVEL model (whole multi-chromosome tables, rows compared in order, every column: gene, accession, strand, weight, probes and a combiner-less tag), the order of the chromosome blocks as coded, the payload rule of merge / flatten stated on the covered input rows, and extracted covers_b vs the bitmap. '
               'non-trivial = the operation changes the table (rows merged / split / removed / clipped; a AND b non-empty for intersect); '
               'distinct by case hash')
    if not ck.build_status.get('driver_ok'):
        raise RuntimeError('model driver unavailable')
    workers = int(os.environ.get('VERIF_WORKERS', '0')) or max(2, min(14, (os.cpu_count() or 4) - 2))
    runner = Runner(workers)
    st = State(ck, runner)
    try:
        evaluate(st, load_corpus())
        na, nb, npairs = exhaustive(st, 4, 2, 2, rotate=False)
        scope = ['pairs of multisets of <=2 x <=2 intervals over 0..4: %d x %d = %d pairs x 3 variants' % (na, nb, npairs)]
        if not quick:
            na, nb, npairs = exhaustive(st, 6, 2, 3, rotate=True)
            scope.append('pairs of multisets of <=2 x <=3 intervals over 0..6: %d x %d = %d pairs, one rotating variant each' % (na, nb, npairs))
        ck.extra['exhaustive_scope'] = '; '.join(scope)
        ck.exhaustive = True
        nrand = 1500 if quick else 50000
        jobs = []
        for i in range(nrand):
            jobs.extend(random_jobs(ck.rng))
            if len(jobs) > 16000:
                evaluate(st, jobs)
                jobs = []
        evaluate(st, jobs)
        jobs = []
        for i in range(150 if quick else 4000):
            jobs.extend(random_jobs(ck.rng, edge=True))
        # empty tables
        for cols in COLSETS:
            e = []
            one = [('chr1', 1, 4, 'A', 1)]
            for op, extra in (('merge', {'bp': 0}), ('flatten', {}), ('total', {}), ('subdivide', {'avg': 2, 'mn': 0}),
                              ('resize', {'bp': 1, 'sizes': None})):
                jobs.append(dict({'op': op, 'a': e, 'cols': cols, 'stream': 'edge', 'cls': 'empty'}, **extra))
            jobs.append({'op': 'subtract', 'a': one, 'b': e, 'cols': cols, 'stream': 'edge', 'cls': 'empty'})
            jobs.append({'op': 'subtract', 'a': e, 'b': one, 'cols': cols, 'stream': 'edge', 'cls': 'empty'})
        evaluate(st, jobs)
    finally:
        runner.close()
    ck.extra['spec_crosschecks'] = st.spec_checks
    ck.extra['intersect_cases_with_empty_result'] = st.intersect_empty
    ck.extra['violations_by_clause'] = {'%s/%s' % (k[0], k[1]): v for k, v in st.reported.items()}
    ck.explanation = ('exhaustive: true refers to the enumerated scopes only (coverage.exhaustive_scope); the theorems of Props/C06.v '
                      'hold for all tables, the correspondence ties the model to the code on the generated inputs')
    ck.unproved_remainder = unproved_remainder(ck)


ALL_CLAUSES = {
    'C06_subtract': 'cover of a.subtract(b) = a and not b for arbitrary b; pieces carry the source row\'s payload, sorted and disjoint per row',
    'C06_merge': 'merge(0): cover preserved, output sorted, disjoint and non-abutting',
    'C06_merge_bp': 'merge(bp>=0): cover preserved, consecutive outputs overlap by < bp',
    'C06_intersect_trim': 'cover of intersection(mode=trim) = a and b',
    'C06_flatten': 'flatten: cover preserved, pieces disjoint, cut at every input boundary',
    'C06_resize': 'resize_ranges: both ends moved by bp, clipped to [0, size], rows shrinking to nothing dropped',
    'C06_subdivide': 'subdivide: max(1, round(len/avg)) consecutive equal (+-1) bins covering each merged region of at least min size',
    'C06_total_size': 'total_range_size = number of covered bases',
    'C06_genome_merge': 'merge on a multi-chromosome table: per chromosome the proved merge, blocks ordered by name then sorter_chrom',
    'C06_genome_flatten': 'flatten on a multi-chromosome table: per chromosome the proved flatten, same block order',
    'C06_genome_subtract': 'subtract on multi-chromosome tables: per chromosome; a chromosome only in the table is untouched; first-appearance order',
    'C06_genome_intersect': 'trimmed intersection on multi-chromosome tables: per chromosome; a chromosome in only one table is dropped',
    'C06_genome_subdivide': 'subdivide on a multi-chromosome table = per chromosome',
    'C06_genome_resize': 'resize_ranges on a multi-chromosome table: row by row, each row clipped at its own chromosome size',
    'C06_genome_total': 'total_range_size = sum over the chromosomes',
    'C06_genome_sort': 'GenomicArray.sort: per chromosome the stable (start, end) sort; stable; chromosomes in sorter_chrom order',
    'C06_merge_payload': 'merge: gene = comma-join of the distinct names of exactly the covered input rows in row order; sums; strand; first row',
    'C06_flatten_payload': 'flatten: the same rule over the input rows containing the piece',
    'C06_combiners': 'get_combiners defaults by column name; join_strings / first_of / last_of / max / sum / merge_strands / make_const',
}


def unproved_remainder(ck):
    have = set(ck.build_status.get('theorems') or [])
    out = []
    for name, what in ALL_CLAUSES.items():
        if not any(t == name or t.startswith(name + '_') for t in have):
            out.append('%s (%s): not proved in Coq; checked by the bitmap oracle on every generated case only' % (name, what))
    out.append('pandas internals below the genome-level model (that sort_values / groupby(sort=False) / reindex / from_records / clip do '
               'what the model states: stable (name, start, end) sort, groups in order of first appearance, stable re-sort by sorter_chrom, '
               'NaN limits ignored by clip; searchsorted selection of the overlapping rows, proved in C07) are exercised by the '
               'correspondence on whole multi-chromosome tables (rows compared in order, every column), not proved')
    out.append('merge(stranded=True) (grouping by chromosome and strand) and user-supplied combiners other than a gene function are not '
               'modelled; python float summation order of the weight column is modelled exactly (weights in the generators are dyadic)')
    out.append('float cut points of subdivide: int(i * (span / nbins)) is an oracle; its contract is checked on every supplied point')
    return out


def replay(ck, body):
    job = body.get('case')
    if not isinstance(job, dict) or 'op' not in job:
        print(body)
        return 0
    for key in ('a', 'b'):
        if key in job:
            job[key] = [tuple(r) for r in job[key]]
    out = run_job(job)
    print('case:', json.dumps(vlib.jsonable(job)))
    print('code:', vlib.jsonable(out))
    if isinstance(out, Err):
        print('replay: the code raises %s' % out.msg)
        return 1
    bad = oracle(job, out)
    if bad is not None:
        print('replay: still violates %s: %s (expected %r)' % bad)
        return 1
    reqs = model_requests(job)
    res = [vlib.model_call(e, i) for (e, i, k) in reqs]
    model = model_assemble(job, reqs, res)
    print('model:', vlib.jsonable(model))
    if code_as_model_shape(job, out) != model:
        print('replay: the direct oracle holds but the code differs from the model')
        return 1
    print('replay: no longer failing')
    return 0
