"""C04 -- fix subtracts the reference bin-for-bin by coordinate and normalises soundly.

Correspondence: cnvlib.fix.do_fix (and get_edge_bias, smoothing.rolling_median, mask_bad_bins,
center_all, the autosome pattern) against the extracted Coq model (Model/Fix.v through
Entries/C04.v).  Direct oracles, written independently in Python Fractions and evaluated on the
CODE's output: key set + genomic order, errors, "sample - reference - rolling medians + one constant
per class" (covers the constant-shift and the window clause), centred, weight range and
monotonicity; depth and row-permutation invariance by running the code twice."""
import os, json, math, random
from fractions import Fraction as F
import numpy as np
import pandas as pd
import vlib
from vlib import Err

LEVEL = 'proof'
HERE = os.path.dirname(os.path.abspath(__file__))
SEED = 0xA5EED
INSERT = 250            # params.INSERT_SIZE as the docstrings of edge_losses/edge_gains use it
TOL = 1e-9

SIG_NAN = 'c04-weight-nan-no-usable-target'
# candidate finding (proved: Props/C04.v C04_centred_crossing_refuted): reported as KNOWN-FINDING once it is recorded in
# known_findings.json under this signature, until then noted in the evidence (coverage.candidate_finding)
SIG_CROSS = 'c04-centred-null-crossing'
CROSS_NAME = 'null-bin-crosses-cutoff-under-final-shift'


# ----------------------------------------------------------------------------------------------
# tables

def cna(rows, cols):
    from cnvlib.cnary import CopyNumArray as CNA
    if rows:
        df = pd.DataFrame([tuple(r) for r in rows], columns=cols)
    else:
        dt = {'chromosome': str, 'start': int, 'end': int, 'gene': str}
        df = pd.DataFrame({c: pd.Series([], dtype=dt.get(c, float)) for c in cols})
    return CNA(df, {'sample_id': 'samp'})


def scols(case):
    return ['chromosome', 'start', 'end', 'gene', 'log2'] + (['depth'] if case['sdepth'] else [])


def rcols(case):
    c = ['chromosome', 'start', 'end', 'gene', 'log2']
    for k in ('depth', 'gc', 'rmask'):
        if case['r' + k]:
            c.append(k)
    return c + ['spread']


def srow_tuple(case, r):
    # r = [chrom, lo, hi, gene, log2, depth]
    return tuple(r[:5]) + ((r[5],) if case['sdepth'] else ())


def rrow_tuple(case, r):
    # r = [chrom, lo, hi, gene, log2, depth, gc, rmask, spread]
    t = list(r[:5])
    if case['rdepth']:
        t.append(r[5])
    if case['rgc']:
        t.append(r[6])
    if case['rrmask']:
        t.append(r[7])
    t.append(r[8])
    return tuple(t)


def run_code(case, target=None, anti=None, ref=None):
    from cnvlib import fix
    target = case['target'] if target is None else target
    anti = case['anti'] if anti is None else anti
    ref = case['ref'] if ref is None else ref
    t = cna([srow_tuple(case, r) for r in target], scols(case))
    a = cna([srow_tuple(case, r) for r in anti], scols(case))
    r = cna([rrow_tuple(case, r) for r in ref], rcols(case))
    try:
        out = fix.do_fix(t, a, r, do_gc=case['do_gc'], do_edge=case['do_edge'], do_rmask=case['do_rmask'],
                         do_cluster=False, smoothing_window_fraction=case['frac'])
    except ValueError as e:
        return Err('ValueError: ' + str(e).split('\n')[0][:60])
    except AssertionError as e:
        return Err('Assertion')
    d = out.data
    return [(str(c), int(s), int(e), str(g), float(l), float(w))
            for c, s, e, g, l, w in zip(d['chromosome'], d['start'], d['end'], d['gene'], d['log2'], d['weight'])]


# ----------------------------------------------------------------------------------------------
# independent statement of the clauses

def chrom_rank(name):
    """genomic order of chromosome names: numbered ones by number, then X, then Y, then the rest"""
    n = name[3:] if name.lower().startswith('chr') else name
    if n.isdigit():
        return (0, int(n), '')
    if n == 'X':
        return (1, 0, '')
    if n == 'Y':
        return (2, 0, '')
    return (3, 0, n)


def genomic_key(k):
    return (chrom_rank(k[0]), k[1], k[2])


def is_autosome(name):
    n = name[3:] if name.startswith('chr') else name
    return n.isdigit() and n.isascii() and len(n) > 0


def ref_passes(case, r):
    """the literal filter of the property text"""
    if not (-5 <= r[4] <= 5):
        return False
    if not (r[8] <= 1):
        return False
    if case['rdepth'] and not (r[5] > 0):
        return False
    if case['rgc'] and not (0.3 <= r[6] <= 0.7):
        return False
    return True


def fmedian(xs):
    s = sorted(xs)
    n = len(s)
    return s[n // 2] if n % 2 else (s[n // 2 - 1] + s[n // 2]) / 2


def centre_stat(rows, low):
    """median of the autosomal per-chromosome medians over the rows not flagged low"""
    sel = [r for r, lo in zip(rows, low) if not lo]
    if any(is_autosome(r[0]) for r in sel):
        sel = [r for r in sel if is_autosome(r[0])]
    if not sel:
        return None
    by = {}
    for r in sel:
        by.setdefault(r[0], []).append(F(r[4]))
    return fmedian([fmedian(v) for v in by.values()])


def mirror_get(x, i):
    n = len(x)
    if i < 0:
        return x[-i - 1]
    if i >= n:
        return x[2 * n - 1 - i]
    return x[i]


def rolling_median_spec(x, wing):
    """median of x[j-wing .. j+wing] with the signal mirrored at both ends (edge value repeated)"""
    if len(x) < 2:
        return list(x)
    return [fmedian([mirror_get(x, j + k) for k in range(-wing, wing + 1)]) for j in range(len(x))]


def width_to_wing(n, frac):
    """half-window for a fractional width: ceil(n*frac/2), at least 3, at most n-1"""
    w = math.ceil(F(n) * F(frac) / 2)
    return min(max(w, 3), n - 1)


def edge_bias_spec(keys):
    """edge formula of the docstrings, per chromosome, on bins in genomic order (exact)"""
    out = []
    i = INSERT
    n = len(keys)
    for j, (c, s, e) in enumerate(keys):
        t = e - s
        loss = F(i, 2 * t)
        if t < i:
            loss -= F((i - t) ** 2, 2 * i * t)
        gain = F(0)
        for nb in (j - 1, j + 1):
            if 0 <= nb < n and keys[nb][0] == c:
                g = (s - keys[nb][2]) if nb < j else (keys[nb][1] - e)
                if g < i:
                    g = max(g, 0)
                    gg = F((i - g) ** 2, 4 * i * t)
                    if t + g < i:
                        gg -= F((i - t - g) ** 2, 4 * i * t)
                    gain += gg
        out.append(gain - loss)
    return out


def numpy_perm(n):
    np.random.seed(SEED)
    return [int(i) for i in np.random.permutation(pd.RangeIndex(n))]


def expected_core(case, part, perm_by_n):
    """sample - rolling medians (each enabled correction, in the covariate order) for one table
    `part` ('target'/'anti'), before the reference is subtracted, up to one additive constant.
    Returns (rows kept in genomic order, values, applied?) or None when not computable here."""
    ref = {(r[0], r[1], r[2]): r for r in case['ref']}
    rows = [r for r in case[part] if ref_passes(case, ref[(r[0], r[1], r[2])])]
    rows.sort(key=lambda r: genomic_key(r))
    if not rows:
        return [], [], False
    z = [F(r[4]) for r in rows]
    n = len(rows)
    # centre first (the "most bins have no coverage" guard looks at the centred values)
    low = [(F(r[4]) < -15) or (case['sdepth'] and r[5] == 0) for r in rows]
    c0 = centre_stat(rows, low if part == 'target' else [False] * n)
    zc = [v - c0 for v in z] if c0 is not None else z
    if sum(1 for v in zc if v > -15) <= n // 2:
        return rows, z, False
    covs = []
    refrows = [ref[(r[0], r[1], r[2])] for r in rows]
    if case['do_gc'] and case['rgc']:
        covs.append([F(r[6]) for r in refrows])
    if part == 'target' and case['do_edge']:
        # the values of the covariate are checked against the exact formula in check_units; bins whose
        # exact covariates tie may be ordered either way, so the order is taken from the floats the
        # code computes for this table
        from cnvlib import fix
        fl = fix.get_edge_bias(cna([srow_tuple(case, r) for r in rows], scols(case)), INSERT)
        covs.append([F(float(x)) for x in fl])
    if part == 'anti' and case['do_rmask'] and case['rrmask']:
        covs.append([F(r[7]) for r in refrows])
    if n < 2:
        # rolling median of a single value is that value
        for _ in covs:
            z = [F(0)]
        return rows, z, bool(covs)
    wing = width_to_wing(n, case['frac'])
    perm = perm_by_n(n)
    for cov in covs:
        order = sorted(range(n), key=lambda i: (cov[perm[i]], i))     # stable sort of the shuffled rows
        order = [perm[i] for i in order]
        xs = [z[i] for i in order]
        rm = rolling_median_spec(xs, wing)
        for pos, i in enumerate(order):
            z[i] = xs[pos] - rm[pos]
    return rows, z, bool(covs)


def near(a, b, tol=TOL):
    return abs(float(a) - float(b)) <= tol * max(1.0, abs(float(b)))


def direct_oracle(ck, case, out, label):
    """the clauses of the property on the code's output; returns False after reporting a violation"""
    ref = {}
    dup_ref = False
    for r in case['ref']:
        k = (r[0], r[1], r[2])
        dup_ref = dup_ref or k in ref
        ref.setdefault(k, r)
    tk = [(r[0], r[1], r[2]) for r in case['target']]
    ak = [(r[0], r[1], r[2]) for r in case['anti']]
    dup = len(set(tk)) < len(tk) or len(set(ak)) < len(ak) or (dup_ref and (tk or ak))
    missing = any(k not in ref for k in tk + ak)
    if dup or missing:
        if not isinstance(out, Err) or not out.msg.startswith('ValueError'):
            ck.violation('%s: duplicated / missing coordinates are not refused' % label, case,
                         code=out, expected='ValueError', clause='C04_errors')
            return False
        return True
    if isinstance(out, Err):
        ck.violation('%s: do_fix raised on a well-formed input' % label, case, code=out, expected='a table',
                     clause='C04_bins')
        return False
    # --- bins: key set and order
    exp_keys = sorted([k for k in tk + ak if ref_passes(case, ref[k])], key=genomic_key)
    got_keys = [(r[0], r[1], r[2]) for r in out]
    if got_keys != exp_keys:
        ck.violation('%s: output bins are not the sample bins whose reference bin passes the filters, in genomic order'
                     % label, case, code=got_keys, expected=exp_keys, clause='C04_bins')
        return False
    if not out:
        return True
    # --- weights
    if any(not (w == w) for r in out for w in [r[5]]):
        usable = [r for r in case['target'] if ref_passes(case, ref[(r[0], r[1], r[2])])
                  and not (r[4] < -15 or (case['sdepth'] and r[5] == 0))]
        ck.violation('%s: NaN weight' % label, case, sig=SIG_NAN if len(usable) == 0 else None,
                     code=[r[5] for r in out][:10], expected='weights in [0.0001, 1]', clause='C04_weight_range')
        return False
    bad_w = [r for r in out if not (F(1, 10000) <= F(r[5]) <= 1)]
    if bad_w:
        ck.violation('%s: weight outside [0.0001, 1]' % label, case, code=bad_w[:5], expected='0.0001 <= w <= 1',
                     clause='C04_weight_range')
        return False
    groups = {}
    for r in out:
        anti = r[3] in ('Antitarget', 'Background')
        groups.setdefault(anti, []).append((r[2] - r[1], F(ref[(r[0], r[1], r[2])][8]), r[5], r[:3]))
    for anti, g in groups.items():
        by_spread, by_size = {}, {}
        for size, sp, w, k in g:
            by_spread.setdefault(sp, []).append((size, w, k))
            by_size.setdefault(size, []).append((sp, w, k))
        for sp, l in by_spread.items():
            l.sort(key=lambda x: (x[0], x[1]))
            for p, q in zip(l, l[1:]):
                if p[0] < q[0] and q[1] < p[1] - 1e-12:
                    ck.violation('%s: a larger bin got a smaller weight' % label, case, code=[p, q],
                                 expected='weight non-decreasing in bin size', clause='C04_weight_mono')
                    return False
        for size, l in by_size.items():
            l.sort(key=lambda x: (x[0], -x[1]))
            for p, q in zip(l, l[1:]):
                if p[0] < q[0] and q[1] > p[1] + 1e-12:
                    ck.violation('%s: a larger reference spread got a larger weight' % label, case, code=[p, q],
                                 expected='weight non-increasing in spread', clause='C04_weight_mono')
                    return False
    # --- every log2 is a number
    bad = [r for r in out if r[4] != r[4] or abs(r[4]) == float('inf')]
    if bad:
        ck.violation('%s: %d output bin(s) have a log2 that is not a finite number' % (label, len(bad)), case,
                     code=[list(r) for r in bad[:5]], clause='C04_constant_shift')
        return False
    # --- centred
    dnull = [False] * len(out)
    if case['sdepth']:
        dep = {(r[0], r[1], r[2]): r[5] for r in case['target'] + case['anti']}
        dnull = [dep[(r[0], r[1], r[2])] == 0 for r in out]
    low = [(r[4] < -15) or d for r, d in zip(out, dnull)]
    cs = centre_stat(out, low)
    if cs is not None and abs(float(cs)) > TOL:
        # C04_centred_selected (always): the bins that had coverage when the centre was estimated -- those with
        # out - s >= -15 for the final shift s, i.e. an upper set by log2 of the bins with a depth -- are centred.
        # The plain clause (covered OUTPUT bins centred, C04_centred) needs that no bin crosses -15 under s.
        centred_set = None
        for th in sorted({r[4] for r, d in zip(out, dnull) if not d}):
            c2 = centre_stat(out, [d or r[4] < th for r, d in zip(out, dnull)])
            if c2 is not None and abs(float(c2)) <= TOL:
                centred_set = th
                break
        if centred_set is None:
            ck.violation('%s: output is not centred' % label, case, code=float(cs), expected=0, clause='C04_centred')
            return False
        # a bin crossed the null-coverage cut-off under the final shift (C04_centred_crossing): the covered output
        # bins are not centred although the bins the centre was estimated from are (finding SIG_CROSS)
        ck.extra['null_crossing_cases'] = ck.extra.get('null_crossing_cases', 0) + 1
        if label == 'corpus:' + CROSS_NAME:
            what = ('%s: a bin crosses the null-coverage cut-off -15 under the final centring shift; the covered output '
                    'bins have centre %s, not 0' % (label, float(cs)))
            if ck.known_match(SIG_CROSS) is not None:
                ck.violation(what, case, sig=SIG_CROSS, code=float(cs), expected=0, clause='C04_centred')
            else:
                ck.extra['candidate_finding'] = {'signature': SIG_CROSS, 'what': what, 'case': CROSS_NAME,
                                                 'proved': 'Props/C04.v C04_centred_crossing_refuted'}
    # --- values: sample - rolling medians - reference + one constant per class
    perms = {}
    def perm_by_n(n):
        if n not in perms:
            perms[n] = numpy_perm(n)
        return perms[n]
    outd = {(r[0], r[1], r[2]): r for r in out}
    for part in ('target', 'anti'):
        rows, z, applied = expected_core(case, part, perm_by_n)
        if not rows:
            continue
        diffs = [F(outd[(r[0], r[1], r[2])][4]) - (v - F(ref[(r[0], r[1], r[2])][4])) for r, v in zip(rows, z)]
        spread = max(diffs) - min(diffs)
        if float(spread) > 1e-8:
            i = max(range(len(diffs)), key=lambda j: abs(diffs[j] - fmedian(diffs)))
            clause = 'C04_window' if applied else 'C04_constant_shift'
            ck.violation('%s: %s bins are not sample - reference%s + one constant' % (
                label, part, ' - rolling median over the covariate order' if applied else ''), case,
                code={'bin': rows[i][:3], 'out': outd[tuple(rows[i][:3])][4], 'offset_of_bin': float(diffs[i]),
                      'median_offset': float(fmedian(diffs))},
                expected='the same offset for every %s bin' % part, clause=clause)
            return False
    return True


def same_output(a, b):
    if isinstance(a, Err) or isinstance(b, Err):
        return isinstance(a, Err) and isinstance(b, Err)
    if len(a) != len(b):
        return False
    for x, y in zip(a, b):
        if x[:4] != y[:4]:
            return False
        for u, v in ((x[4], y[4]), (x[5], y[5])):
            if (u != u) != (v != v):
                return False
            if u == u and abs(u - v) > 1e-9 * max(1.0, abs(u)):
                return False
    return True


# ----------------------------------------------------------------------------------------------
# model side

def model_input(case):
    """phase-A input: configuration, window fraction, oracles (numpy's permutation after seed(0xA5EED)
    for each masked table length, the float ceil of _width2wing) and the three tables"""
    n_t, n_a = masked_count(case, 'target'), masked_count(case, 'anti')
    cfg = [bool(case['sdepth']), bool(case['rdepth']), bool(case['rgc']), bool(case['rrmask']),
           bool(case['do_gc']), bool(case['do_edge']), bool(case['do_rmask'])]
    def ceil_for(n):
        return int(math.ceil(n * case['frac'] * 0.5)) if n else 0
    orc = [numpy_perm(n_t) if n_t else [], ceil_for(n_t), numpy_perm(n_a) if n_a else [], ceil_for(n_a)]
    def srow(r):
        return [r[0], r[1], r[2], r[3], float(r[4]), float(r[5])]
    def rrow(r):
        return [r[0], r[1], r[2], float(r[4]), float(r[5]), float(r[6]), float(r[7]), float(r[8])]
    return [cfg, F(case['frac']), orc, [srow(r) for r in case['target']], [srow(r) for r in case['anti']],
            [rrow(r) for r in case['ref']]]


def code_variance(res):
    """descriptives.biweight_midvariance(residuals) ** 2 as apply_weights computes it (oracle: the
    code's own library function on the model's residuals)"""
    from cnvlib import descriptives
    if not res:
        return 0.0
    v = float(descriptives.biweight_midvariance(np.array([float(x) for x in res], dtype=float))) ** 2
    return v if v == v else 0.0


def run_model(cases):
    """both phases for a batch of cases; returns per case Err or (rows, margin)"""
    ins = [model_input(c) for c in cases]
    pre = vlib.model_batch_parallel('c04_pre', ins)
    second, idx = [], []
    for i, (c, inp, p) in enumerate(zip(cases, ins, pre)):
        if isinstance(p, Err):
            continue
        sizes = sorted({r[2] - r[1] for r in c['target'] + c['anti']})
        tab = [[sz, float(np.sqrt(sz))] for sz in sizes]
        second.append(inp + [tab, code_variance(p[0]), code_variance(p[1])])
        idx.append(i)
    post = vlib.model_batch_parallel('c04_fix', second)
    res = list(pre)
    for i, q in zip(idx, post):
        res[i] = q if isinstance(q, Err) else (q, pre[i][2])
    return res


def masked_count(case, part):
    ref = {}
    for r in case['ref']:
        ref.setdefault((r[0], r[1], r[2]), r)
    n = 0
    for r in case[part]:
        rr = ref.get((r[0], r[1], r[2]))
        if rr is not None and ref_passes(case, rr):
            n += 1
    return n


def edge_order_ambiguous(case):
    """float edge covariates order the bins differently from the exact ones (ties / near ties)"""
    if not case['do_edge']:
        return False
    from cnvlib import fix
    ref = {(r[0], r[1], r[2]): r for r in case['ref']}
    rows = sorted([r for r in case['target'] if (r[0], r[1], r[2]) in ref and ref_passes(case, ref[(r[0], r[1], r[2])])],
                  key=genomic_key)
    if len(rows) < 2:
        return False
    exact = edge_bias_spec([(r[0], r[1], r[2]) for r in rows])
    fl = list(fix.get_edge_bias(cna([srow_tuple(case, r) for r in rows], scols(case)), INSERT))
    idx = sorted(range(len(rows)), key=lambda i: exact[i])
    for i, j in zip(idx, idx[1:]):
        if (exact[i] == exact[j]) != (fl[i] == fl[j]) or fl[i] > fl[j]:
            return True
    return False


def compare_model(ck, case, out, m, label):
    """code vs model on one pipeline case (the direct oracle already held)"""
    if isinstance(m, Err):
        if m.msg.startswith('oracle') or m.msg in ('decode', 'internal'):
            raise RuntimeError('model entry refused the oracles/inputs: %s on %r' % (m.msg, label))
        ok = isinstance(out, Err) and out.msg.startswith('ValueError')
        kind = {'duplicate-sample': 'Duplicated genomic coordinates in sample',
                'duplicate-reference': 'Duplicated genomic coordinates in reference',
                'missing': 'Reference is missing'}[m.msg]
        if not ok or kind not in out.msg:
            ck.tie_break('%s: model raises %s, code gives something else' % (label, m.msg), case, code=out, model=m)
        return
    if isinstance(out, Err):
        ck.tie_break('%s: code raises, model returns a table' % label, case, code=out, model='table')
        return
    rows, margin = m[0], m[1]
    mk = [(r[0], r[1], r[2], r[3]) for r in rows]
    ok_keys = mk == [r[:4] for r in out]
    if not ok_keys:
        ck.tie_break('%s: model and code disagree on the output bins' % label, case, code=[r[:3] for r in out],
                     model=[r[:3] for r in rows])
        return
    if margin < F(1, 10 ** 7) or edge_order_ambiguous(case):
        ck.float_ambiguous += 1
        return
    bad = [(c, (float(r[4]), float(r[5]))) for c, r in zip(out, rows) if not vlib.close(c[4], r[4])]
    if bad:
        ck.tie_break('%s: log2 differs between model and code' % label, case, code=bad[0][0], model=bad[0][1])
        return
    bad = [(c, (float(r[4]), float(r[5]))) for c, r in zip(out, rows) if not vlib.close(c[5], r[5], 1e-8)]
    if bad:
        ck.tie_break('%s: weight differs between model and code' % label, case, code=bad[0][0], model=bad[0][1])


# ----------------------------------------------------------------------------------------------
# generators

GRID = 1024


def g(rng, lo, hi):
    """a value on the 1/1024 grid in [lo, hi]"""
    return rng.randint(int(lo * GRID), int(hi * GRID)) / GRID


def gen_case(rng, nbins=None, **force):
    prefix = rng.choice(['chr', 'chr', ''])
    pool = ['1', '2', '3', '10', '7']
    nchrom = rng.randint(2, 5)
    names = rng.sample(pool, nchrom - 1) + ['X']
    if rng.random() < 0.15:
        names[-1] = rng.choice(pool)            # no X this time
        names = list(dict.fromkeys(names))
    names = [prefix + n for n in names]
    nbins = nbins or rng.choice([20, 24, 30, 40, 60, 100, 150, 200, 300])
    case = {'sdepth': rng.random() < 0.5, 'rdepth': rng.random() < 0.6, 'rgc': rng.random() < 0.8,
            'rrmask': rng.random() < 0.8, 'do_gc': rng.random() < 0.5, 'do_edge': rng.random() < 0.5,
            'do_rmask': rng.random() < 0.5,
            'frac': rng.choice([0.25, 0.125, 0.0625, 0.5, 0.1875, 0.03125, 0.75, 0.3125])}
    flat = rng.random() < 0.2
    with_anti = rng.random() < 0.8
    coarse_cov = rng.random() < 0.4            # tied covariates on purpose
    levels = {c: g(rng, -0.5, 0.5) for c in names}
    target, anti, ref = [], [], []
    per = max(2, nbins // len(names))
    for c in names:
        pos = rng.choice([0, 1, 1000, 10000])
        nb = per if c != names[0] else nbins - per * (len(names) - 1)
        for i in range(nb):
            is_anti = with_anti and (i % 2 == 1)
            if is_anti:
                lo = pos + rng.choice([0, 1, 100, 400, 3000])
                hi = lo + rng.choice([500, 1000, 5000, rng.randint(300, 30000)])
                gene = rng.choice(['Antitarget', 'Antitarget', 'Antitarget', 'Background'])
            else:
                lo = pos + rng.choice([0, 0, 1, 50, 100, 249, 250, 251, 600, rng.randint(0, 2000)])
                hi = lo + rng.choice([249, 250, 251, rng.randint(10, 249), rng.randint(10, 600), rng.randint(10, 1500), rng.randint(10, 1500)])
                gene = rng.choice(['G%d' % (i // 6), '-', 'TP53', 'CGH'])
            pos = hi
            null = rng.random() < 0.05
            l2 = -20.0 if null else g(rng, -1.5, 1.5) + levels[c]
            dep = 0.0 if null else g(rng, 1, 400)
            (anti if is_anti else target).append([c, lo, hi, gene, l2, dep])
            if flat:
                rl2, sp = (0.0 if rng.random() < 0.9 else -1.0), 0.0
            else:
                rl2, sp = g(rng, -1, 1), g(rng, 0, 0.6)
            cov = (lambda: rng.randint(20, 44) / 64) if coarse_cov else (lambda: g(rng, 0.31, 0.69))
            rm = (lambda: rng.randint(0, 8) / 8) if coarse_cov else (lambda: g(rng, 0, 1))
            ref.append([c, lo, hi, gene, rl2, g(rng, 1, 300), cov(), rm(), sp])
    # bad reference bins: first / last / adjacent, each kind of failure and each boundary value
    def spoil(r, kind):
        if kind == 'low':
            r[4] = rng.choice([-5.0 - 1 / GRID, -6.0, -20.0])
        elif kind == 'high':
            r[4] = rng.choice([5.0 + 1 / GRID, 7.5])
        elif kind == 'edge_ok':
            r[4] = rng.choice([-5.0, 5.0]); r[8] = rng.choice([1.0, r[8]])
        elif kind == 'spread':
            r[8] = rng.choice([1.0 + 1 / GRID, 2.5])
        elif kind == 'depth':
            r[5] = 0.0
        elif kind == 'gc':
            r[6] = rng.choice([0.3 - 1 / GRID, 0.7 + 1 / GRID, 0.1, 0.95, 0.3, 0.7])
    nbad = rng.choice([0, 1, 2, 3, 5, max(1, len(ref) // 10)])
    where = []
    if nbad:
        where = rng.sample(range(len(ref)), min(nbad, len(ref)))
        if rng.random() < 0.5:
            where += [0, len(ref) - 1]
        if rng.random() < 0.5 and len(ref) > 3:
            j = rng.randrange(len(ref) - 2)
            where += [j, j + 1, j + 2]
    for j in where:
        spoil(ref[j], rng.choice(['low', 'high', 'edge_ok', 'spread', 'depth', 'gc']))
    # the sample covers a subset of the bins; the reference is a strict superset in shuffled order
    if rng.random() < 0.5:
        drop = set(rng.sample(range(len(target)), rng.randint(0, max(0, len(target) // 5))))
        target = [r for i, r in enumerate(target) if i not in drop]
        drop = set(rng.sample(range(len(anti)), rng.randint(0, max(0, len(anti) // 5)))) if anti else set()
        anti = [r for i, r in enumerate(anti) if i not in drop]
    extra_c = prefix + '19'
    ref.append([extra_c, 5, 500, 'extra', g(rng, -1, 1), 10.0, 0.5, 0.5, 0.1])
    for _ in range(rng.randint(0, 4)):
        lo = rng.randint(10 ** 6, 10 ** 7)
        ref.append([rng.choice(names), lo, lo + 300, 'extra', g(rng, -1, 1), 10.0, 0.5, 0.5, 0.1])
    rng.shuffle(ref)
    case.update({'target': target, 'anti': anti, 'ref': ref, 'sorted': True})
    case.update(force)
    for part in ('target', 'anti'):
        case[part].sort(key=genomic_key)
    if rng.random() < 0.3:
        # the API accepts tables in any row order
        rng.shuffle(case['target'])
        rng.shuffle(case['anti'])
        case['sorted'] = False
    return case


def usable_targets(case):
    ref = {(r[0], r[1], r[2]): r for r in case['ref']}
    return [r for r in case['target'] if (r[0], r[1], r[2]) in ref and ref_passes(case, ref[(r[0], r[1], r[2])])
            and not (r[4] < -15 or (case['sdepth'] and r[5] == 0))]


def usable_anti(case):
    ref = {(r[0], r[1], r[2]): r for r in case['ref']}
    kept = [r for r in case['anti'] if (r[0], r[1], r[2]) in ref and ref_passes(case, ref[(r[0], r[1], r[2])])]
    return kept, [r for r in kept if not (r[4] < -15 or (case['sdepth'] and r[5] == 0))]


def in_precondition(case):
    """each class that is present has a usable bin (otherwise its variance is NaN: known edge, tested apart)"""
    if not usable_targets(case):
        return False
    kept, ok = usable_anti(case)
    return not kept or bool(ok)


# ----------------------------------------------------------------------------------------------
# checks

def check_pipeline(ck, cases, label):
    """code + direct oracle + model on a batch of cases"""
    outs = []
    for case in cases:
        outs.append(run_code(case))
    models = run_model(cases)
    for case, out, m in zip(cases, outs, models):
        cls = '%s:%s%s%s:%s' % (label, 'g' if case['do_gc'] else '-', 'e' if case['do_edge'] else '-',
                                'r' if case['do_rmask'] else '-', 'anti' if case['anti'] else 'noanti')
        nontrivial = not isinstance(out, Err) and len(out) > 0
        ck.count(['fix', case], nontrivial=nontrivial, cls=cls)
        if direct_oracle(ck, case, out, label):
            compare_model(ck, case, out, m, label)
    return outs


def check_invariances(ck, cases, outs):
    """depth scale and row permutations: the code is run again on the transformed input"""
    rng = ck.rng
    for case, out in zip(cases, outs):
        if isinstance(out, Err):
            continue
        # depth: every sample log2 shifted by the same constant (null-coverage bins stay null)
        d = rng.choice([1.0, -1.0, 0.5, 2.0, -2.0, math.log2(3), math.log2(0.7), 0.3])
        def shifted(rows):
            return [r[:4] + [r[4] + d] + r[5:] for r in rows]
        if all(not (-15 - abs(d) - 1e-6 <= r[4] <= -15 + abs(d) + 1e-6) for r in case['target'] + case['anti']):
            o2 = run_code(case, target=shifted(case['target']), anti=shifted(case['anti']))
            ck.count(['depth', d], nontrivial=True, cls='invariance:depth')
            if not same_output(out, o2):
                ck.violation('output changes when every sample log2 is shifted by %r' % d, dict(case, shift=d),
                             code=o2[:5] if not isinstance(o2, Err) else o2, expected=out[:5],
                             clause='C04_depth_invariance')
        # reference rows permuted
        r2 = case['ref'][:]
        rng.shuffle(r2)
        o3 = run_code(case, ref=r2)
        ck.count(['perm-ref'], nontrivial=True, cls='invariance:perm-reference')
        if not same_output(out, o3):
            ck.violation('output changes when the reference rows are permuted', dict(case, ref_permuted=r2),
                         code=o3[:5] if not isinstance(o3, Err) else o3, expected=out[:5],
                         clause='C04_perm_invariance')


def check_history(ck, cases, outs, limit):
    """do_fix answers from its arguments alone: after one call with a reference object R, a second call with a
    reference DERIVED from R the way a program would (copy() / as_dataframe() of an edited frame, or R edited in
    place: a bin blacklisted through its spread, log2 values moved, a bin removed) must give what fresh objects
    built from the same rows give.  (GenomicArray.copy/as_dataframe/__getitem__ copy `meta` shallowly, so anything
    cached there is shared between the two references.)"""
    from cnvlib import fix
    rng = ck.rng
    done = 0
    for case, out in zip(cases, outs):
        if done >= limit:
            break
        if isinstance(out, Err) or len(case['ref']) < 4 or not case['target']:
            continue
        done += 1
        R = cna([rrow_tuple(case, r) for r in case['ref']], rcols(case))
        kw = dict(do_gc=case['do_gc'], do_edge=case['do_edge'], do_rmask=case['do_rmask'], do_cluster=False,
                  smoothing_window_fraction=case['frac'])
        def sample():
            return (cna([srow_tuple(case, r) for r in case['target']], scols(case)),
                    cna([srow_tuple(case, r) for r in case['anti']], scols(case)))
        try:
            t, a = sample()
            fix.do_fix(t, a, R, **kw)
        except (ValueError, AssertionError):
            continue
        how = rng.choice(['copy-edit', 'as_dataframe', 'in-place', 'subset'])
        ref2 = [list(r) for r in case['ref']]
        used = {(r[0], r[1], r[2]) for r in case['target'] + case['anti']}
        idx = [i for i, r in enumerate(ref2) if (r[0], r[1], r[2]) in used]
        i0 = rng.choice(idx)
        if how == 'subset':
            # drop one reference bin the sample does NOT use (same answer) or one it uses (must be refused)
            unused = [i for i, r in enumerate(ref2) if (r[0], r[1], r[2]) not in used]
            drop = rng.choice(unused) if unused and rng.random() < 0.5 else i0
            ref2 = [r for i, r in enumerate(ref2) if i != drop]
        else:
            ref2[i0][8] = 2.0                                   # blacklist one used bin through its spread
            for i in idx:
                if i != i0 and rng.random() < 0.5:
                    ref2[i][4] = ref2[i][4] + 0.25              # and move some reference log2 values
        frame = pd.DataFrame([rrow_tuple(case, r) for r in ref2], columns=rcols(case))
        if how == 'copy-edit':
            R2 = R.copy(); R2.data = frame
        elif how == 'in-place':
            R2 = R; R2.data = frame
        elif how == 'subset':
            keep = [tuple(r[:3]) in {tuple(x[:3]) for x in ref2} for r in case['ref']]
            R2 = R[np.array(keep)]
        else:
            R2 = R.as_dataframe(frame)
        t, a = sample()
        try:
            o = fix.do_fix(t, a, R2, **kw).data
            got = [(str(c), int(s), int(e), str(g), float(l), float(w))
                   for c, s, e, g, l, w in zip(o['chromosome'], o['start'], o['end'], o['gene'], o['log2'], o['weight'])]
        except ValueError as e:
            got = Err('ValueError: ' + str(e).split('\n')[0][:60])
        except AssertionError:
            got = Err('Assertion')
        fresh = run_code(dict(case, ref=ref2))
        ck.count(['history', how], nontrivial=True, cls='history:' + how)
        same = (isinstance(got, Err) and isinstance(fresh, Err) and got.msg[:10] == fresh.msg[:10]) or \
               (not isinstance(got, Err) and not isinstance(fresh, Err) and same_output(got, fresh))
        if not same:
            ck.violation('do_fix with a reference derived (%s) from one used in an earlier call does not give what fresh '
                         'objects with the same rows give' % how, dict(case, second_reference=ref2, derived_by=how),
                         code=got[:5] if not isinstance(got, Err) else got,
                         expected=fresh[:5] if not isinstance(fresh, Err) else fresh, clause='C04_bins/C04_errors (matched by coordinates of the reference GIVEN)')


def check_sample_permutation(ck, cases, outs, limit):
    """sample rows permuted at the API (regression of the repaired positional pairing, /repo 9f02d63)"""
    rng = ck.rng
    done = 0
    for case, out in zip(cases, outs):
        if isinstance(out, Err) or done >= limit:
            continue
        t2, a2 = case['target'][:], case['anti'][:]
        rng.shuffle(t2)
        rng.shuffle(a2)
        c2 = dict(case, target=t2, anti=a2, sorted=False)
        o2 = run_code(c2)
        done += 1
        ck.count(['perm-sample'], nontrivial=True, cls='invariance:perm-sample')
        if not same_output(out, o2):
            small = shrink_unsorted(case)
            ck.violation('output changes when the rows of the target / antitarget table are permuted',
                         small if small is not None else c2,
                         code='differs from the result on the genomically sorted tables',
                         expected='identical output', clause='C04_perm_invariance')


def check_nan_boundary(ck, n):
    """C04_weight_nan_iff / C04_weight_nan_depth against the code: one class of bins (on-target, or off-target by gene
    name) made null-coverage throughout -- by a zero depth, or by log2 -20 -- and the other left alone.  The code's weights
    of a class are NaN exactly when the model's residual vector of that class is empty while the class has output bins.
    (That the code gives NaN there at all is the open finding SIG_NAN, reported on its canonical corpus case only.)"""
    rng = ck.rng
    cases = []
    while len(cases) < n:
        case = gen_case(rng, nbins=rng.choice([20, 24, 30]))
        if not case['anti'] or not in_precondition(case):
            continue
        part = rng.choice(['target', 'anti', 'anti'])
        by_depth = case['sdepth'] and rng.random() < 0.6
        for r in case[part]:
            if by_depth:
                r[5] = 0.0
                if rng.random() < 0.5:
                    r[4] = -20.0
            else:
                r[4] = -20.0 - rng.choice([0.0, 0.5, 3.0])
        if rng.random() < 0.3:
            # ... except for one bin: the class keeps a residual and the weights are numbers again
            r = rng.choice(case[part])
            r[4], r[5] = g(rng, -1, 1), 10.0
        cases.append(case)
    outs = [run_code(c) for c in cases]
    pre = vlib.model_batch_parallel('c04_pre', [model_input(c) for c in cases])
    for case, out, p in zip(cases, outs, pre):
        ck.count(['nan-boundary', case], nontrivial=not isinstance(out, Err), cls='nan-boundary')
        if isinstance(out, Err) or isinstance(p, Err):
            if not (isinstance(out, Err) and isinstance(p, Err)):
                ck.tie_break('nan-boundary: one of code / model raises', case, code=out, model=repr(p)[:200])
            continue
        for anti in (False, True):
            rows = [r for r in out if (r[3] in ('Antitarget', 'Background')) == anti]
            nan_rows = [r for r in rows if r[5] != r[5]]
            if nan_rows and len(nan_rows) != len(rows):
                ck.violation('nan-boundary: only some weights of one class are NaN', case, code=[list(r) for r in rows[:6]],
                             expected='all or none', clause='C04_weight_nan_iff')
                break
            model_nan = bool(rows) and len(p[1 if anti else 0]) == 0
            if bool(nan_rows) != model_nan:
                ck.tie_break('nan-boundary: the %s weights are %sNaN in the code, the model\'s residual vector of the class has %d '
                             'values' % ('off-target' if anti else 'on-target', '' if nan_rows else 'not ', len(p[1 if anti else 0])),
                             case, code=[list(r) for r in rows[:4]], model=len(p[1 if anti else 0]))
                break
            if not nan_rows and any(not (F(1, 10000) <= F(r[5]) <= 1) for r in rows):
                ck.violation('nan-boundary: weight outside [0.0001, 1]', case, code=[list(r) for r in rows[:4]],
                             expected='0.0001 <= w <= 1', clause='C04_weight_range')
                break


def shrink_unsorted(case):
    """a small version of the failing situation: reverse the target, drop rows while it still differs"""
    def differs(c):
        base = run_code(c)
        c2 = dict(c, target=c['target'][::-1], anti=c['anti'][::-1], sorted=False)
        return not isinstance(base, Err) and not same_output(base, run_code(c2))
    cur = dict(case)
    if not differs(cur):
        return None
    for part in ('anti', 'target'):
        rows = cur[part]
        step = max(1, len(rows) // 2)
        while step >= 1 and len(rows) > 1:
            i = 0
            while i < len(rows) and len(rows) > 1:
                trial = rows[:i] + rows[i + step:]
                c = dict(cur, **{part: trial})
                try:
                    ok = (part == 'anti' or trial) and differs(c)
                except Exception:
                    ok = False
                if ok:
                    rows = trial
                    cur = c
                else:
                    i += step
            step //= 2
    keys = {(r[0], r[1], r[2]) for r in cur['target'] + cur['anti']}
    cur['ref'] = [r for r in cur['ref'] if (r[0], r[1], r[2]) in keys]
    cur['target'] = cur['target'][::-1]
    cur['anti'] = cur['anti'][::-1]
    cur['sorted'] = False
    return cur



def write_table(path, rows, cols):
    with open(path, 'w') as fh:
        fh.write('\t'.join(cols) + '\n')
        for r in rows:
            fh.write('\t'.join(repr(v) if isinstance(v, float) else str(v) for v in r) + '\n')


def run_cli(case, scratch, tag, target, anti, ref):
    import subprocess, sys
    tp, ap, rp, op = [os.path.join(scratch, '%s.%s' % (tag, e)) for e in
                      ('targetcoverage.cnn', 'antitargetcoverage.cnn', 'reference.cnn', 'cnr')]
    write_table(tp, [srow_tuple(case, r) for r in target], scols(case))
    write_table(ap, [srow_tuple(case, r) for r in anti], scols(case))
    write_table(rp, [rrow_tuple(case, r) for r in ref], rcols(case))
    cmd = [sys.executable, '-m', 'cnvlib.cnvkit', 'fix', tp, ap, rp, '-o', op, '-i', 'samp',
           '--smoothing-window-fraction', repr(case['frac'])]
    for flag, key in (('--no-gc', 'do_gc'), ('--no-edge', 'do_edge'), ('--no-rmask', 'do_rmask')):
        if not case[key]:
            cmd.append(flag)
    p = subprocess.run(cmd, stdout=subprocess.PIPE, stderr=subprocess.PIPE, env=vlib.repo_env(), timeout=600)
    if p.returncode != 0 or not os.path.exists(op):
        return Err('cli rc=%d %s' % (p.returncode, p.stderr.decode()[-200:])), None
    text = open(op).read()
    lines = text.rstrip('\n').split('\n')
    hdr = lines[0].split('\t')
    rows = []
    for l in lines[1:]:
        d = dict(zip(hdr, l.split('\t')))
        rows.append((d['chromosome'], int(d['start']), int(d['end']), d['gene'], float(d['log2']), float(d['weight'])))
    return rows, text


def check_cli(ck, scratch, cases, outs, limit):
    """`cnvkit.py fix` on files: same table as the API call (6 significant digits are written), and
    byte-identical output when the rows of the three input files are permuted"""
    rng = ck.rng
    done = 0
    for i, (case, out) in enumerate(zip(cases, outs)):
        if done >= limit or isinstance(out, Err) or not out or not case['anti']:
            continue
        done += 1
        rows, text = run_cli(case, scratch, 'c%d' % i, case['target'], case['anti'], case['ref'])
        ck.count(['cli', i], nontrivial=True, cls='cli')
        ok = not isinstance(rows, Err) and len(rows) == len(out) and all(
            a[:4] == b[:4] and abs(a[4] - b[4]) <= 1e-5 * max(1, abs(b[4])) and abs(a[5] - b[5]) <= 1e-5
            for a, b in zip(rows, out))
        if not ok:
            ck.violation('cnvkit.py fix writes a different table than do_fix returns', case,
                         code=rows if isinstance(rows, Err) else rows[:5], expected=out[:5], clause='C04_bins')
            continue
        t2, a2, r2 = case['target'][:], case['anti'][:], case['ref'][:]
        rng.shuffle(t2); rng.shuffle(a2); rng.shuffle(r2)
        rows2, text2 = run_cli(case, scratch, 'p%d' % i, t2, a2, r2)
        ck.count(['cli-perm', i], nontrivial=True, cls='cli:permuted-files')
        if text2 != text:
            ck.violation('cnvkit.py fix output changes when the rows of the input files are permuted',
                         dict(case, target=t2, anti=a2, ref=r2, sorted=False),
                         code=rows2 if isinstance(rows2, Err) else rows2[:5], expected=rows[:5], clause='C04_perm_invariance')


def malformed_cases(rng, n):
    out = []
    for i in range(n):
        case = gen_case(rng, nbins=rng.choice([20, 30, 40]))
        kind = rng.choice(['missing-target', 'missing-anti', 'dup-target', 'dup-anti', 'dup-ref', 'dup-ref-unused',
                           'missing-and-dup'])
        keyset = {(r[0], r[1], r[2]) for r in case['target'] + case['anti']}
        if kind.startswith('missing') and (kind != 'missing-anti' or case['anti']):
            part = 'anti' if kind == 'missing-anti' else 'target'
            r = rng.choice(case[part])
            variant = rng.choice(['drop', 'start', 'end', 'chrom'])
            if variant == 'drop':
                case['ref'] = [x for x in case['ref'] if (x[0], x[1], x[2]) != (r[0], r[1], r[2])]
            else:
                # the sample bin is moved by one base / to another chromosome: same row position, other key
                j = {'start': 1, 'end': 2}.get(variant)
                if j:
                    r[j] += 1 if j == 2 else -1 if r[1] > 0 else 0
                    if r[1] >= r[2] or (r[0], r[1], r[2]) in keyset:
                        case['ref'] = [x for x in case['ref'] if (x[0], x[1], x[2]) != (r[0], r[1], r[2])]
                else:
                    r[0] = r[0] + '9'
        if kind in ('dup-target', 'missing-and-dup'):
            case['target'].append(list(rng.choice(case['target'])))
        if kind == 'dup-anti' and case['anti']:
            case['anti'].append(list(rng.choice(case['anti'])))
        if kind == 'dup-ref':
            r = rng.choice(case['target'])
            case['ref'].append([x for x in case['ref'] if (x[0], x[1], x[2]) == (r[0], r[1], r[2])][0][:])
        if kind == 'dup-ref-unused':
            r = [x for x in case['ref'] if x[3] == 'extra'][0]
            case['ref'].append(r[:])
        case['kind'] = kind
        out.append(case)
    return out


def check_units(ck):
    """get_edge_bias, rolling_median, mask_bad_bins, the autosome pattern, center_all vs the model"""
    from cnvlib import fix, smoothing
    rng = ck.rng
    n = 60 if ck.tier == 'quick' else 600
    # edge bias: sorted tables; independent exact formula is the direct oracle
    tabs = []
    for i in range(n):
        keys = []
        for c in ['chr1', 'chr2', 'chrX'][:rng.randint(1, 3)]:
            pos = rng.randint(0, 1000)
            for _ in range(rng.randint(1, 12)):
                lo = pos + rng.choice([0, 0, 1, 10, 100, 249, 250, 251, 500, rng.randint(0, 600)])
                hi = lo + rng.choice([1, 5, 50, 125, 249, 250, 251, 500, rng.randint(1, 900)])
                if rng.random() < 0.1 and keys and keys[-1][0] == c:
                    lo = max(0, keys[-1][2] - rng.randint(1, 30))      # overlapping neighbour: gap treated as 0
                    hi = max(hi, lo + 1)
                keys.append((c, lo, hi))
                pos = max(pos, hi)
        keys.sort(key=genomic_key)
        tabs.append(keys)
    models = vlib.model_batch('c04_edge', [[list(k) for k in keys] for keys in tabs])
    for keys, m in zip(tabs, models):
        arr = cna([(c, s, e, 'g', 0.0) for c, s, e in keys], ['chromosome', 'start', 'end', 'gene', 'log2'])
        code = [float(x) for x in fix.get_edge_bias(arr, INSERT)]
        exp = edge_bias_spec(keys)
        ck.count(['edge', keys], nontrivial=len(keys) > 1, cls='unit:edge')
        if len(code) != len(exp) or any(not near(c, e) for c, e in zip(code, exp)):
            ck.violation('get_edge_bias differs from the edge formula (losses i/2t - (i-t)^2/2it, gains (i-g)^2/4it - (i-t-g)^2/4it)',
                         {'bins': keys}, code=code, expected=[float(e) for e in exp], clause='C04_window')
        elif isinstance(m, Err) or len(m) != len(code) or any(not vlib.close(c, x) for c, x in zip(code, m)):
            ck.tie_break('model edge_bias differs from get_edge_bias', {'bins': keys}, code=code, model=m)
    # rolling median
    sigs = []
    for i in range(n):
        ln = rng.choice([1, 2, 3, 4, 5, 7, 8, 20, 50, rng.randint(2, 120)])
        xs = [rng.choice([g(rng, -2, 2), g(rng, -2, 2), float(rng.randint(-2, 2))]) for _ in range(ln)]
        frac = rng.choice([0.25, 0.125, 0.5, 0.0625, 0.75, 0.9375, 0.03125])
        sigs.append((xs, frac))
    wings = [smoothing._width2wing(fr, xs) if len(xs) >= 2 else 0 for xs, fr in sigs]
    models = vlib.model_batch('c04_rolling', [[w, xs] for (xs, fr), w in zip(sigs, wings)])
    for (xs, fr), w, m in zip(sigs, wings, models):
        code = [float(v) for v in smoothing.rolling_median(pd.Series(xs), fr)]
        exp = rolling_median_spec([F(x) for x in xs], width_to_wing(len(xs), fr) if len(xs) >= 2 else 0)
        ck.count(['rolling', xs, fr], nontrivial=len(xs) > 2, cls='unit:rolling')
        if len(code) != len(exp) or any(not near(c, e) for c, e in zip(code, exp)):
            ck.violation('rolling_median is not the median over the mirrored window of half-width ceil(n*frac/2) (min 3, max n-1)',
                         {'x': xs, 'frac': fr}, code=code, expected=[float(e) for e in exp], clause='C04_window')
        elif isinstance(m, Err) or len(m) != len(code) or any(not vlib.close(c, x) for c, x in zip(code, m)):
            ck.tie_break('model rolling differs from rolling_median', {'x': xs, 'frac': fr, 'wing': w}, code=code, model=m)
    # the variance step on inputs where the exact biweight iteration stays small: one value, two values,
    # constant, symmetric around the median (the location iteration stops at once)
    from cnvlib import descriptives
    vecs = []
    for i in range(n // 2):
        a, h = g(rng, -2, 2), g(rng, 1 / GRID, 2)
        vecs += [[a], [a, a + h], [a] * rng.randint(2, 6), [a - h, a, a + h], [a - h, a - h, a, a + h, a + h]]
    models = vlib.model_batch('c04_var', vecs)
    for xs, m in zip(vecs, models):
        code = float(descriptives.biweight_midvariance(np.array(xs, dtype=float))) ** 2
        ck.count(['var', xs], nontrivial=len(xs) > 1, cls='unit:variance')
        if isinstance(m, Err) or not vlib.close(code, m, 1e-8):
            ck.tie_break('model var_of differs from biweight_midvariance ** 2', {'x': xs}, code=code, model=m)
    # autosome pattern
    names = ['1', '22', 'chr1', 'chr10', 'X', 'chrX', 'Y', 'chrY', 'chr', '', 'chr1a', '1_random', 'chrM', 'MT',
             'Chr1', 'CHR2', 'chr01', '007', 'chr 1', 'c1', 'chrchr1', 'chrUn_gl000220', '10 ', 'x1', '1x']
    import re
    models = vlib.model_batch('c04_is_auto', names)
    for nm, m in zip(names, models):
        arr = cna([(nm, 1, 2, 'g', 0.0), ('chr5', 1, 2, 'g', 0.0)], ['chromosome', 'start', 'end', 'gene', 'log2'])
        code = bool(len(arr.autosomes()) == 2)
        ck.count(['auto', nm], nontrivial=True, cls='unit:autosome-name')
        if code != m:
            ck.tie_break('model is_auto_name differs from autosomes() on %r' % nm, {'name': nm}, code=code, model=m)
    # mask_bad_bins on single rows, every boundary
    vals = {'log2': [-5.0, -5.0 - 1 / GRID, 5.0, 5.0 + 1 / GRID, 0.0, -20.0], 'spread': [0.0, 1.0, 1.0 + 1 / GRID, 0.5],
            'depth': [0.0, 1.0, 1e-9], 'gc': [0.3, 0.7, 0.3 - 1 / GRID, 0.7 + 1 / GRID, 0.5, 0.0, 1.0]}
    rows = []
    for l2 in vals['log2']:
        for sp in vals['spread']:
            for dp in vals['depth']:
                for gc in vals['gc']:
                    for hd in (True, False):
                        for hg in (True, False):
                            rows.append((l2, sp, dp, gc, hd, hg))
    models = vlib.model_batch('c04_bad_bin', [[[False, hd, hg, False, False, False, False],
                                                ['chr1', 1, 2, l2, dp, gc, 0.0, sp]] for l2, sp, dp, gc, hd, hg in rows])
    for (l2, sp, dp, gc, hd, hg), m in zip(rows, models):
        case = {'rdepth': hd, 'rgc': hg, 'rrmask': False}
        r = ['chr1', 1, 2, 'g', l2, dp, gc, 0.0, sp]
        arr = cna([rrow_tuple(case, r)], rcols(case))
        code = bool(fix.mask_bad_bins(arr).iloc[0])
        exp = not ref_passes(case, r)
        ck.count(['mask', l2, sp, dp, gc, hd, hg], nontrivial=True, cls='unit:mask')
        if code != exp:
            ck.violation('mask_bad_bins differs from the literal filter (log2 within +-5, spread <= 1, depth > 0, GC within 0.3-0.7)',
                         {'row': r, 'has_depth': hd, 'has_gc': hg}, code=code, expected=exp, clause='C04_bins')
        elif code != m:
            ck.tie_break('model bad_bin differs from mask_bad_bins', {'row': r, 'has_depth': hd, 'has_gc': hg}, code=code, model=m)


def load_corpus():
    p = os.path.join(HERE, '..', 'corpus', 'c04.json')
    if not os.path.exists(p):
        return []
    return json.load(open(p))


def check_corpus(ck):
    for c in load_corpus():
        case = c['case']
        out = run_code(case)
        ck.count(['corpus', c['name']], nontrivial=True, cls='corpus')
        if c.get('kind') in ('pipeline', 'crossing'):
            if direct_oracle(ck, case, out, 'corpus:' + c['name']) and case.get('sorted', True) and in_precondition(case):
                m = run_model([case])[0]
                compare_model(ck, case, out, m, 'corpus:' + c['name'])
        elif c.get('kind') == 'unsorted':
            base = run_code(dict(case, target=sorted(case['target'], key=genomic_key),
                                 anti=sorted(case['anti'], key=genomic_key), sorted=True))
            if not same_output(base, out):
                ck.violation('corpus:%s: output depends on the row order of the sample table' % c['name'], case,
                             code=out, expected=base, clause='C04_perm_invariance')
            elif direct_oracle(ck, case, out, 'corpus:' + c['name']) and in_precondition(case):
                m = run_model([case])[0]
                compare_model(ck, case, out, m, 'corpus:' + c['name'])
        elif c.get('kind') == 'nan-weight':
            direct_oracle(ck, case, out, 'corpus:' + c['name'])


def run(ck, scratch):
    quick = ck.tier == 'quick'
    ck.rule = ('do_fix on generated target/antitarget/reference tables (20..300 bins, 2..5 chromosomes incl. X, log2 on a 1/1024 grid, '
               'bad reference bins of every kind at first/last/adjacent positions and on the filter boundaries, reference a strict superset in '
               'shuffled order, flat and pooled references, with/without depth/gc/rmask columns, every subset of corrections, dyadic window '
               'fractions, tied and untied covariates, empty antitarget, null-coverage bins); each case: code, direct oracle in Fractions on '
               "the code's output, model vs code; the code is re-run for depth shifts and row permutations; malformed stream (missing / "
               'duplicated coordinates); unit correspondences for get_edge_bias, rolling_median, mask_bad_bins, autosome names. '
               'Non-trivial = a non-empty output table.')
    ck.unproved_remainder = [
        'C04_weight_range is stated for inputs with a usable (reference-filter passing, not null-coverage) bin in each class present; '
        'without one the code gives NaN weights (open known finding %s, reported on its canonical case only).  Which inputs: '
        'C04_weight_nan_iff (the residual vector of a class is empty iff every bin of the class is null-coverage after the '
        'reference was subtracted) and C04_weight_nan_depth (a depth column that is 0 on every sample bin of the class); the '
        'nan-boundary stream compares "the code\'s weights of a class are NaN" with "the model\'s residual vector is empty" '
        'on cohorts with one class nulled' % SIG_NAN,
        'C04_centred ("median of autosomal chromosome medians of the covered output bins is 0") needs that the final shift moves no '
        'bin across the null-coverage cut-off -15: C04_centred_crossing says exactly which bins cross, C04_centred_crossing_refuted is the '
        'sharp counter-example (candidate finding %s, corpus case %s), C04_centred_selected proves without any hypothesis that the bins '
        'covered when the centre was estimated are centred; the direct oracle demands the plain clause, and on a crossing case the '
        'unconditional one (some upper set by log2 of the bins with a depth is centred)' % (SIG_CROSS, CROSS_NAME),
        'do_cluster=True (reference sub-clusters chosen by correlation) is outside the model and the theorems: C04_scope_no_cluster '
        'pins the default False and the plain log2 / spread column names; no generated case sets it',
        'biweight_midvariance(..)**2 is an oracle of the model (contract: not negative; exact rational biweight iterations are not '
        'computable in reasonable time): supplied from the code on the residuals the model hands out, so a change inside '
        'descriptives.biweight_midvariance is seen by C19/C17, not here; the exact definition is compared on small inputs (unit:variance)',
        'rows whose exact edge covariates tie while their floats differ in the last place may be ordered either way by the code: such cases '
        'are counted float_ambiguous and only the direct oracle (using the code\'s float order) is evaluated',
        'IEEE rounding of the float pipeline (model is exact rational arithmetic; compared at 1e-9)',
    ]
    check_corpus(ck)
    check_units(ck)
    rng = ck.rng
    ncase = 220 if quick else 2200
    batch = 55 if quick else 110
    subsets = [(a, b, c) for a in (False, True) for b in (False, True) for c in (False, True)]
    total = 0
    k = 0
    while total < ncase:
        cases = []
        while len(cases) < batch:
            gc_, ed_, rm_ = subsets[k % 8]
            k += 1
            size = None
            if quick:
                size = rng.choice([20, 24, 30, 40, 60, 100, 150, 300] if k % 11 == 0 else [20, 24, 30, 40, 60, 100])
            case = gen_case(rng, nbins=size, do_gc=gc_, do_edge=ed_, do_rmask=rm_)
            if k % 7 == 0:
                case['rgc'] = case['rrmask'] = True
            if k % 13 == 0:
                case['anti'] = []
            if not in_precondition(case):
                continue
            cases.append(case)
        outs = check_pipeline(ck, cases, 'valid')
        check_invariances(ck, cases[: (12 if quick else 40)], outs)
        check_sample_permutation(ck, cases, outs, limit=(3 if quick else 10))
        check_history(ck, cases, outs, limit=(4 if quick else 12))
        if total == 0 or not quick:
            check_cli(ck, scratch, cases, outs, limit=(2 if quick else 3))
        total += len(cases)
    # null-coverage boundary: bins with a depth whose log2 sits around the cut-off -15, so that the centring shifts (first
    # per table, then the final one) move some of them across it
    cross = []
    while len(cross) < (12 if quick else 120):
        case = gen_case(rng, nbins=rng.choice([20, 24, 30, 40]))
        for part in ('target', 'anti'):
            rows = case[part]
            for j in rng.sample(range(len(rows)), min(len(rows), rng.randint(1, 3))):
                rows[j][4] = -15.0 + g(rng, -1.5, 1.5)
                rows[j][5] = max(rows[j][5], 1.0)
        if in_precondition(case):
            cross.append(case)
    check_pipeline(ck, cross, 'null-boundary')
    check_nan_boundary(ck, 10 if quick else 120)
    mal = malformed_cases(rng, 40 if quick else 400)
    check_pipeline(ck, mal, 'malformed')
    ck.explanation = ('C04: the Coq model of do_fix (Model/Fix.v) is proved to emit exactly the filtered sample bins in genomic order, to '
                      'refuse missing/duplicated coordinates, to be sample - reference + a per-class constant (corrections off) / minus the '
                      'rolling medians over the covariate order (corrections on), centred, with weights in [1/10000, 1] monotone in bin size '
                      'and reference spread, invariant under a depth shift and under permutation of the reference rows; this run ties the '
                      'model to the code on generated tables and evaluates every clause directly on the code output.')


def replay(ck, body):
    case = body.get('case')
    print(json.dumps({k: v for k, v in body.items() if k != 'case'}, indent=1)[:3000])
    if isinstance(case, dict) and 'target' in case:
        out = run_code(case)
        ok = direct_oracle(ck, case, out, 'replay')
        print('direct oracle on the code output now: %s' % ('holds' if ok and not ck.violations else 'FAILS'))
        return 0 if ok and not ck.violations else 1
    return 0
