"""C18 -- VCF genotypes become allele frequencies and per-segment BAF as defined.

Correspondence of skgenome.tabio.read(.., "vcf", ..) / vcfio._choose_samples,
cnvlib.cmdutil.load_het_snps, VariantArray.baf_by_ranges / mirrored_baf /
tumor_boost, call.rescale_baf and the baf column of do_call against the extracted
Coq model (Model/Vcf.v, Model/VBaf.v).  The generator builds a STRUCTURED VCF
(header + records + per-sample GT/AD/DP) and writes it as text; the code reads the
text through pysam, the model and the direct oracle read the structure.  The
direct oracle is written from the property text in fractions.Fraction and only
speaks where the text defines the answer (fully called genotypes, numeric AD and
DP, variants that do not straddle a range boundary).

Four defects this check found were repaired in /repo (1e91c33 TumorBoost values attached to the
wrong rows after filtering; 98a0701 a range's single variant not mirrored to the requested side;
040d41e a VCF without records read with skip_somatic lost its columns; 3e1c38e a sample without any
AD value gave object-typed columns): their shrunk inputs are the first entries of corpus/c18.json
and are checked without any signature.  One finding is open (SIG_FALLBACK)."""
import os, math, json
from fractions import Fraction as F
import vlib
from vlib import Err

LEVEL = 'proof'

SIG_FALLBACK = 'het-fallback-keeps-all-when-none-heterozygous'      # open, /verif/known_findings.json
SKIP = 'skip'

_seen_sigs = set()


def report(ck, what, case, sig=None, **more):
    """ck.violation, but a candidate finding (sig) is reported once per run; its further
    occurrences are only counted (class finding:<sig>) so that they cannot crowd out other violations"""
    if sig:
        ck.cls('finding:' + sig)
        if sig in _seen_sigs:
            return
        _seen_sigs.add(sig)
    ck.violation(what, case, sig=sig, **more)


GENOME = [('chr1', 0), ('chr2', 1), ('chr3', 2), ('chr10', 3), ('chrX', 4)]
GENOME_NOPREFIX = [('1', 0), ('2', 1), ('3', 2), ('10', 3), ('X', 4)]
SAMPLE_POOL = ['TUMOR', 'NORMAL', 'T1', 'N1', 'S3', 'tumor-2', 'n.3', 'HG002']

HEADER = '''##fileformat=VCFv4.2
##FILTER=<ID=PASS,Description="All filters passed">
##FILTER=<ID=q10,Description="Quality below 10">
##FILTER=<ID=REJECT,Description="Rejected">
##FILTER=<ID=KEEP,Description="Kept">
##INFO=<ID=DP,Number=1,Type=Integer,Description="Total Depth">
##INFO=<ID=END,Number=1,Type=Integer,Description="End position">
##INFO=<ID=SOMATIC,Number=0,Type=Flag,Description="Somatic event">
##ALT=<ID=DEL,Description="Deletion">
##ALT=<ID=DUP,Description="Duplication">
##ALT=<ID=INS,Description="Insertion">
##FORMAT=<ID=GT,Number=1,Type=String,Description="Genotype">
##FORMAT=<ID=AD,Number=R,Type=Integer,Description="Allelic depths">
##FORMAT=<ID=DP,Number=1,Type=Integer,Description="Read depth">
'''

# ----------------------------------------------------------------------------
# structured VCF: generation and text


def gen_call(rng, has_alt_col, depth_bias, nonref):
    """one sample's GT / AD / DP; None = missing value"""
    u = rng.random()
    if u < 0.40:
        gt = rng.choice([[0, 1], [0, 1], [1, 0]])
    elif u < 0.62:
        gt = [0, 0]
    elif u < 0.80:
        gt = [1, 1]
    elif u < 0.86:
        gt = rng.choice([[None, None], [None]])
    elif u < 0.92:
        gt = rng.choice([[1, None], [0, None], [None, 1]])
    else:
        gt = rng.choice([[0], [1]])
    phased = rng.random() < 0.2
    d = rng.choice(depth_bias) if rng.random() < 0.3 else rng.randint(15, 90)
    kind = set(x for x in gt if x is not None)
    v = rng.random()
    if v < 0.25 and d > 0:
        # frequencies exactly on the usual decision boundaries
        frac = rng.choice([F(1, 4), F(3, 4), F(1, 2), F(1, 8), F(3, 8), F(5, 8), F(7, 8), F(0), F(1)])
        c = int(frac * d)
    elif kind == {0, 1} or v < 0.35:
        c = min(d, max(0, int(round(d * rng.uniform(0.2, 0.8)))))
    elif kind == {0}:
        c = min(d, rng.choice([0, 0, 0, 1, 2]))
    else:
        c = max(0, d - rng.choice([0, 0, 0, 1, 2]))
    ad = [d - c, c]
    if nonref:
        ad.append(0)
    if not has_alt_col:
        ad = [d]
    dp = d
    w = rng.random()
    if w < 0.05:
        ad = [None]
    elif w < 0.08 and len(ad) > 1:
        ad = [None] * len(ad)
    elif w < 0.11 and len(ad) > 1:
        ad = [None] + ad[1:]
    elif w < 0.13 and len(ad) > 1:
        ad = [ad[0], None] + ad[2:]
    elif w < 0.15:
        ad = ad[:1]
    x = rng.random()
    if x < 0.07:
        dp = None
    elif x < 0.12:
        dp = max(0, d + rng.choice([-3, -1, 1, 5]))     # DP disagreeing with the AD sum
    elif x < 0.124:
        dp = 0
    # VCF allows trailing FORMAT values to be dropped ("0/1" under GT:AD:DP): the text loses them where they are missing
    trim = rng.random() < 0.12
    if trim and rng.random() < 0.6:
        dp = None
        if rng.random() < 0.4:
            ad = [None]
    return {'gt': gt, 'phased': phased, 'ad': ad, 'dp': dp, 'trim': trim}


def rand_seq(rng, n):
    return ''.join(rng.choice('ACGT') for _ in range(n))


def gen_vcf(rng, tier, size_class=None):
    nsamp = rng.choice([1, 2, 2, 3])
    samples = rng.sample(SAMPLE_POOL, nsamp)
    peds, other_ped_lines = [], []
    u = rng.random()
    if nsamp >= 2 and u < 0.40:
        a, b = rng.sample(samples, 2)
        peds.append((a, b))
        if nsamp == 3 and rng.random() < 0.4:
            rest = [s for s in samples if s not in (a, b)][0]
            peds.append((rest, rng.choice([a, b])))
            if rng.random() < 0.5:
                peds.reverse()
    elif u < 0.46:
        # a pair naming a sample that is not in the file
        ghost = 'GHOST'
        peds.append(rng.choice([(samples[0], ghost), (ghost, samples[0])]))
    if rng.random() < 0.12:
        other_ped_lines.append('##PEDIGREE=<Child=%s,Mother=M0,Father=F0>' % samples[0])
    genome = GENOME if rng.random() < 0.8 else GENOME_NOPREFIX
    ncontig = rng.choice([1, 1, 2, 3])
    contigs = sorted(rng.sample(genome, ncontig), key=lambda c: c[1])
    if size_class is None:
        size_class = rng.choice(['0', '1', 'small', 'small', 'small', 'mid', 'mid', 'mid', 'mid', 'mid', 'large', 'large'])
    nrec = {'0': 0, '1': 1, 'small': rng.randint(2, 6), 'mid': rng.randint(7, 60),
            'large': rng.randint(61, 500 if tier != 'quick' else 300)}[size_class]
    mind = rng.choice([1, 5, 10, 20, 20, 20, 30])
    depth_bias = [0, 1, mind - 1, mind, mind + 1, 19, 20, 21, 40, 40]
    fmt_mode = rng.choice(['full', 'full', 'full', 'mixed', 'mixed', 'noDP', 'noAD', 'GTonly'])
    all_normal_ref = nsamp >= 2 and rng.random() < 0.08      # Mutect2-like: one sample always 0/0
    hom_only = rng.random() < 0.03                           # no heterozygous genotype at all (region of the open finding)
    recs, keys = [], set()
    per = [0] * ncontig
    for _ in range(nrec):
        per[rng.randrange(ncontig)] += 1
    for (cname, ckey), k in zip(contigs, per):
        pos = rng.randint(1, 50)
        for _ in range(k):
            step = rng.choice([0, 1, 1, 2, 3, rng.randint(1, 30), rng.randint(1, 400)])
            pos += step
            t = rng.random()
            if t < 0.72:
                ref, alt = rand_seq(rng, 1), rand_seq(rng, 1)
            elif t < 0.86:
                ref = rand_seq(rng, 1)
                alt = ref + rand_seq(rng, rng.randint(1, 4))          # insertion
            else:
                alt = rand_seq(rng, 1)
                ref = alt + rand_seq(rng, rng.randint(1, 4))          # deletion
            if ref == alt:
                alt = {'A': 'C', 'C': 'G', 'G': 'T', 'T': 'A'}[alt[0]] + alt[1:]
            alts = [alt]
            q = rng.random()
            nonref = False
            if q < 0.03:
                alts = []                                             # ALT "."
            elif q < 0.06:
                alts = [alt, '<NON_REF>']
                nonref = True
            symbolic = False
            if alts and not nonref and rng.random() < 0.04:
                # structural record: symbolic allele, INFO END (pysam keeps END out of record.info)
                ref = ref[:1]
                alts = [rng.choice(['<DEL>', '<DUP>', '<INS>'])]
                symbolic = True
            key = (cname, pos, ref, alts[0] if alts else '.')
            if key in keys:
                continue
            keys.add(key)
            mode = fmt_mode if fmt_mode != 'mixed' else rng.choice(['full', 'full', 'noDP', 'noAD', 'GTonly'])
            has_ad = mode in ('full', 'noDP')
            has_dp = mode in ('full', 'noAD')
            calls = [gen_call(rng, bool(alts), depth_bias, nonref) for _ in samples]
            if all_normal_ref:
                calls[-1]['gt'] = [0, 0]
            if hom_only:
                for c in calls:
                    if len(set(c['gt'])) > 1:
                        c['gt'] = rng.choice([[0, 0], [1, 1]])
            f = rng.random()
            filt = ['PASS'] if f < 0.6 else [] if f < 0.75 else ['q10'] if f < 0.85 else ['REJECT'] if f < 0.92 \
                else ['q10', 'REJECT'] if f < 0.96 else ['KEEP']
            recs.append({
                'chrom': cname, 'ckey': ckey, 'pos': pos, 'ref': ref, 'alts': alts, 'filt': filt,
                'somatic': rng.random() < 0.12,
                'info_dp': rng.choice([None, None, rng.randint(0, 90)]),
                'info_end': (pos + rng.randint(1, 500)) if symbolic else rng.choice([None, None, None, None, pos + rng.randint(0, 60)]),
                'has_ad': has_ad, 'has_dp': has_dp, 'calls': calls})
    # one whole sample without any AD / DP / GT value (its columns must still come out numeric: 0 where missing)
    w = rng.random()
    whole = None
    if recs and w < 0.12:
        k = rng.randrange(nsamp)
        whole = 'ad' if w < 0.06 else 'dp' if w < 0.10 else 'gt'
        for r in recs:
            c = r['calls'][k]
            if whole == 'ad':
                c['ad'] = [None]
            elif whole == 'dp':
                c['dp'] = None
            else:
                c['gt'] = rng.choice([[None, None], [None]])
    order = 'sorted'
    if rng.random() < 0.3:
        rng.shuffle(recs)
        order = 'shuffled'
    # contigs that carry records but have no ##contig line (htslib adds them while parsing)
    header_contigs = list(contigs)
    if rng.random() < 0.15:
        header_contigs.remove(rng.choice(header_contigs))
    return {'samples': samples, 'peds': peds, 'other_ped_lines': other_ped_lines, 'contigs': contigs,
            'header_contigs': header_contigs,
            'recs': recs, 'order': order, 'mind': mind, 'size_class': size_class, 'whole_sample_missing': whole}


def call_text(rec, c):
    sep = '|' if c['phased'] else '/'
    out = [sep.join('.' if a is None else str(a) for a in c['gt'])]
    if rec['has_ad']:
        out.append('.' if c['ad'] == [None] else ','.join('.' if a is None else str(a) for a in c['ad']))
    if rec['has_dp']:
        out.append('.' if c['dp'] is None else str(c['dp']))
    if c.get('trim'):
        while len(out) > 1 and out[-1] == '.':
            out.pop()
    return ':'.join(out)


def write_vcf(path, vcf):
    with open(path, 'w') as fh:
        fh.write(HEADER)
        for cname, _ in vcf.get('header_contigs', vcf['contigs']):
            fh.write('##contig=<ID=%s,length=100000000>\n' % cname)
        for line in vcf['other_ped_lines']:
            fh.write(line + '\n')
        for d, o in vcf['peds']:
            fh.write('##PEDIGREE=<Derived=%s,Original=%s>\n' % (d, o))
        fh.write('#CHROM\tPOS\tID\tREF\tALT\tQUAL\tFILTER\tINFO\tFORMAT\t' + '\t'.join(vcf['samples']) + '\n')
        for r in vcf['recs']:
            info = []
            if r['info_dp'] is not None:
                info.append('DP=%d' % r['info_dp'])
            if r['info_end'] is not None:
                info.append('END=%d' % r['info_end'])
            if r['somatic']:
                info.append('SOMATIC')
            fmt = 'GT' + (':AD' if r['has_ad'] else '') + (':DP' if r['has_dp'] else '')
            fh.write('\t'.join([r['chrom'], str(r['pos']), '.', r['ref'], ','.join(r['alts']) or '.', '.',
                                ';'.join(r['filt']) or '.', ';'.join(info) or '.', fmt]
                               + [call_text(r, c) for c in r['calls']]) + '\n')


def model_header(vcf):
    return [list(vcf['samples']), [list(p) for p in vcf['peds']]]


def model_records(vcf):
    return [[r['chrom'], r['ckey'], r['pos'], r['ref'], list(r['alts']), list(r['filt']), r['somatic'], r['info_dp'],
             r['info_end'], r['has_ad'], r['has_dp'], [[list(c['gt']), list(c['ad']), c['dp']] for c in r['calls']]]
            for r in vcf['recs']]


# ----------------------------------------------------------------------------
# running the code


def fcell(x):
    """float cell -> float | 'inf' | None (NaN)"""
    if x is None:
        return None
    x = float(x)
    if x != x:
        return None
    if x == math.inf:
        return 'inf'
    if x == -math.inf:
        return '-inf'
    return x


VALUE_COLUMNS = ('zygosity', 'depth', 'alt_count', 'alt_freq')
N_VALUE_COLUMNS = ('n_zygosity', 'n_depth', 'n_alt_count', 'n_alt_freq')


class MissingColumns(Exception):
    pass


def table_rows(varr):
    """VariantArray -> (paired, labels, rows) with rows = [chrom, start, end, ref, alt, somatic, [z, d, c, f], n|None]"""
    d = varr.data
    paired = 'n_depth' in d.columns
    cols = {c: d[c].tolist() for c in d.columns}
    rows = []
    missing = [c for c in VALUE_COLUMNS + (N_VALUE_COLUMNS if paired else ()) if c not in d.columns]
    if missing:
        raise MissingColumns(missing)
    for i in range(len(d)):
        t = [fcell(cols['zygosity'][i]), fcell(cols['depth'][i]), fcell(cols['alt_count'][i]), fcell(cols['alt_freq'][i])]
        n = None
        if paired:
            n = [fcell(cols['n_zygosity'][i]), fcell(cols['n_depth'][i]), fcell(cols['n_alt_count'][i]),
                 fcell(cols['n_alt_freq'][i])]
        rows.append([cols['chromosome'][i], int(cols['start'][i]), int(cols['end'][i]), cols['ref'][i], cols['alt'][i],
                     bool(cols['somatic'][i]), t, n])
    return paired, [int(x) for x in d.index.tolist()], rows


def errname(e):
    n = type(e).__name__
    return Err(n if n in ('IndexError', 'AssertionError', 'ValueError', 'KeyError') else 'Other:' + n + ':' + str(e)[:80])


def code_choose(path, ssel, nsel):
    import pysam
    from skgenome.tabio import vcfio
    try:
        rd = pysam.VariantFile(path)
        sid, nid = vcfio._choose_samples(rd, ssel, nsel)
        return [sid, nid]
    except Exception as e:      # noqa
        return errname(e)


def code_read(path, ssel, nsel, md, sr, ss):
    from skgenome import tabio
    try:
        kw = {}
        if sr:
            kw['skip_reject'] = True
        v = tabio.read(path, 'vcf', sample_id=ssel, normal_id=nsel, min_depth=md, skip_somatic=ss, **kw)
        return v
    except Exception as e:      # noqa
        return errname(e)


def code_load_het(path, ssel, nsel, md, zf, tb):
    from cnvlib import cmdutil
    try:
        return cmdutil.load_het_snps(path, ssel, nsel, md, zf, tb)
    except Exception as e:      # noqa
        return errname(e)


def make_segments(ranges, index_mode='default'):
    """index_mode: row labels of the segment table -- 'default' 0..n-1, 'gaps' (what a boolean-mask subset
    leaves), 'repeated' (what pd.concat of per-arm tables leaves).  Labels are not part of the property."""
    from cnvlib.cnary import CopyNumArray as CNA
    rows = [(c, s, e, '-', 0.0) for c, s, e in ranges]
    arr = CNA.from_rows(rows, ['chromosome', 'start', 'end', 'gene', 'log2'])
    if index_mode == 'gaps':
        arr.data.index = [2 * i + 1 for i in range(len(rows))]
    elif index_mode == 'repeated':
        arr.data.index = [i // 2 for i in range(len(rows))]
    return arr


def series_cells(x, n):
    import pandas as pd
    if isinstance(x, pd.DataFrame):
        return 'dest'
    vals = [fcell(v) for v in list(x)]
    return vals


# ----------------------------------------------------------------------------
# comparisons


def same_num(code, model):
    """code cell (float|'inf'|None) vs model cell (Fraction|int|'inf'|None)"""
    if model is None or code is None:
        return model is None and code is None
    if model in ('inf', '-inf') or code in ('inf', '-inf'):
        return model == code
    return vlib.close(float(code), model)


def same_vec(code, model):
    if code == 'dest' or model == 'dest' or isinstance(code, Err) or isinstance(model, Err):
        return code == model
    return len(code) == len(model) and all(same_num(c, m) for c, m in zip(code, model))


def same_row(c, m):
    if c[:6] != m[:6]:
        return False
    for cg, mg in ((c[6], m[6]), (c[7], m[7])):
        if (cg is None) != (mg is None):
            return False
        if cg is not None and not all(same_num(a, b) for a, b in zip(cg, mg)):
            return False
    return True


def same_rows(code, model):
    return len(code) == len(model) and all(same_row(c, m) for c, m in zip(code, model))


# ----------------------------------------------------------------------------
# direct oracle, from the property text

UNDEF = 'undef'


def o_resolve(samples, sel):
    if sel is None:
        return None
    if isinstance(sel, int):
        if -len(samples) <= sel < len(samples):
            return samples[sel]
        raise IndexError
    return sel


def o_choose(vcf, ssel, nsel):
    """(sample, normal|None) by the documented rules: PEDIGREE-declared pairs first, else
    the given tumour and normal ids, else the first sample.  UNDEF where the text is silent."""
    samples, peds = vcf['samples'], vcf['peds']
    try:
        s, n = o_resolve(samples, ssel), o_resolve(samples, nsel)
    except IndexError:
        return Err('IndexError')
    for x in (s, n):
        if x is not None and x not in samples:
            return Err('IndexError')
    if peds:
        if s is None:
            pair = peds[0]
        else:
            mine = [p for p in peds if p[0] == s]
            pair = mine[0] if mine else (s, None)        # a declared normal asked for as the sample: unpaired
    elif n is not None:
        if s is None:
            others = [x for x in samples if x != n]
            if not others:
                return UNDEF
            pair = (others[0], n)
        elif s == n:
            return UNDEF
        else:
            pair = (s, n)
    else:
        pair = (s if s is not None else samples[0], None)
    if any(x is not None and x not in samples for x in pair):
        return Err('IndexError')
    return [pair[0], pair[1]]


def o_geno(rec, call):
    """zygosity / depth / alt count / alt_freq of one sample, UNDEF where a value is missing"""
    gt = call['gt']
    if all(a is not None for a in gt):
        k = set(gt)
        z = F(1, 2) if len(k) > 1 else (F(0) if k == {0} else F(1))
    else:
        z = UNDEF
    d = call['dp'] if (rec['has_dp'] and call['dp'] is not None) else UNDEF
    ad = call['ad']
    c = ad[1] if (rec['has_ad'] and len(ad) >= 2 and ad[1] is not None) else UNDEF
    f = F(c, d) if (d != UNDEF and c != UNDEF and d > 0) else UNDEF
    return [z, d, c, f]


def o_rows(vcf, sid, nid, skip_reject=False):
    """key -> expected fields, for every record with a real alternative allele"""
    si = vcf['samples'].index(sid)
    ni = vcf['samples'].index(nid) if nid else None
    out = {}
    for r in vcf['recs']:
        if not r['alts']:
            continue
        if skip_reject and set(r['filt']) - {'PASS', 'KEEP'}:
            continue
        key = (r['chrom'], r['pos'] - 1, r['ref'], r['alts'][0])
        out[key] = {'somatic': r['somatic'], 'ckey': r['ckey'], 't': o_geno(r, r['calls'][si]),
                    'n': o_geno(r, r['calls'][ni]) if ni is not None else None}
    return out


def rkey(row):
    return (row[0], row[1], row[3], row[4])


def o_check_rows(ck, vcf, case, sid, nid, rows, skip_reject):
    """C18_rows / C18_attached on an UNFILTERED read: one row per record, fields as defined"""
    exp = o_rows(vcf, sid, nid, skip_reject)
    got = [rkey(r) for r in rows]
    if sorted(got) != sorted(exp):
        report(ck, 'read: rows are not one per record with a real alt allele', case, code=sorted(got)[:50],
                     expected=sorted(exp)[:50], clause='C18_rows')
        return False
    ckeys = {c: k for c, k in vcf['contigs']}
    order = [(ckeys[r[0]], r[1], r[2]) for r in rows]
    if order != sorted(order):
        report(ck, 'read: rows are not sorted by chromosome, start, end', case, code=order[:50], clause='C18_rows')
        return False
    for r in rows:
        e = exp[rkey(r)]
        if r[5] != e['somatic']:
            report(ck, 'read: somatic flag differs from the SOMATIC INFO flag', case, code=r, expected=e['somatic'],
                         clause='C18_rows')
            return False
        if (r[7] is None) != (e['n'] is None):
            report(ck, 'read: paired-normal columns do not match the chosen pair', case, code=r, clause='C18_choose')
            return False
        for got_g, exp_g, who in ((r[6], e['t'], 'sample'), (r[7], e['n'], 'normal')):
            if exp_g is None:
                continue
            for j, name in enumerate(('zygosity', 'depth', 'alt_count', 'alt_freq')):
                if exp_g[j] == UNDEF:
                    continue
                if not same_num(got_g[j], exp_g[j]):
                    report(ck, 'read: %s %s of %s:%d is not the record\'s own value' % (who, name, r[0], r[1] + 1), case,
                                 code=got_g[j], expected=exp_g[j], row=r, clause='C18_rows/C18_attached')
                    return False
    return True


def frac(x):
    return None if x is None else (x if x == 'inf' else F(x))


def exact_freq(vcf_rows_exact, row, which):
    """the exact count/depth of a code row (from its own integer columns)"""
    g = row[6] if which == 't' else row[7]
    d, c = g[1], g[2]
    if d is None or c is None or d == 0:
        return None
    return F(int(c), int(d))


def median_f(vals):
    s = sorted(vals)
    n = len(s)
    return s[n // 2] if n % 2 else (s[n // 2 - 1] + s[n // 2]) / 2


def mirror_f(above, v):
    sh = abs(v - F(1, 2))
    return F(1, 2) + sh if above else F(1, 2) - sh


def boost_f(t, n):
    """TumorBoost (Bengtsson 2010) as quoted by the package: 0.5 t/n if t < n else 1 - 0.5 (1-t)/(1-n)"""
    if t < n:
        return F(1, 2) * t / n
    if n == 1:
        return UNDEF
    return 1 - F(1, 2) * (1 - t) / (1 - n)


def germ(row):
    g = row[7] if row[7] is not None else row[6]
    return g[0]


def finite_rows(rows):
    for r in rows:
        for g in (r[6], r[7]):
            if g is not None and (g[3] == 'inf' or g[3] is None):
                return False
    return True


# ----------------------------------------------------------------------------
# segment tables


def gen_ranges(rng, vcf, rows):
    """sorted segment table over the VCF's contigs, breakpoints biased to variant starts/ends"""
    by = {}
    for r in rows:
        by.setdefault(r[0], []).append((r[1], r[2]))
    contigs = list(vcf['contigs'])
    if rng.random() < 0.25:
        extra = [c for c in (GENOME if contigs and contigs[0][0].startswith('chr') else GENOME_NOPREFIX) if c not in contigs]
        if extra:
            contigs.append(rng.choice(extra))
    if len(contigs) > 1 and rng.random() < 0.2:
        contigs.remove(rng.choice(contigs))
    contigs.sort(key=lambda c: c[1])
    out = []
    for cname, _ in contigs:
        iv = by.get(cname, [])
        hi = max([e for _, e in iv] + [100]) + rng.randint(0, 50)
        cuts = set()
        for _ in range(rng.choice([0, 1, 2, 3, 5, 8])):
            if iv and rng.random() < 0.7:
                s, e = rng.choice(iv)
                cuts.add(max(0, rng.choice([s, s + 1, e, e - 1, s - 1, e + 1])))
            else:
                cuts.add(rng.randint(0, hi))
        pts = sorted(cuts | {rng.choice([0, 0, rng.randint(0, 30)]), hi})
        for a, b in zip(pts, pts[1:]):
            if a >= b:
                continue
            if rng.random() < 0.1:
                continue                      # gap between segments
            out.append([cname, a, b])
    return out


# ----------------------------------------------------------------------------
# one VCF: run code, oracle, queue model requests.  Every stage is a function of
# explicit arguments, so that the random stream and the fixed corpus share them.


class Pending:
    def __init__(self):
        self.req = {}       # entry -> list of (input, callback)

    def add(self, entry, inp, cb):
        self.req.setdefault(entry, []).append((inp, cb))

    def flush(self):
        for entry, items in self.req.items():
            outs = vlib.model_batch_parallel('c18_' + entry, [i for i, _ in items])
            for (inp, cb), o in zip(items, outs):
                cb(o)
        self.req = {}


def gen_selectors(rng, vcf):
    samples = vcf['samples']
    n = len(samples)

    def one(allow_bad=True):
        u = rng.random()
        if u < 0.45:
            return None
        if u < 0.75:
            return rng.choice(samples)
        if u < 0.93:
            return rng.randrange(-n, n)
        if not allow_bad:
            return None
        return rng.choice(['NOSUCH', n, -n - 1])
    s, m = one(), one()
    if rng.random() < 0.55:
        m = None
    return s, m


def valid_selectors(rng, vcf):
    """selectors that certainly select something (for the stages after reading)"""
    for _ in range(20):
        s, m = gen_selectors(rng, vcf)
        o = o_choose(vcf, s, m)
        if isinstance(o, list):
            return s, m
    return None, None


def pair_selectors(rng, vcf):
    """valid selectors, biased to a tumour/normal pair when the file allows one"""
    samples = vcf['samples']
    if not vcf['peds'] and len(samples) >= 2 and rng.random() < 0.6:
        n = rng.choice(samples)
        s = rng.choice([None, rng.choice([x for x in samples if x != n])])
        if rng.random() < 0.3:
            n = samples.index(n)
        return s, n
    return valid_selectors(rng, vcf)


def small(case_vcf):
    """JSON form of a VCF for replay files (records capped)"""
    v = dict(case_vcf)
    v['recs'] = v['recs'][:40]
    v['n_recs'] = len(case_vcf['recs'])
    return v


class Ctx:
    """one VCF written to disk + its model encoding"""

    def __init__(self, ck, pend, scratch, idx, vcf):
        self.ck, self.pend, self.idx, self.vcf = ck, pend, idx, vcf
        self.path = os.path.join(scratch, 'v%d.vcf' % idx)
        write_vcf(self.path, vcf)
        self.H, self.R = model_header(vcf), model_records(vcf)
        self.base = {'vcf': small(vcf), 'file_index': idx}

    def close(self):
        os.remove(self.path)


def read_rows(ck, v, case, clause):
    """table_rows, reporting a table that lost its columns"""
    try:
        return table_rows(v)
    except MissingColumns as e:
        report(ck, 'the variant table lacks the columns %s' % ', '.join(e.args[0]), case,
               code=list(v.data.columns), clause=clause)
        return None


# ---- sample choice ------------------------------------------------------------


def stage_choose(cx, ssel, nsel):
    ck, vcf = cx.ck, cx.vcf
    case = dict(cx.base, stage='choose', sample_id=ssel, normal_id=nsel)
    c = code_choose(cx.path, ssel, nsel)
    o = o_choose(vcf, ssel, nsel)
    cls = 'choose:%s:%s' % ('ped' if vcf['peds'] else 'noped',
                            'err' if isinstance(c, Err) else ('pair' if c[1] else 'single'))
    ck.count(['choose', vcf['samples'], vcf['peds'], ssel, nsel],
             nontrivial=(ssel is not None or nsel is not None or bool(vcf['peds'])), cls=cls)
    if o != UNDEF and c != o:
        report(ck, 'sample/normal choice differs from the documented rules', case, code=c, expected=o, clause='C18_choose')
        return

    def cb(m, c=c, case=case):
        if m != c:
            ck.tie_break('model choose_samples differs from _choose_samples', case, code=c, model=m)
    cx.pend.add('choose', [cx.H, ssel, nsel], cb)


# ---- read ------------------------------------------------------------------------


def stage_read(cx, ssel, nsel, md, sr, ss):
    ck, vcf, idx, path = cx.ck, cx.vcf, cx.idx, cx.path
    case = dict(cx.base, stage='read', sample_id=ssel, normal_id=nsel, min_depth=md, skip_reject=sr, skip_somatic=ss)
    v = code_read(path, ssel, nsel, md, sr, ss)
    o = o_choose(vcf, ssel, nsel)
    if isinstance(v, Err):
        c = v
        ck.count(['read', idx, ssel, nsel, md, sr, ss], nontrivial=False, cls='read:error')
        if isinstance(o, list):
            report(ck, 'reading raised %s for selectors the documented rules accept' % v.msg, case, code=v, expected=o,
                   clause='C18_choose')
            return
    else:
        tr = read_rows(ck, v, case, 'C18_rows')
        if tr is None:
            return
        paired, labels, rows = tr
        c = [paired, rows]
        ck.count(['read', idx, ssel, nsel, md, sr, ss], nontrivial=len(rows) > 0,
                 cls='read:%s:%s%s%s%s' % ('paired' if paired else 'single', 'd' if md else '-', 's' if ss else '-',
                                           'r' if sr else '-', ':no-records' if not vcf['recs'] else ''))
        if labels != list(range(len(rows))):
            report(ck, 'read: index is not 0..n-1 after sort', case, code=labels[:20], clause='C18_attached')
            return
        if isinstance(o, Err):
            report(ck, 'reading succeeded although the selectors name no sample of the file', case, code=c[0], expected=o,
                   clause='C18_choose')
            return
        if isinstance(o, list):
            if paired != bool(o[1]):
                report(ck, 'read: paired-normal columns do not follow the chosen pair', case, code=paired, expected=o,
                       clause='C18_choose')
                return
            if not md and not ss:
                if not o_check_rows(ck, vcf, case, o[0], o[1], rows, sr):
                    return
            else:
                # C18_filters: exactly the unfiltered rows passing the filters (metamorphic on the code's own rows)
                v0 = code_read(path, ssel, nsel, None, sr, False)
                if isinstance(v0, Err):
                    report(ck, 'unfiltered read fails where the filtered read works', case, code=v0, clause='C18_filters')
                    return
                tr0 = read_rows(ck, v0, case, 'C18_rows')
                if tr0 is None:
                    return
                rows0 = tr0[2]
                exp = rows0
                if md and any(r[6][1] for r in rows0):
                    exp = [r for r in exp if (r[7] if r[7] is not None else r[6])[1] >= md]
                if ss:
                    exp = [r for r in exp if not r[5]]
                if rows != exp:
                    report(ck, 'read: filtered table is not the unfiltered table restricted by min_depth/skip_somatic',
                           case, code=[rkey(r) for r in rows][:40], expected=[rkey(r) for r in exp][:40], clause='C18_filters')
                    return

    def cb(m, c=c, case=case):
        if isinstance(m, Err) or isinstance(c, Err):
            if m != c:
                ck.tie_break('model read_vcf error behaviour differs from the code', case, code=c, model=m)
            return
        if m[0] != c[0] or not same_rows(c[1], m[1]):
            bad = next((i for i, (a, b) in enumerate(zip(c[1], m[1])) if not same_row(a, b)), None)
            ck.tie_break('model read_vcf differs from tabio.read', case, code_paired=c[0], model_paired=m[0],
                         n_code=len(c[1]), n_model=len(m[1]), first_diff=bad,
                         code=c[1][bad] if bad is not None and bad < len(c[1]) else None,
                         model=m[1][bad] if bad is not None and bad < len(m[1]) else None)
    cx.pend.add('read', [cx.H, cx.R, ssel, nsel, md, sr, ss], cb)


# ---- load_het_snps ------------------------------------------------------------------


def stage_het(cx, ssel, nsel, md, zf, tb, expect=None):
    """returns the source tuple of the kept table (for the BAF stages) when tumor_boost is off"""
    ck, vcf, idx, path = cx.ck, cx.vcf, cx.idx, cx.path
    case = dict(cx.base, stage='load_het', sample_id=ssel, normal_id=nsel, min_depth=md, zygosity_freq=zf, tumor_boost=tb)
    h = code_load_het(path, ssel, nsel, md, zf, tb)
    v1 = code_read(path, ssel, nsel, md, False, True)
    if isinstance(v1, Err):
        ck.count(['het', idx, ssel, nsel, md, zf, tb], nontrivial=False, cls='het:read-error')
        return None
    tr1 = read_rows(ck, v1, case, 'C18_rows')
    if tr1 is None:
        return None
    paired, _, rows1 = tr1
    fin = finite_rows(rows1)
    if not fin:
        ck.cls('het:non-finite-frequency')
    # which rows are germline-heterozygous according to the property
    eff = zf
    fallback_freq = False
    if zf is None and paired and not any(r[7][0] for r in rows1):
        eff = 0.25
        fallback_freq = True        # documented Mutect2 work-around: genotypes say nothing, no oracle
    # which rows of the decision table (Props C18_load_het_table) this case exercises
    if fallback_freq:
        ck.cls('het:table:automatic-zygosity_freq-0.25')
    if paired and rows1 and eff is not None and 0 <= eff <= 0.5 and fin:
        def zq(g):
            x = F(int(g[2]), int(g[1])) if g[1] else F(0)
            return 0 if x < F(eff) else (1 if x >= 1 - F(eff) else F(1, 2))
        by_gt = [r[6][0] != 0 and r[7][0] == 0 for r in rows1]
        by_fq = [zq(r[6]) != 0 and zq(r[7]) == 0 for r in rows1]
        if by_gt != by_fq:
            ck.cls('het:table:regenotyping-changes-the-somatic-drop')
    if paired and md:
        si, ni = None, None
        oc = o_choose(vcf, ssel, nsel)
        if isinstance(oc, list) and oc[1]:
            si, ni = vcf['samples'].index(oc[0]), vcf['samples'].index(oc[1])
            for r in vcf['recs']:
                dt, dn = o_geno(r, r['calls'][si])[1], o_geno(r, r['calls'][ni])[1]
                if dt != UNDEF and dn != UNDEF and (dt >= md) != (dn >= md):
                    ck.cls('het:table:min-depth-decided-by-the-normal')
                    break
    amb = [False]
    if eff is not None and 0 <= eff <= 0.5:
        lo, hi = F(eff), 1 - F(eff)

        def zy(g):
            f = g[3]
            if f == 'inf':
                return F(1)
            d, c = g[1], g[2]
            x = F(int(c), int(d)) if d else F(0)
            for thr in (lo, hi):
                if x != thr and abs(x - thr) < F(1, 10 ** 9):
                    amb[0] = True
            if float(hi) != 1 - eff:
                amb[0] = amb[0] or abs(x - hi) < F(1, 10 ** 9)
            return F(0) if x < lo else (F(1) if x >= hi else F(1, 2))
        germs = [zy(r[7] if r[7] is not None else r[6]) for r in rows1]
        for r in rows1:
            if r[7] is not None:
                zy(r[6])        # the tumour's zygosity column is recomputed too: same float caveat
    else:
        germs = [frac(germ(r)) for r in rows1]
    ret = None
    if isinstance(h, Err):
        c = h
        ck.count(['het', idx, ssel, nsel, md, zf, tb], nontrivial=False, cls='het:error:' + h.msg[:14])
        expect_err = (zf is not None and not (0 <= zf <= 0.5)) or (tb and not paired)
        if not expect_err:
            report(ck, 'load_het_snps raised %s' % h.msg, case, code=h, clause='C18_het')
            return None
    else:
        trh = read_rows(ck, h, case, 'C18_het')
        if trh is None:
            return None
        hp, hlabels, hrows = trh
        c = [hp, [[l, r] for l, r in zip(hlabels, hrows)]]
        exp = [r for r, g in zip(rows1, germs) if g == F(1, 2)]
        n_het = len(exp)
        ck.count(['het', idx, ssel, nsel, md, zf, tb], nontrivial=n_het > 0 and n_het < len(rows1),
                 cls='het:%s:%s%s:%s%s' % ('paired' if paired else 'single', 'zf' if zf is not None else 'gt',
                                           '+boost' if tb else '', 'none-het' if n_het == 0 else 'some-het',
                                           ':rows-dropped' if hlabels != list(range(len(hlabels))) else ''))
        if amb[0]:
            ck.float_ambiguous += 1
            return None
        if expect is not None:
            got = [[r[1], r[6][3]] for r in hrows]
            if len(got) != len(expect) or any(a[0] != b[0] or not same_num(a[1], frac_s(b[1])) for a, b in zip(got, expect)):
                report(ck, 'corpus: load_het_snps rows (start, alt_freq) differ from the recorded expectation', case,
                       code=got, expected=expect, clause='C18_het/C18_attached')
                return None
        if not fallback_freq:
            got_keys = [rkey(r) for r in hrows]
            if n_het == 0 and hrows:
                report(ck, 'load_het_snps keeps %d records although none is germline-heterozygous (documented '
                       'fallback of VariantArray.heterozygous)' % len(hrows), case, sig=SIG_FALLBACK,
                       code=got_keys[:20], expected=[], clause='C18_het_fallback')
            elif got_keys != [rkey(r) for r in exp]:
                report(ck, 'load_het_snps does not keep exactly the germline-heterozygous records', case,
                       code=got_keys[:40], expected=[rkey(r) for r in exp][:40], clause='C18_het')
                return None
            elif fin:
                # C18_attached / C18_boost: every kept row still carries its own numbers -- with tumor_boost the
                # TumorBoost value of ITS OWN tumour and normal frequencies, whatever rows were dropped before
                for r, e in zip(hrows, exp):
                    ef = frac(e[6][3])
                    if tb:
                        ef = boost_f(exact_freq(None, e, 't') or F(0), exact_freq(None, e, 'n') or F(0))
                        if ef == UNDEF:
                            continue
                    z0 = 1 if eff is not None else 0      # zygosity is recomputed from the frequency when asked
                    if not same_num(r[6][3], ef) or r[6][z0:3] != e[6][z0:3] or r[:6] != e[:6] \
                            or (r[7] is None) != (e[7] is None) or (r[7] is not None and r[7][z0:] != e[7][z0:]):
                        report(ck, 'load_het_snps%s: the kept row at %s:%d does not carry its own %s frequency' % (
                            '(tumor_boost=True)' if tb else '', r[0], r[1], 'TumorBoost-normalised' if tb else 'allele'),
                            case, code=r, expected=ef, read_row=e, clause='C18_attached/C18_boost')
                        return None
        if not tb:
            ret = (1, ssel, nsel, md, True, zf, h, hrows, paired, hlabels)

    def cb(m, c=c, case=case):
        if isinstance(m, Err) or isinstance(c, Err):
            if m != c:
                ck.tie_break('model load_het_snps error behaviour differs from the code', case, code=c, model=m)
            return
        cl = [x[0] for x in c[1]]
        ml = [x[0] for x in m[1]]
        if m[0] != c[0] or cl != ml or not same_rows([x[1] for x in c[1]], [x[1] for x in m[1]]):
            ck.tie_break('model load_het_snps differs from the code', case, code_labels=cl[:30], model_labels=ml[:30],
                         code=[x[1] for x in c[1]][:10], model=[x[1] for x in m[1]][:10])
    if fin:
        cx.pend.add('load_het', [cx.H, cx.R, ssel, nsel, md, zf, tb], cb)
    return ret


def frac_s(x):
    """corpus expectation cell: null | 'a/b' | number"""
    if x is None:
        return None
    return F(x)


# ---- BAF per range ------------------------------------------------------------------------


def make_source(cx, stage, ssel, nsel, md, ss, zf, must=False):
    """the variant table a BAF query runs on: stage 0 = tabio.read, stage 1 = load_het_snps(tumor_boost=False)"""
    case = dict(cx.base, stage='source', source_stage=stage, sample_id=ssel, normal_id=nsel, min_depth=md, skip_somatic=ss,
                zygosity_freq=zf)
    v = code_read(cx.path, ssel, nsel, md, False, ss) if stage == 0 else code_load_het(cx.path, ssel, nsel, md, zf, False)
    if isinstance(v, Err):
        if must:
            report(cx.ck, 'corpus: the variant table could not be built: %s' % v.msg, case, code=v, clause='C18_rows')
        return None
    tr = read_rows(cx.ck, v, case, 'C18_rows')
    if tr is None:
        return None
    paired, labels, rows = tr
    return (stage, ssel, nsel, md, ss if stage == 0 else True, zf, v, rows, paired, labels)


def het_rows(rows):
    """the germline-heterozygous rows of a table, by its own zygosity columns (the normal's when paired)"""
    return [r for r in rows if frac(germ(r)) == F(1, 2)]


def own_values(rows, tb, paired):
    """the frequency each row contributes: count/depth of its own columns (0 where missing), TumorBoost-ed with
    the row's own normal frequency when asked and there is a normal"""
    out = []
    for r in rows:
        t = exact_freq(None, r, 't') or F(0)
        if tb and paired:
            out.append(boost_f(t, exact_freq(None, r, 'n') or F(0)))
        else:
            out.append(t)
    return out


def o_range_baf(het, rg, ah, tb, paired):
    """candidates for the BAF of one range, from the property text: the median of the heterozygous frequencies
    inside it mirrored to one side of 1/2; None = missing; UNDEF where the text is silent (a variant straddles
    the range boundary, TumorBoost undefined)"""
    chrom, s, e = rg
    inside = [r for r in het if r[0] == chrom and s <= r[1] and r[2] <= e]
    touching = [r for r in het if r[0] == chrom and r[2] > s and r[1] < e]
    if len(inside) != len(touching):
        return UNDEF, []
    vals = own_values(inside, tb, paired)
    if UNDEF in vals:
        return UNDEF, vals
    if not vals:
        return [None], vals
    return [median_f([mirror_f(a, x) for x in vals]) for a in ((True, False) if ah is None else (ah,))], vals


def stage_baf(cx, source, queries, expects=None):
    ck, idx = cx.ck, cx.idx
    (stage, ssel, nsel, md, ss, zf, varr, rows, paired, labels) = source
    if not finite_rows(rows):
        ck.cls('baf:non-finite-frequency-skipped')
        return
    het = het_rows(rows)
    none_het = bool(rows) and not het
    # a normal frequency of exactly 1 makes TumorBoost divide by zero (inf / NaN): outside the model's BAF stages
    # (only the rows that are boosted matter: the heterozygous ones, or all of them under the fallback)
    boost_inf = paired and any((exact_freq(None, r, 'n') or F(0)) == 1 for r in (het or rows))
    dropped = labels != list(range(len(labels)))
    code_out, cases = [], []
    for qi, (ranges, ah, tb) in enumerate(queries):
        case = dict(cx.base, stage='baf', source_stage=stage, sample_id=ssel, normal_id=nsel, min_depth=md, skip_somatic=ss,
                    zygosity_freq=zf, ranges=ranges, above_half=ah, tumor_boost=tb)
        try:
            out = varr.baf_by_ranges(make_segments(ranges), above_half=ah, tumor_boost=tb)
            c = series_cells(out, len(ranges))
        except Exception as e:      # noqa
            c = errname(e)
        code_out.append(c)
        cases.append(case)
        ck.count(['baf', idx, stage, ssel, nsel, md, ss, zf, ranges, ah, tb], nontrivial=bool(het) and bool(ranges),
                 cls='baf:%s:%s%s%s%s' % ('ah=' + str(ah), 'boost' if (tb and paired) else 'plain', ':none-het' if none_het else '',
                                          ':rows-dropped' if dropped else '', ':no-rows' if not rows else ''))
        if tb and boost_inf:
            ck.cls('baf:boost-with-normal-frequency-1(skipped)')
            code_out[-1] = SKIP
            continue
        if isinstance(c, Err):
            report(ck, 'baf_by_ranges raised %s' % c.msg, case, code=c,
                   expected=[None] * len(ranges) if not rows else None, clause='C18_baf')
            continue
        if c == 'dest':
            if ranges:
                report(ck, 'baf_by_ranges returns the ranges table itself, not one value per range', case,
                       code='<the ranges DataFrame>', expected=[None] * len(ranges) if not rows else None, clause='C18_baf')
            continue
        if len(c) != len(ranges):
            report(ck, 'baf_by_ranges: result length differs from the number of ranges', case, code=len(c),
                   expected=len(ranges), clause='C18_baf')
            continue
        if expects is not None and expects[qi] is not None:
            ex = [frac_s(x) for x in expects[qi]]
            if len(ex) != len(c) or not all(same_num(a, b) for a, b in zip(c, ex)):
                report(ck, 'corpus: baf_by_ranges differs from the recorded expectation', case, code=c, expected=expects[qi],
                       clause='C18_baf')
                continue
        if none_het:
            # the property: no heterozygous frequency anywhere => every range is missing; the code's
            # heterozygous() falls back to ALL rows (open finding, same fallback as in load_het_snps)
            if any(x is not None for x in c):
                report(ck, 'baf_by_ranges gives a BAF from %d records none of which is germline-heterozygous (documented '
                       'fallback of VariantArray.heterozygous)' % len(rows), case, sig=SIG_FALLBACK, code=c,
                       expected=[None] * len(ranges), clause='C18_het_fallback')
            continue
        # per range: median of the contained heterozygous frequencies mirrored to one side of 1/2
        for rg, got in zip(ranges, c):
            cands, vals = o_range_baf(het, rg, ah, tb, paired)
            if cands == UNDEF:
                ck.cls('baf:range-outside-the-text(model only)')
                continue
            ck.cls('baf:range-hits=%s' % (len(vals) if len(vals) < 3 else '3+'))
            if any(same_num(got, x) for x in cands):
                continue
            chrom, s, e = rg
            if cands == [None]:
                report(ck, 'BAF of %s:%d-%d, a range without heterozygous variants, is not missing' % (chrom, s, e), case,
                       range=[chrom, s, e], code=got, expected=None, clause='C18_baf')
            else:
                report(ck, 'BAF of %s:%d-%d is not the median of its %d heterozygous %sfrequencies mirrored %s 1/2' % (
                    chrom, s, e, len(vals), 'TumorBoost ' if (tb and paired) else '',
                    'above' if ah else 'below' if ah is not None else 'to one side of'), case,
                    range=[chrom, s, e], frequencies=vals[:20], code=got, expected=cands, clause='C18_baf')
            break

    def cb(m, code_out=code_out, cases=cases):
        if isinstance(m, Err):
            ck.tie_break('model BAF source table errors where the code reads fine', cases[0] if cases else cx.base, model=m)
            return
        for c, mm, case in zip(code_out, m, cases):
            if c != SKIP and not same_vec(c, mm):
                ck.tie_break('model baf_by_ranges differs from the code', case, code=c, model=mm)
                return
    if queries:
        cx.pend.add('baf', [cx.H, cx.R, ssel, nsel, stage, md, ss, zf, [list(q) for q in queries]], cb)


# ---- baf_by_ranges with another summary function ---------------------------------------------


def summary_funcs():
    import numpy as np
    return {'median': np.nanmedian, 'mean': np.nanmean, 'min': np.nanmin, 'max': np.nanmax}


def agg_f(name, vals):
    if name == 'median':
        return median_f(vals)
    if name == 'mean':
        return sum(vals) / len(vals)
    return min(vals) if name == 'min' else max(vals)


def o_range_gen(het, rg, ah, tb, paired, name):
    """candidates for the value of one range under summary function `name`: no heterozygous variant inside -> missing;
    ONE -> that frequency (mirrored only when a side was requested); more -> the summary of the mirrored frequencies"""
    chrom, s, e = rg
    inside = [r for r in het if r[0] == chrom and s <= r[1] and r[2] <= e]
    touching = [r for r in het if r[0] == chrom and r[2] > s and r[1] < e]
    if len(inside) != len(touching):
        return UNDEF, []
    vals = own_values(inside, tb, paired)
    if UNDEF in vals:
        return UNDEF, vals
    if not vals:
        return [None], vals
    if len(vals) == 1:
        return ([mirror_f(ah, vals[0])] if ah is not None else [vals[0]]), vals
    return [agg_f(name, [mirror_f(a, x) for x in vals]) for a in ((True, False) if ah is None else (ah,))], vals


def stage_baf_gen(cx, source, queries):
    """queries: (ranges, above_half, tumor_boost, summary function name)"""
    ck, idx = cx.ck, cx.idx
    (stage, ssel, nsel, md, ss, zf, varr, rows, paired, labels) = source
    if not finite_rows(rows):
        return
    het = het_rows(rows)
    none_het = bool(rows) and not het
    boost_inf = paired and any((exact_freq(None, r, 'n') or F(0)) == 1 for r in (het or rows))
    funcs = summary_funcs()
    code_out, cases, sent = [], [], []
    for ranges, ah, tb, name in queries:
        if not ranges or (tb and boost_inf):
            continue
        case = dict(cx.base, stage='baf', summary_func='np.nan' + name, source_stage=stage, sample_id=ssel, normal_id=nsel,
                    min_depth=md, skip_somatic=ss, zygosity_freq=zf, ranges=ranges, above_half=ah, tumor_boost=tb)
        try:
            out = varr.baf_by_ranges(make_segments(ranges), summary_func=funcs[name], above_half=ah, tumor_boost=tb)
            c = series_cells(out, len(ranges))
        except Exception as e:      # noqa
            c = errname(e)
        sent.append([[ranges, ah, tb], name])
        code_out.append(c)
        cases.append(case)
        ck.count(['baf_gen', idx, stage, ssel, nsel, md, ss, zf, ranges, ah, tb, name], nontrivial=bool(het),
                 cls='baf:summary_func=%s:ah=%s%s' % (name, ah, ':boost' if (tb and paired) else ''))
        if isinstance(c, Err) or c == 'dest' or len(c) != len(ranges):
            report(ck, 'baf_by_ranges(summary_func=np.nan%s) does not give one value per range' % name, case, code=c,
                   clause='C18_baf_general')
            continue
        if none_het:
            continue
        for rg, got in zip(ranges, c):
            cands, vals = o_range_gen(het, rg, ah, tb, paired, name)
            if cands == UNDEF or any(same_num(got, x) for x in cands):
                continue
            report(ck, 'baf_by_ranges(summary_func=np.nan%s): value of %s:%d-%d is not the %s of its %d heterozygous '
                   'frequencies mirrored %s 1/2' % (name, rg[0], rg[1], rg[2], name, len(vals),
                                                    'above' if ah else 'below' if ah is not None else 'to one side of'),
                   case, range=list(rg), frequencies=vals[:20], code=got, expected=cands, clause='C18_baf_general')
            break

    def cb(m, code_out=code_out, cases=cases):
        if isinstance(m, Err):
            ck.tie_break('model BAF source table errors where the code reads fine', cases[0] if cases else cx.base, model=m)
            return
        for c, mm, case in zip(code_out, m, cases):
            if not same_vec(c, mm):
                ck.tie_break('model baf_by_ranges_gen differs from the code', case, code=c, model=mm)
                return
    if sent:
        cx.pend.add('baf_gen', [cx.H, cx.R, ssel, nsel, stage, md, ss, zf, sent], cb)


# ---- whole-array mirrored_baf and tumor_boost() ---------------------------------------------


def stage_mirrored(cx, source, mq):
    ck, idx = cx.ck, cx.idx
    (stage, ssel, nsel, md, ss, zf, varr, rows, paired, labels) = source
    nonfinite = not finite_rows(rows)
    boost_inf = paired and (nonfinite or any((exact_freq(None, r, 'n') or F(0)) == 1 for r in rows))
    # infinite frequencies (count > 0 at depth 0) and TumorBoost over a normal frequency of 1 (x/0): compared with
    # the IEEE reading of the model (Model/VBaf.v mirrored_baf_r: inf / -inf / NaN cells); no direct oracle there
    use_r = nonfinite or boost_inf
    if use_r:
        ck.cls('mirrored:%s(IEEE model)' % ('infinite-frequency' if nonfinite else 'normal-frequency-1'))
    mc = []
    for ah, tb in mq:
        case = dict(cx.base, stage='mirrored', source_stage=stage, sample_id=ssel, normal_id=nsel, min_depth=md,
                    skip_somatic=ss, zygosity_freq=zf, above_half=ah, tumor_boost=tb)
        try:
            mc.append([fcell(x) for x in list(varr.mirrored_baf(above_half=ah, tumor_boost=tb))])
        except Exception as e:      # noqa
            mc.append(errname(e))
        ck.count(['mirrored', idx, stage, ssel, nsel, md, ss, zf, ah, tb], nontrivial=len(rows) > 1,
                 cls='mirrored:ah=%s%s' % (ah, ':boost' if (tb and paired) else ''))
        if isinstance(mc[-1], Err):
            report(ck, 'mirrored_baf raised %s' % mc[-1].msg, case, code=mc[-1], clause='C18_baf')
            continue
        if nonfinite or (tb and boost_inf):
            continue
        base_vals = own_values(rows, tb, paired)
        if UNDEF in base_vals:
            continue
        if len(mc[-1]) != len(rows):
            report(ck, 'mirrored_baf: not one value per variant', case, code=len(mc[-1]), expected=len(rows), clause='C18_baf')
            continue
        for a in ((True, False) if ah is None else (ah,)):
            if all(same_num(g, mirror_f(a, x)) for g, x in zip(mc[-1], base_vals)):
                break
        else:
            report(ck, 'mirrored_baf is not 1/2 +- |f - 1/2| row by row', case, code=mc[-1][:20],
                   expected=[mirror_f(True if ah is None else ah, x) for x in base_vals][:20], clause='C18_baf/C18_boost')
    case = dict(cx.base, stage='tumor_boost', source_stage=stage, sample_id=ssel, normal_id=nsel, min_depth=md,
                skip_somatic=ss, zygosity_freq=zf)
    tbv = None
    if paired:
        try:
            ser = varr.tumor_boost()
            tbv = [fcell(x) for x in list(ser)]
            if [int(x) for x in ser.index.tolist()] != labels:
                report(ck, 'tumor_boost(): the result is not labelled like the variants it was computed from', case,
                       code=[int(x) for x in ser.index.tolist()][:30], expected=labels[:30], clause='C18_attached')
            elif not nonfinite:
                exp = own_values(rows, True, True)
                for r, g, x in zip(rows, tbv, exp):
                    if x != UNDEF and not same_num(g, x):
                        report(ck, 'tumor_boost(): the value at %s:%d is not TumorBoost of that row\'s own frequencies' % (
                            r[0], r[1]), case, code=g, expected=x, row=r, clause='C18_boost/C18_attached')
                        break
        except Exception as e:      # noqa
            tbv = errname(e)
            report(ck, 'tumor_boost() raised %s on a tumour/normal table' % tbv.msg, case, code=tbv, clause='C18_boost')
            tbv = SKIP

    def cb2(m, mc=mc, tbv=tbv, info=dict(case, stage='mirrored', queries=[list(q) for q in mq])):
        if isinstance(m, Err):
            ck.tie_break('model mirrored_baf source errors', info, model=m)
            return
        for c, mm, (ah_, tb_) in zip(mc, m[0], mq):
            if c == SKIP or isinstance(c, Err):
                continue
            if not same_vec(c, mm):
                if ah_ is None and not nonfinite and not (tb_ and boost_inf):
                    base = own_values(rows, tb_, paired)
                    if UNDEF not in base and median_near_half([float(x) for x in base]):
                        ck.float_ambiguous += 1
                        continue
                ck.tie_break('model mirrored_baf differs from the code', info, code=c[:30], model=mm[:30])
                return
        if tbv == SKIP:
            return
        if (tbv is None) != (m[1] is None) or (tbv is not None and not same_vec(tbv, m[1])):
            ck.tie_break('model tumor_boost differs from the code', info, code=tbv, model=m[1])
    cx.pend.add('mirrored_r' if use_r else 'mirrored', [cx.H, cx.R, ssel, nsel, stage, md, ss, zf, [list(q) for q in mq]], cb2)


# ---- het_frac_by_ranges ------------------------------------------------------------------------


def stage_het_frac(cx, source, range_tables):
    ck, idx = cx.ck, cx.idx
    (stage, ssel, nsel, md, ss, zf, varr, rows, paired, labels) = source
    het_keys = set(id(r) for r in het_rows(rows))
    code_out, cases = [], []
    for ranges in range_tables:
        case = dict(cx.base, stage='het_frac', source_stage=stage, sample_id=ssel, normal_id=nsel, min_depth=md,
                    skip_somatic=ss, zygosity_freq=zf, ranges=ranges)
        try:
            c = series_cells(varr.het_frac_by_ranges(make_segments(ranges)), len(ranges))
        except Exception as e:      # noqa
            c = errname(e)
        code_out.append(c)
        cases.append(case)
        ck.count(['het_frac', idx, stage, ssel, nsel, md, ss, zf, ranges], nontrivial=bool(rows) and bool(ranges),
                 cls='het_frac')
        if isinstance(c, Err):
            report(ck, 'het_frac_by_ranges raised %s' % c.msg, case, code=c, clause='C18_het_frac')
            continue
        if c == 'dest':
            if ranges:
                report(ck, 'het_frac_by_ranges returns the ranges table itself', case, clause='C18_het_frac')
            continue
        if len(c) != len(ranges):
            report(ck, 'het_frac_by_ranges: result length differs from the number of ranges', case, code=len(c),
                   expected=len(ranges), clause='C18_het_frac')
            continue
        for (chrom, s_, e_), got in zip(ranges, c):
            inside = [r for r in rows if r[0] == chrom and s_ <= r[1] and r[2] <= e_]
            touching = [r for r in rows if r[0] == chrom and r[2] > s_ and r[1] < e_]
            if len(inside) != len(touching):
                continue
            exp = F(sum(1 for r in inside if id(r) in het_keys), len(inside)) if inside else None
            if not same_num(got, exp):
                report(ck, 'het_frac of %s:%d-%d is not the fraction of germline-heterozygous variants among the %d inside it'
                       % (chrom, s_, e_, len(inside)), case, range=[chrom, s_, e_], code=got, expected=exp,
                       clause='C18_het_frac')
                break

    def cb(m, code_out=code_out, cases=cases):
        if isinstance(m, Err):
            ck.tie_break('model het_frac source errors', cases[0] if cases else cx.base, model=m)
            return
        for c, mm, case in zip(code_out, m, cases):
            if not same_vec(c, mm):
                ck.tie_break('model het_frac_by_ranges differs from the code', case, code=c, model=mm)
                return
    if range_tables:
        cx.pend.add('het_frac', [cx.H, cx.R, ssel, nsel, stage, md, ss, zf, [list(r) for r in range_tables]], cb)


# ---- do_call: baf column, purity rescaling -------------------------------------------------------


def stage_call(cx, source, calls):
    from cnvlib import call as cnv_call
    ck, idx = cx.ck, cx.idx
    (stage, ssel, nsel, md, ss, zf, varr, rows, paired, labels) = source
    if stage != 1 or not finite_rows(rows):
        return
    het = het_rows(rows)
    none_het = bool(rows) and not het
    code_out, cases, sent = [], [], []
    for ranges, purity in calls:
        if not ranges:
            continue
        case = dict(cx.base, stage='do_call', sample_id=ssel, normal_id=nsel, min_depth=md, zygosity_freq=zf, ranges=ranges,
                    purity=purity)
        try:
            out = cnv_call.do_call(make_segments(ranges, ('default', 'gaps', 'repeated')[len(sent) % 3]), varr,
                                   method='none', purity=purity)
            c = [fcell(x) for x in out['baf'].tolist()] if 'baf' in out else 'dest'
            if out.data[['chromosome', 'start', 'end']].values.tolist() != [list(r) for r in ranges]:
                report(ck, 'do_call changed the segment coordinates', case, clause='C18_attached')
        except Exception as e:      # noqa
            c = errname(e)
        sent.append([ranges, purity])
        code_out.append(c)
        cases.append(case)
        rescaled = bool(purity and purity < 1)
        ck.count(['call', idx, ssel, nsel, md, zf, ranges, purity], nontrivial=bool(rows),
                 cls='call:%s' % ('rescaled' if rescaled else 'plain'))
        if isinstance(c, Err):
            report(ck, 'do_call with variants raised %s' % c.msg, case, code=c, clause='C18_rescale')
            continue
        if c == 'dest':
            if rows:
                report(ck, 'do_call with variants produced no baf column', case, clause='C18_baf')
            continue
        if none_het:
            if any(x is not None for x in c):
                report(ck, 'do_call gives a baf from %d records none of which is germline-heterozygous (documented fallback '
                       'of VariantArray.heterozygous)' % len(rows), case, sig=SIG_FALLBACK, code=c,
                       expected=[None] * len(ranges), clause='C18_het_fallback')
            continue
        for rg, got in zip(ranges, c):
            cands, vals = o_range_baf(het, rg, None, False, paired)
            if cands == UNDEF:
                continue
            if cands != [None] and rescaled:
                p = F(purity)
                cands = [(x - F(1, 2) * (1 - p)) / p for x in cands]       # t = (obs - (1 - p)/2) / p
            if not any(same_num(got, x) for x in cands):
                report(ck, 'do_call: baf of %s:%d-%d is not the (purity-rescaled) mirrored median of its heterozygous '
                       'frequencies' % tuple(rg), case, range=list(rg), frequencies=vals[:20], code=got, expected=cands,
                       clause='C18_rescale')
                break

    def cb3(m, code_out=code_out, cases=cases):
        if isinstance(m, Err):
            ck.tie_break('model do_call source errors', cases[0] if cases else cx.base, model=m)
            return
        for c, mm, case in zip(code_out, m, cases):
            if not same_vec(c, mm):
                ck.tie_break('model baf column of do_call differs from the code', case, code=c, model=mm)
                return
    if sent:
        cx.pend.add('call_baf', [cx.H, cx.R, ssel, nsel, md, zf, sent], cb3)


# ---- the random stream over one VCF ----------------------------------------------------------------


def run_vcf(ck, rng, scratch, idx, vcf, pend, budget):
    cx = Ctx(ck, pend, scratch, idx, vcf)
    if vcf.get('whole_sample_missing'):
        ck.cls('vcf:one-sample-without-any-%s' % vcf['whole_sample_missing'].upper())
    ck.cls('vcf:records=%s:samples=%d:contigs=%d%s' % (vcf['size_class'], len(vcf['samples']), len(vcf['contigs']),
                                                       ':pedigree' if vcf['peds'] else ''))
    for name, hit in (('contig-absent-from-header', len(vcf.get('header_contigs', vcf['contigs'])) < len(vcf['contigs'])
                       and any(r['chrom'] not in dict(vcf['header_contigs']) for r in vcf['recs'])),
                      ('symbolic-alt-with-END', any(r['alts'] and r['alts'][0].startswith('<') and r['alts'][0] != '<NON_REF>'
                                                    for r in vcf['recs'])),
                      ('trailing-format-values-dropped', any(c.get('trim') and call_text(r, c) != call_text(r, dict(c, trim=False))
                                                             for r in vcf['recs'] for c in r['calls'])),
                      ('haploid-genotype', any(len(c['gt']) == 1 for r in vcf['recs'] for c in r['calls'])),
                      ('phased-genotype', any(c['phased'] and len(c['gt']) > 1 for r in vcf['recs'] for c in r['calls'])),
                      ('filter-values', any(r['filt'] and r['filt'] != ['PASS'] for r in vcf['recs'])),
                      ('alt-dot', any(not r['alts'] for r in vcf['recs']))):
        if hit:
            ck.cls('vcf:' + name)
    for _ in range(budget['choose']):
        ssel, nsel = gen_selectors(rng, vcf)
        stage_choose(cx, ssel, nsel)
    for j in range(budget['read']):
        if j == 0:
            ssel, nsel = valid_selectors(rng, vcf)
            md, sr, ss = None, False, False
        else:
            ssel, nsel = gen_selectors(rng, vcf) if rng.random() < 0.3 else valid_selectors(rng, vcf)
            md = rng.choice([None, 0, 1, vcf['mind'], vcf['mind'], 20, rng.randint(1, 60)])
            sr = rng.random() < 0.2
            ss = rng.random() < 0.5
        stage_read(cx, ssel, nsel, md, sr, ss)
    het_tables = []
    for j in range(budget['het']):
        ssel, nsel = pair_selectors(rng, vcf)
        md = rng.choice([20, 20, vcf['mind'], vcf['mind'], 1, 0, None, rng.randint(1, 40)])
        zf = rng.choice([None, None, None, 0.25, 0.25, 0.125, 0.375, 0.0, 0.5, 0.3, 0.1, 0.75])
        tb = rng.random() < 0.3
        t = stage_het(cx, ssel, nsel, md, zf, tb)
        if t is not None:
            het_tables.append(t)
    sources = []
    for j in range(budget['baf']):
        if het_tables and rng.random() < 0.6:
            sources.append(rng.choice(het_tables))
        else:
            ssel, nsel = pair_selectors(rng, vcf)
            md = rng.choice([None, None, vcf['mind'], 20])
            ss = rng.random() < 0.5
            src = make_source(cx, 0, ssel, nsel, md, ss, None)
            if src is not None:
                sources.append(src)
    for src in sources:
        rows, paired = src[7], src[8]
        queries = []
        for q in range(budget['baf_q']):
            ranges = gen_ranges(rng, vcf, rows)
            if rng.random() < 0.03:
                ranges = []
            ah = rng.choice([None, None, True, False, True, False])
            tb = rng.random() < (0.4 if paired else 0.1)
            queries.append((ranges, ah, tb))
        stage_baf(cx, src, queries)
        stage_baf_gen(cx, src, [(gen_ranges(rng, vcf, rows), rng.choice([None, True, False]),
                                 rng.random() < (0.3 if paired else 0.0), rng.choice(['mean', 'min', 'max', 'mean', 'median']))
                                for _ in range(budget.get('baf_gen', 1))])
        stage_mirrored(cx, src, [(ah, rng.random() < (0.5 if paired else 0.1)) for ah in (None, True, False)])
        if src[0] == 0 or rng.random() < 0.5:
            stage_het_frac(cx, src, [gen_ranges(rng, vcf, rows)])
    for src in het_tables[:budget['call']]:
        calls = []
        for q in range(2):
            ranges = gen_ranges(rng, vcf, src[7])
            purity = rng.choice([None, 1.0, 0.5, 0.25, 0.75, 0.3, 0.9, round(rng.uniform(0.05, 0.99), 2)])
            calls.append((ranges, purity))
        stage_call(cx, src, calls)
    cx.close()


# ----------------------------------------------------------------------------
# formulas on their own


def check_formulas(ck, rng):
    from cnvlib import vary, call as cnv_call
    import numpy as np
    import pandas as pd
    n = 400 if ck.tier == 'quick' else 8000
    pairs = []
    grid = [F(a, b) for b in (1, 2, 3, 4, 5, 8, 10, 20, 40) for a in range(0, b + 1)]
    for _ in range(n):
        t, m = rng.choice(grid), rng.choice(grid)
        if rng.random() < 0.2:
            m = t
        pairs.append((t, m))
    pairs += [(F(1), F(1)), (F(0), F(0)), (F(1, 2), F(1)), (F(0), F(1)), (F(1), F(0))]
    tf = np.array([float(t) for t, _ in pairs])
    nf = np.array([float(m) for _, m in pairs])
    code = [fcell(x) for x in vary._tumor_boost(tf, nf).tolist()]
    # floats of the grid are not exact: feed the model the floats the code saw
    model = vlib.model_batch('c18_boost', [[[float(t), float(m)] for t, m in pairs]])[0]
    for (t, m), c, mo in zip(pairs, code, model):
        ck.count(['boost', t, m], nontrivial=t != m, cls='boost:%s' % ('t<n' if t < m else 't>=n'))
        e = boost_f(F(float(t)), F(float(m)))
        if e != UNDEF and not same_num(c, e):
            report(ck, 'TumorBoost formula: boosted(%s, %s)' % (t, m), {'t': t, 'n': m}, code=c, expected=e, clause='C18_boost')
            continue
        if not same_num(c, mo):
            ck.tie_break('model _tumor_boost differs from the code', {'t': t, 'n': m}, code=c, model=mo)
    # rescale_baf and its inverse
    cases = []
    for _ in range(n):
        p = rng.choice([F(1, 10), F(1, 4), F(1, 2), F(3, 4), F(9, 10), F(1), F(rng.randint(1, 100), 100)])
        tb = rng.choice(grid)
        obs = p * tb + (1 - p) / 2
        cases.append((p, obs, tb))
    code = [float(cnv_call.rescale_baf(float(p), pd.Series([float(o)])).iat[0]) for p, o, _ in cases]
    model = vlib.model_batch('c18_rescale', [[[float(p), float(o)] for p, o, _ in cases]])[0]
    for (p, o, tb), c, mo in zip(cases, code, model):
        ck.count(['rescale', p, o], nontrivial=p != 1, cls='rescale')
        if not vlib.close(c, tb, 1e-7):
            report(ck, 'rescale_baf does not invert the mixing p*t + (1-p)/2', {'purity': p, 'observed': o}, code=c,
                   expected=tb, clause='C18_rescale')
        elif not vlib.close(c, mo):
            ck.tie_break('model rescale_baf differs from the code', {'purity': p, 'observed': o}, code=c, model=mo)
    # the per-range summary on its own: k frequencies in one range of a one-contig table, through the public method
    from cnvlib.vary import VariantArray
    sums = []
    for _ in range(n):
        k = rng.choice([0, 1, 1, 1, 2, 2, 3, 4, 5, 8])
        vals = [rng.choice(grid) for _ in range(k)]
        ah = rng.choice([None, True, False, True, False])
        sums.append((ah, vals))
    model = vlib.model_batch('c18_summary', [[ah, [float(x) for x in vals]] for ah, vals in sums])
    seg = make_segments([['chr1', 0, 1000]])
    for (ah, vals), mo in zip(sums, model):
        ck.count(['summary', ah, vals], nontrivial=len(vals) > 1, cls='summary:%d:ah=%s' % (min(len(vals), 3), ah))
        if not vals:
            continue        # a table without rows: covered by the corpus
        tab = pd.DataFrame({'chromosome': ['chr1'] * len(vals), 'start': list(range(10, 10 + len(vals))),
                            'end': list(range(11, 11 + len(vals))), 'ref': 'A', 'alt': 'G',
                            'zygosity': 0.5, 'alt_freq': [float(x) for x in vals]})
        c = fcell(list(VariantArray(tab).baf_by_ranges(seg, above_half=ah))[0])
        fv = [F(float(x)) for x in vals]
        cands = [median_f([mirror_f(a, x) for x in fv]) for a in ((True, False) if ah is None else (ah,))]
        if not any(same_num(c, x) for x in cands):
            report(ck, 'BAF of one range holding %d heterozygous frequencies is not their median mirrored %s 1/2' % (
                len(vals), 'above' if ah else 'below' if ah is not None else 'to one side of'),
                {'above_half': ah, 'values': vals}, code=c, expected=cands, clause='C18_baf')
            continue
        if not same_num(c, mo):
            if len(fv) > 1 and ah is None and median_f(fv) != F(1, 2) and abs(median_f(fv) - F(1, 2)) < F(1, 10 ** 9):
                ck.float_ambiguous += 1
                continue
            ck.tie_break('model series2value differs from baf_by_ranges on one range', {'above_half': ah, 'values': vals},
                         code=c, model=mo)


def median_near_half(vals):
    """the majority direction `median > 0.5` is a float decision: True when the exact median of the non-NaN values
    (infinities ordered) is finite and within 1e-9 of 1/2 -- float and exact arithmetic may then disagree"""
    xs = sorted(x for x in vals if x == x)
    if not xs:
        return False
    n = len(xs)
    mid = [xs[n // 2]] if n % 2 else [xs[n // 2 - 1], xs[n // 2]]
    if any(abs(x) == math.inf for x in mid):
        return False
    m = sum(F(x) for x in mid) / len(mid)
    return abs(m - F(1, 2)) < F(1, 10 ** 9)


def xcell(x):
    """python float -> IEEE cell of the model: number | 'inf' | '-inf' | None (NaN)"""
    x = float(x)
    if x != x:
        return None
    if x == math.inf:
        return 'inf'
    if x == -math.inf:
        return '-inf'
    return x


def edge_class(t, n):
    if t != t or n != n:
        return 'missing'
    if abs(t) == math.inf or abs(n) == math.inf:
        return 'infinite'
    if n == 1:
        return 'n=1:t<1' if t < 1 else 'n=1:t=1' if t == 1 else 'n=1:t>1'
    if n == 0:
        return 'n=0:t>=0' if t >= 0 else 'n=0:t<0'
    if t == n:
        return 't=n'
    return 'regular'


def check_edges(ck, rng):
    """The elementwise formulas on the values the proofs case-split on (Props: C18_boost_edges, C18_boost_range,
    C18_source_mirror): 0, 1, t = n, missing, infinite -- code vs the IEEE reading of the model, and vs the formula
    of the property text wherever it defines a number."""
    from cnvlib import vary
    from cnvlib.vary import VariantArray
    import numpy as np
    import pandas as pd
    nan, inf = float('nan'), math.inf
    specials = [0.0, 1.0, 0.5, 0.25, 0.75, 0.125, 1.5, -0.25, 2.0, nan, inf, -inf]
    pairs = [(a, b) for a in specials for b in specials]
    grid = [float(F(a, b)) for b in (1, 2, 3, 4, 5, 8, 10, 20, 40) for a in range(0, b + 1)]
    for _ in range(300 if ck.tier == 'quick' else 6000):
        t = rng.choice(grid) if rng.random() < 0.8 else rng.choice(specials)
        n = rng.choice(grid) if rng.random() < 0.8 else rng.choice(specials)
        if rng.random() < 0.15:
            n = t
        pairs.append((t, n))
    code = [fcell(x) for x in vary._tumor_boost(np.array([p[0] for p in pairs]), np.array([p[1] for p in pairs])).tolist()]
    model = vlib.model_batch('c18_boost_ieee', [[[xcell(t), xcell(n)] for t, n in pairs]])[0]
    for (t, n), c, mo in zip(pairs, code, model):
        k = edge_class(t, n)
        ck.count(['boost_ieee', repr(t), repr(n)], nontrivial=k != 'regular', cls='boost-edge:' + k)
        case = {'stage': '_tumor_boost', 't': repr(t), 'n': repr(n)}
        if k in ('regular', 't=n', 'n=0:t>=0', 'n=1:t<1'):
            e = boost_f(F(t), F(n))
            if not same_num(c, e):
                report(ck, 'TumorBoost formula: boosted(%r, %r)' % (t, n), case, code=c, expected=e, clause='C18_boost')
                continue
            if k == 't=n' and not same_num(c, F(1, 2)):
                report(ck, 'TumorBoost of equal tumour and normal frequencies is not 1/2', case, code=c, expected=F(1, 2),
                       clause='C18_boost_same')
                continue
            if 0 <= t <= 1 and 0 < n < 1 and not (c is not None and c not in ('inf', '-inf') and -1e-12 <= c <= 1 + 1e-12):
                report(ck, 'TumorBoost of frequencies in [0,1] leaves [0,1]', case, code=c, clause='C18_boost_range')
                continue
        if not same_num(c, mo):
            ck.tie_break('model boost_ieee differs from _tumor_boost', case, code=c, model=mo)
    # _mirrored_baf on whole vectors, direction given or from the median (NaN skipped, infinities ordered)
    vecs = []
    for _ in range(150 if ck.tier == 'quick' else 3000):
        k = rng.choice([0, 1, 2, 2, 3, 4, 5, 7])
        vals = [rng.choice(grid) if rng.random() < 0.8 else rng.choice(specials) for _ in range(k)]
        vecs.append((rng.choice([None, None, True, False]), vals))
    model = vlib.model_batch('c18_mirror_vec', [[ah, [xcell(x) for x in vals]] for ah, vals in vecs])
    for (ah, vals), mo in zip(vecs, model):
        c = [fcell(x) for x in vary._mirrored_baf(pd.Series(vals, dtype=float), ah).tolist()]
        fin = all(x == x and abs(x) != inf for x in vals)
        ck.count(['mirror_vec', ah, [repr(x) for x in vals]], nontrivial=len(vals) > 1,
                 cls='mirror-vector:ah=%s:%s' % (ah, 'finite' if fin else 'non-finite'))
        case = {'stage': '_mirrored_baf', 'above_half': ah, 'values': [repr(x) for x in vals]}
        if fin and vals:
            for a in ((True, False) if ah is None else (ah,)):
                if all(same_num(g, mirror_f(a, F(x))) for g, x in zip(c, vals)):
                    break
            else:
                report(ck, '_mirrored_baf is not 1/2 +- |v - 1/2| element by element', case, code=c,
                       expected=[mirror_f(True if ah is None else ah, F(x)) for x in vals], clause='C18_baf_mirror')
                continue
        if not same_vec(c, mo):
            if ah is None and len(vals) > 1 and median_near_half(vals):
                ck.float_ambiguous += 1
                continue
            ck.tie_break('model mirror_ieee / median_r differs from _mirrored_baf', case, code=c, model=mo)
    # one range, k heterozygous frequencies, summary function other than the default
    funcs = summary_funcs()
    seg = make_segments([['chr1', 0, 1000]])
    sums = []
    for _ in range(200 if ck.tier == 'quick' else 4000):
        k = rng.choice([1, 1, 2, 2, 3, 4, 5, 8])
        sums.append((rng.choice(['mean', 'min', 'max', 'median']), rng.choice([None, True, False]),
                     [rng.choice(grid) for _ in range(k)]))
    model = vlib.model_batch('c18_summary_gen', [[name, ah, vals] for name, ah, vals in sums])
    for (name, ah, vals), mo in zip(sums, model):
        ck.count(['summary_gen', name, ah, vals], nontrivial=len(vals) > 1,
                 cls='summary_func=%s:%d:ah=%s' % (name, min(len(vals), 3), ah))
        tab = pd.DataFrame({'chromosome': ['chr1'] * len(vals), 'start': list(range(10, 10 + len(vals))),
                            'end': list(range(11, 11 + len(vals))), 'ref': 'A', 'alt': 'G',
                            'zygosity': 0.5, 'alt_freq': vals})
        c = fcell(list(VariantArray(tab).baf_by_ranges(seg, summary_func=funcs[name], above_half=ah))[0])
        fv = [F(x) for x in vals]
        if len(fv) == 1:
            cands = [mirror_f(ah, fv[0])] if ah is not None else [fv[0]]
        else:
            cands = [agg_f(name, [mirror_f(a, x) for x in fv]) for a in ((True, False) if ah is None else (ah,))]
        case = {'stage': 'baf_by_ranges', 'summary_func': 'np.nan' + name, 'above_half': ah, 'values': vals}
        if not any(same_num(c, x) for x in cands):
            report(ck, 'one range holding %d heterozygous frequencies: baf_by_ranges(summary_func=np.nan%s) is not their %s '
                   'after mirroring' % (len(vals), name, name), case, code=c, expected=cands, clause='C18_baf_general')
            continue
        if not same_num(c, mo):
            if len(fv) > 1 and ah is None and median_f(fv) != F(1, 2) and abs(median_f(fv) - F(1, 2)) < F(1, 10 ** 9):
                ck.float_ambiguous += 1
                continue
            ck.tie_break('model s2v_gen differs from baf_by_ranges on one range', case, code=c, model=mo)




# ----------------------------------------------------------------------------
# corpus: fixed regression cases (corpus/c18.json), run first.  An entry is
#   {name, what, vcf, steps: [...], budget?: {...}}
# and a step is one explicit call of a stage:
#   {stage: choose|read|het|baf|mirrored|call, ...arguments..., expect?}


def load_corpus():
    p = os.path.join(vlib.VERIF, 'corpus', 'c18.json')
    with open(p) as fh:
        return json.load(fh)


def norm_vcf(v):
    v = dict(v)
    v['contigs'] = [tuple(c) for c in v['contigs']]
    v['peds'] = [tuple(p) for p in v['peds']]
    if 'header_contigs' in v:
        v['header_contigs'] = [tuple(c) for c in v['header_contigs']]
    v.setdefault('other_ped_lines', [])
    v.setdefault('order', 'sorted')
    v.setdefault('mind', 20)
    v.setdefault('size_class', 'corpus')
    recs = []
    for r in v['recs']:
        r = dict(r)
        r.setdefault('filt', ['PASS'])
        r.setdefault('somatic', False)
        r.setdefault('info_dp', None)
        r.setdefault('info_end', None)
        r.setdefault('has_ad', True)
        r.setdefault('has_dp', True)
        r['ckey'] = dict(v['contigs'])[r['chrom']]
        r['calls'] = [dict(c, phased=c.get('phased', False), trim=c.get('trim', False)) for c in r['calls']]
        recs.append(r)
    v['recs'] = recs
    return v


def run_corpus_entry(ck, rng, scratch, idx, entry, pend):
    vcf = norm_vcf(entry['vcf'])
    cx = Ctx(ck, pend, scratch, idx, vcf)
    cx.base['corpus'] = entry['name']
    for st in entry.get('steps', []):
        k = st['stage']
        if k == 'choose':
            stage_choose(cx, st.get('sample_id'), st.get('normal_id'))
        elif k == 'read':
            stage_read(cx, st.get('sample_id'), st.get('normal_id'), st.get('min_depth'), st.get('skip_reject', False),
                       st.get('skip_somatic', False))
        elif k == 'het':
            stage_het(cx, st.get('sample_id'), st.get('normal_id'), st.get('min_depth', 20), st.get('zygosity_freq'),
                      st.get('tumor_boost', False), expect=st.get('expect'))
        else:
            s = st['source']
            src = make_source(cx, s['stage'], s.get('sample_id'), s.get('normal_id'), s.get('min_depth'),
                              s.get('skip_somatic', False), s.get('zygosity_freq'), must=True)
            if src is None:
                continue
            if k == 'baf':
                qs = [(q['ranges'], q.get('above_half'), q.get('tumor_boost', False)) for q in st['queries']]
                stage_baf(cx, src, qs, expects=[q.get('expect') for q in st['queries']])
            elif k == 'mirrored':
                stage_mirrored(cx, src, [(q.get('above_half'), q.get('tumor_boost', False)) for q in st['queries']])
            elif k == 'call':
                stage_call(cx, src, [(q['ranges'], q.get('purity')) for q in st['queries']])
            elif k == 'het_frac':
                stage_het_frac(cx, src, [q['ranges'] for q in st['queries']])
            else:
                raise RuntimeError('corpus/c18.json: unknown stage %r' % k)
    cx.close()
    if entry.get('budget'):
        run_vcf(ck, rng, scratch, idx, vcf, pend, entry['budget'])


# ----------------------------------------------------------------------------


def segment_baf_regression(ck, scratch):
    """The baf column of do_segmentation(haar, variants=...): two chromosomes with a clean log2 step and a
    different heterozygous allele fraction on each side of it.  Each output segment must carry the median
    mirrored frequency of the heterozygous variants inside ITS OWN range (regression input of the label
    alignment defect repaired in /repo: the concatenated per-segment pieces repeat row labels)."""
    import numpy as np
    from fractions import Fraction as Fr
    from cnvlib.cnary import CopyNumArray as CNA
    from cnvlib import segmentation, cmdutil
    fracs = {'chr1': (12, 18), 'chr2': (8, 16)}          # alt counts out of depth 40, first / second half
    lines = ['##fileformat=VCFv4.2', '##contig=<ID=chr1,length=100000000>', '##contig=<ID=chr2,length=100000000>',
             '##FORMAT=<ID=GT,Number=1,Type=String,Description="g">', '##FORMAT=<ID=AD,Number=R,Type=Integer,Description="a">',
             '##FORMAT=<ID=DP,Number=1,Type=Integer,Description="d">',
             '#CHROM\tPOS\tID\tREF\tALT\tQUAL\tFILTER\tINFO\tFORMAT\tT']
    var = []
    for c in ('chr1', 'chr2'):
        for i in range(60):
            a = fracs[c][0] if i < 30 else fracs[c][1]
            pos = 1000 + i * 5000
            lines.append('%s\t%d\t.\tA\tG\t.\tPASS\t.\tGT:AD:DP\t0/1:%d,%d:40' % (c, pos, 40 - a, a))
            var.append((c, pos - 1, Fr(a, 40)))
    path = os.path.join(scratch, 'segreg.vcf')
    open(path, 'w').write('\n'.join(lines) + '\n')
    rs = np.random.RandomState(1)
    rows = []
    for c in ('chr1', 'chr2'):
        for i in range(120):
            rows.append((c, i * 2500, i * 2500 + 2000, 'g', (0.8 if i < 60 else 0.0) + float(rs.normal(0, 0.02)), 50.0, 1.0))
    cn = CNA.from_rows(rows, ['chromosome', 'start', 'end', 'gene', 'log2', 'depth', 'weight'], {'sample_id': 's'})
    case = {'stage': 'do_segmentation', 'method': 'haar', 'vcf': 'two chromosomes x 60 het SNVs, allele fraction 12/40|18/40 and 8/40|16/40',
            'bins': '2 x 120 bins with a 0.8 -> 0.0 log2 step at bin 60'}
    try:
        varr = cmdutil.load_het_snps(path)
        seg = segmentation.do_segmentation(cn, 'haar', variants=varr)
        got = [(r.chromosome, int(r.start), int(r.end), None if r.baf != r.baf else float(r.baf)) for r in seg]
    except Exception as e:      # noqa
        report(ck, 'do_segmentation(haar, variants) raised %s' % type(e).__name__, case, clause='C18_baf')
        return
    ck.count(['segreg'], nontrivial=True, cls='segment:baf-regression')
    for c, s, e, b in got:
        inside = sorted(min(f, 1 - f) for cc, p, f in var if cc == c and s <= p < e)
        inside_hi = sorted(max(f, 1 - f) for cc, p, f in var if cc == c and s <= p < e)
        if not inside:
            exp = (None,)
        else:
            def med(l):
                n = len(l)
                return l[n // 2] if n % 2 else (l[n // 2 - 1] + l[n // 2]) / 2
            exp = (med(inside), med(inside_hi))
        ok = (b is None and exp == (None,)) or (b is not None and any(x is not None and abs(b - float(x)) <= 1e-9 for x in exp))
        if not ok:
            report(ck, 'baf of segment %s:%d-%d of do_segmentation(haar, variants) is not the mirrored median of the heterozygous '
                       'frequencies inside it' % (c, s, e), dict(case, segments=got), code=b,
                   expected=[None if x is None else str(x) for x in exp], clause='C18_baf/C18_attached')
            return


def gen_segment_case(rng):
    """2..4 chromosome arms, 1..3 segments each: a log2 level and an allele fraction of its own per segment; bins of
    2000 bases every 2500; per segment 0..14 variants (mostly heterozygous SNVs at depth 40 with the segment's alt count
    +-2, some homozygous, some too shallow, some flagged SOMATIC) at distinct positions inside the segment's bins"""
    arms = rng.sample([('chr1', 0), ('chr2', 1), ('chr3', 2), ('chr10', 3)], rng.randint(2, 4))
    arms.sort(key=lambda c: c[1])
    bins, recs, truth = [], [], []
    for cname, ckey in arms:
        nseg = rng.randint(1, 3)
        levels, counts = [], []
        for _ in range(nseg):
            lv = rng.choice([x for x in (-0.9, -0.45, 0.0, 0.5, 0.95) if not levels or abs(x - levels[-1]) >= 0.45])
            levels.append(lv)
            counts.append(rng.choice([x for x in (6, 9, 12, 15, 18, 20, 22, 25, 28, 31, 34) if x not in counts]))
        b0 = 0
        for lv, a in zip(levels, counts):
            nb = rng.randint(25, 40)
            lo, hi = b0 * 2500, (b0 + nb - 1) * 2500 + 2000
            for i in range(b0, b0 + nb):
                bins.append((cname, i * 2500, i * 2500 + 2000, lv))
            b0 += nb
            nv = rng.choice([0, 1, 1, 2, 3, 5, 8, 11, 14])
            for pos in sorted(rng.sample(range(lo + 1, hi), nv)):
                u = rng.random()
                gt, d, som = [0, 1], 40, False
                c = min(39, max(1, a + rng.choice([-2, -1, 0, 0, 1, 2])))
                if u < 0.12:
                    gt, c = [1, 1], 40
                elif u < 0.2:
                    gt, c = [0, 0], 0
                elif u < 0.28:
                    d = rng.choice([5, 12, 19])
                    c = d // 2
                elif u < 0.33:
                    som = True
                recs.append({'chrom': cname, 'ckey': ckey, 'pos': pos, 'ref': 'A', 'alts': ['G'], 'filt': ['PASS'],
                             'somatic': som, 'info_dp': None, 'info_end': None, 'has_ad': True, 'has_dp': True,
                             'calls': [{'gt': gt, 'phased': False, 'ad': [d - c, c], 'dp': d, 'trim': False}]})
            truth.append((cname, lo, hi, lv, a))
    vcf = {'samples': ['S1'], 'peds': [], 'other_ped_lines': [], 'contigs': arms, 'header_contigs': list(arms),
           'recs': recs, 'order': 'sorted', 'mind': 20, 'size_class': 'segments', 'whole_sample_missing': None}
    return vcf, bins, truth


def o_segment_baf(vcf, chrom, s, e):
    """the property: median of the heterozygous frequencies inside the segment's own range, mirrored to one side of
    1/2 (either side: the direction of the majority is not part of the text); missing when there is none"""
    vals = []
    for r in vcf['recs']:
        c = r['calls'][0]
        if r['chrom'] == chrom and s <= r['pos'] - 1 and r['pos'] <= e and not r['somatic'] and c['dp'] >= 20 \
                and len(set(c['gt'])) > 1:
            vals.append(F(c['ad'][1], c['dp']))
    if not vals:
        return [None], vals
    return [median_f([mirror_f(a, x) for x in vals]) for a in (True, False)], vals


def stage_segment(ck, rng, scratch, idx, pend):
    """The baf column of do_segmentation(..., variants=load_het_snps(vcf)) and of do_call on its output: each output
    segment must carry the median mirrored frequency of the heterozygous variants inside ITS OWN range; model side:
    baf_by_ranges over the output segments, one value per row."""
    import numpy as np
    from cnvlib.cnary import CopyNumArray as CNA
    from cnvlib import segmentation, cmdutil, call as cnv_call
    vcf, bins, truth = gen_segment_case(rng)
    cx = Ctx(ck, pend, scratch, idx, vcf)
    method = rng.choice(['haar', 'haar', 'haar', 'none'])
    bin_labels = rng.choice(['default', 'gaps'])
    rs = np.random.RandomState(rng.randrange(2 ** 31))
    rows = [(c, s_, e_, 'g', lv + float(rs.normal(0, 0.02)), 50.0, 1.0) for c, s_, e_, lv in bins]
    cn = CNA.from_rows(rows, ['chromosome', 'start', 'end', 'gene', 'log2', 'depth', 'weight'], {'sample_id': 's'})
    if bin_labels == 'gaps':
        cn.data.index = [3 * i + 2 for i in range(len(rows))]
    case = dict(cx.base, stage='do_segmentation', method=method, bin_labels=bin_labels,
                arms=[[c, lo, hi, lv, '%d/40' % a] for c, lo, hi, lv, a in truth], n_bins=len(bins))
    try:
        varr = cmdutil.load_het_snps(cx.path)
        seg = segmentation.do_segmentation(cn, method, variants=varr)
        got = [(r.chromosome, int(r.start), int(r.end), fcell(r.baf)) for r in seg]
    except Exception as e:      # noqa
        report(ck, 'do_segmentation(%s, variants) raised %s: %s' % (method, type(e).__name__, str(e)[:100]), case, clause='C18_baf')
        cx.close()
        return
    nseg_by_arm = {}
    for c, _, _, _ in got:
        nseg_by_arm[c] = nseg_by_arm.get(c, 0) + 1
    ck.count(['segment', idx, method], nontrivial=any(v > 1 for v in nseg_by_arm.values()),
             cls='segment:%s:arms=%d:segments=%d' % (method, len(nseg_by_arm), len(got)))
    ranges = [[c, s_, e_] for c, s_, e_, _ in got]
    ok = True
    kept = [r for r in vcf['recs'] if not r['somatic'] and r['calls'][0]['dp'] >= 20]
    if kept and not any(len(set(r['calls'][0]['gt'])) > 1 for r in kept):
        # no heterozygous record in the whole file: heterozygous() falls back to ALL records (open finding); the
        # model follows the code there, the property's oracle (every segment missing) is reported under the signature
        ok = False
        if any(b is not None for _, _, _, b in got):
            report(ck, 'do_segmentation gives a baf from %d records none of which is germline-heterozygous (documented '
                   'fallback of VariantArray.heterozygous)' % len(kept), dict(case, segments=got), sig=SIG_FALLBACK,
                   code=[b for _, _, _, b in got], expected=[None] * len(got), clause='C18_het_fallback')
    for c, s_, e_, b in (got if ok else []):
        cands, vals = o_segment_baf(vcf, c, s_, e_)
        ck.cls('segment:variants-in-segment=%s' % (len(vals) if len(vals) < 2 else '2+'))
        if not any(same_num(b, x) for x in cands):
            report(ck, 'baf of segment %s:%d-%d of do_segmentation(%s, variants) is not the mirrored median of the %d '
                   'heterozygous frequencies inside it' % (c, s_, e_, method, len(vals)),
                   dict(case, segments=got), code=b, expected=cands, frequencies=vals[:20], clause='C18_baf/C18_attached')
            ok = False
            break

    def cb(m, code=[b for _, _, _, b in got], case=dict(case, segments=got)):
        if isinstance(m, Err) or not same_vec(code, m[0]):
            ck.tie_break('model baf_by_ranges over the output segments differs from the baf column of do_segmentation', case,
                         code=code, model=m)
    if ranges:
        pend.add('baf', [cx.H, cx.R, None, None, 1, 20, True, None, [[ranges, None, False]]], cb)
    # do_call on the segmentation output: the baf column is recomputed per row (a stale column must not survive, row
    # labels must not matter) and rescaled for purity
    if ok and ranges:
        sent, outs, cases = [], [], []
        for purity in rng.sample([None, 1.0, 0.3, 0.6, 0.85], 2):
            mode = rng.choice(['default', 'gaps', 'repeated'])
            seg2 = seg.copy()
            seg2['baf'] = 0.123                      # stale values
            if mode == 'gaps':
                seg2.data.index = [2 * i + 1 for i in range(len(seg2))]
            elif mode == 'repeated':
                seg2.data.index = [i // 2 for i in range(len(seg2))]
            case2 = dict(case, stage='do_call after do_segmentation', purity=purity, segment_labels=mode, segments=got)
            try:
                out = cnv_call.do_call(seg2, varr, method='none', purity=purity)
                c = [fcell(x) for x in out['baf'].tolist()]
            except Exception as e:      # noqa
                report(ck, 'do_call on the segmentation output raised %s' % type(e).__name__, case2, clause='C18_rescale')
                continue
            ck.count(['segment-call', idx, purity, mode], nontrivial=True,
                     cls='segment:do_call:%s:labels=%s' % ('rescaled' if purity and purity < 1 else 'plain', mode))
            bad = False
            for (ch, s_, e_, _), b in zip(got, c):
                cands, vals = o_segment_baf(vcf, ch, s_, e_)
                if cands != [None] and purity and purity < 1:
                    p_ = F(purity)
                    cands = [(x - F(1, 2) * (1 - p_)) / p_ for x in cands]
                if not any(same_num(b, x) for x in cands):
                    report(ck, 'do_call: baf of segment %s:%d-%d is not the (purity-rescaled) mirrored median of the '
                           'heterozygous frequencies inside it' % (ch, s_, e_), case2, code=b, expected=cands,
                           frequencies=vals[:20], clause='C18_rescale/C18_attached')
                    bad = True
                    break
            if not bad:
                sent.append([ranges, purity])
                outs.append(c)
                cases.append(case2)

        def cb2(m, outs=outs, cases=cases):
            if isinstance(m, Err):
                ck.tie_break('model do_call source errors', cases[0], model=m)
                return
            for c, mm, cs in zip(outs, m, cases):
                if not same_vec(c, mm):
                    ck.tie_break('model baf column of do_call (after do_segmentation) differs from the code', cs, code=c, model=mm)
                    return
        if sent:
            pend.add('call_baf', [cx.H, cx.R, None, None, 20, None, sent], cb2)
    cx.close()


def run(ck, scratch):
    ck.rule = ('structured VCFs (1..3 samples; PEDIGREE none / one / two pairs / naming an absent sample / non-Derived lines; '
               '0..500 records on 1..3 contigs, some without a ##contig line, sorted or shuffled; SNVs, insertions, deletions, '
               'ALT ".", <NON_REF>, symbolic <DEL>/<DUP>/<INS> with INFO END; FILTER ./PASS/q10/REJECT/KEEP; INFO DP/END/SOMATIC; '
               'FORMAT GT[:AD][:DP] with called, half-called, missing, haploid and phased genotypes, AD/DP missing wholly or partly '
               'or for a whole sample, trailing FORMAT values dropped from the text, DP disagreeing with AD; depths biased to 0, 1 '
               'and min_depth-1/0/+1, allele fractions biased to 1/8..7/8 exactly) written as text and read back through pysam; '
               'x sample/normal selectors (none / name / index incl. negative / not in file) x min_depth x skip_reject x '
               'skip_somatic x zygosity_freq (None, dyadic, 0.3, 0.1, invalid 0.75) x tumor_boost; segment tables sorted per '
               'contig with breakpoints on variant starts/ends, gaps, contigs without variants; above_half None/True/False; '
               'summary_func nanmedian / nanmean / nanmin / nanmax. '
               'Segmentation stream: 2..4 arms x 1..3 segments with a log2 level and an allele fraction of their own, 0..14 '
               'variants per segment (het / hom / shallow / SOMATIC), do_segmentation(haar|none, variants) on default / gapped bin '
               'labels, then do_call(purity) on its output with default / gapped / repeated segment labels and a stale baf column. '
               'Elementwise streams: _tumor_boost on {0, 1, t = n, NaN, +-inf, <0, >1} x the same and a grid; _mirrored_baf on '
               'vectors holding NaN / +-inf; one range with 1..8 frequencies under each summary function. '
               'corpus/c18.json first (explicit calls with recorded expectations: the four repaired defects, boundary '
               'inputs, the load_het decision table, the VCF structures). non-trivial = non-empty table / some but not all rows '
               'heterozygous / >1 value / an arm with >1 segment / an edge class; distinct by case hash')
    ck.explanation = ('direct oracle (fractions) only where the property text defines the value: called genotypes, numeric AD/DP, '
                      'variants not straddling a range boundary, finite frequencies, TumorBoost away from x/0; elsewhere code vs '
                      'extracted model only (IEEE reading for NaN / inf cells)')
    ck.unproved_remainder = [
        'pysam tokenisation of VCF text (FORMAT keys present vs value missing or dropped, reserved END, contigs without a header '
        'line) is validated by correspondence only: the model reads the structured record',
        'chromosome order of GenomicArray.sort enters the model as a rank per contig (sorter_chrom belongs to C08)',
        'float decisions: zygosity_from_freq thresholds with non-dyadic zygosity_freq within 1e-9 of a frequency, and a majority '
        'median within 1e-9 of 1/2, are counted float_ambiguous and not compared',
        'per-range BAF (baf_by_ranges, do_call) of tables that hold an infinite frequency (alt count > 0 at depth 0) or boost a '
        'heterozygous row whose normal frequency is exactly 1 is not compared (Model/VBaf.v maps non-finite hits to NaN there); '
        'the reader, tumor_boost() and mirrored_baf() of such tables ARE compared, against the IEEE reading of the model',
        'pandas label alignment of the TumorBoost assignment is modelled as row-by-row (labels are unique after tabio.read); '
        'the labels of tumor_boost() are compared with the table\'s on every case',
        'source ties cover the elementwise / scalar bodies (_tumor_boost, _mirrored_baf, zygosity_from_freq, the two row masks, '
        'alt_freq + fillna, the zygosity chain, the AD branch, rescale_baf); _get_alt_count as a whole, the depth chain of '
        '_extract_genotype, _choose_samples / _parse_records and the pandas table code (into_ranges, heterozygous, add_columns) '
        'are outside the translator\'s subset and stay with the hand-written model + correspondence',
        'haar / none segmentation itself (where the breakpoints fall) is C11/C03\'s: this check takes the output segments as '
        'they come and decides only their baf column',
    ]
    if not ck.build_status.get('driver_ok'):
        raise RuntimeError('model driver unavailable')
    import pysam
    pysam.set_verbosity(0)          # htslib's warnings about contigs without a ##contig line
    rng = ck.rng
    _seen_sigs.clear()
    pend = Pending()
    quick = ck.tier == 'quick'
    budget = {'choose': 3, 'read': 3, 'het': 3, 'baf': 2, 'baf_q': 3, 'call': 1}
    idx = 0
    corp = load_corpus()
    for entry in corp:
        run_corpus_entry(ck, rng, scratch, idx, entry, pend)
        idx += 1
    pend.flush()
    ck.extra['corpus_cases'] = len(corp)
    nfiles = 150 if quick else 2800
    for i in range(nfiles):
        vcf = gen_vcf(rng, ck.tier)
        run_vcf(ck, rng, scratch, idx, vcf, pend, budget)
        idx += 1
        if (i + 1) % 100 == 0:
            pend.flush()
    pend.flush()
    segment_baf_regression(ck, scratch)
    for _ in range(14 if quick else 200):
        stage_segment(ck, rng, scratch, idx, pend)
        idx += 1
    pend.flush()
    check_formulas(ck, rng)
    check_edges(ck, rng)
    ck.extra['files'] = idx


def replay(ck, body):
    print(json.dumps(body, indent=1)[:4000])
    return 0
