"""Shared harness library: value encoding for the extracted Coq model, the
model driver client, the build step (translator + make + extraction), evidence
and replay writing, known findings, and the verdict rules of DESIGN.md §4.3."""
import os, sys, json, time, hashlib, subprocess, resource, random, re, math, fcntl, glob, shutil
from fractions import Fraction

VERIF = os.path.normpath(os.path.join(os.path.dirname(os.path.abspath(__file__)), '..'))
COQ = os.path.join(VERIF, 'coq')
DRIVER = os.path.join(COQ, 'ocaml', 'driver')
BUILD = os.path.join(VERIF, 'build')
REPO = os.environ.get('CNVKIT_REPO', '/repo')
PY = '/venv/bin/python'

# ----------------------------------------------------------------------------
# value encoding


class Err:
    """A VErr value coming back from the model."""
    def __init__(self, msg):
        self.msg = msg
    def __repr__(self):
        return 'Err(%r)' % self.msg
    def __eq__(self, other):
        return isinstance(other, Err) and other.msg == self.msg
    def __hash__(self):
        return hash(('Err', self.msg))


def _hexint(n):
    return ('-' if n < 0 else '') + format(abs(n), 'x')


def enc(v, out=None):
    """Python value -> driver token string. floats are converted exactly."""
    top = out is None
    if top:
        out = []
    if v is None:
        out.append('n')
    elif v is True:
        out.append('t')
    elif v is False:
        out.append('f')
    elif isinstance(v, int):
        out.append('z' + _hexint(v))
    elif isinstance(v, Fraction):
        out.append('q%s/%x' % (_hexint(v.numerator), v.denominator))
    elif isinstance(v, float):
        if v != v or v in (float('inf'), float('-inf')):
            out.append('n')
        else:
            f = Fraction(v)
            out.append('q%s/%x' % (_hexint(f.numerator), f.denominator))
    elif isinstance(v, str):
        out.append('s' + v.encode('latin-1', 'replace').hex())
    elif isinstance(v, bytes):
        out.append('s' + v.hex())
    elif isinstance(v, Err):
        out.append('e' + v.msg.encode('latin-1', 'replace').hex())
    elif isinstance(v, (list, tuple)):
        out.append('(')
        for x in v:
            enc(x, out)
        out.append(')')
    else:
        # numpy scalars and the like
        try:
            import numpy as np
            if isinstance(v, np.bool_):
                return enc(bool(v), out)
            if isinstance(v, np.integer):
                return enc(int(v), out)
            if isinstance(v, np.floating):
                return enc(float(v), out)
        except ImportError:
            pass
        raise TypeError('cannot encode %r' % (v,))
    if top:
        return ' '.join(out)


def dec(text):
    toks = text.split()
    pos = 0

    def one():
        nonlocal pos
        t = toks[pos]
        pos += 1
        if t == '(':
            items = []
            while toks[pos] != ')':
                items.append(one())
            pos += 1
            return items
        c, body = t[0], t[1:]
        if c == 'z':
            return int(body, 16)
        if c == 'q':
            a, b = body.split('/')
            return Fraction(int(a, 16), int(b, 16))
        if c == 's':
            return bytes.fromhex(body).decode('latin-1')
        if c == 't':
            return True
        if c == 'f':
            return False
        if c == 'n':
            return None
        if c == 'e':
            return Err(bytes.fromhex(body).decode('latin-1'))
        raise ValueError('bad token %r' % t)
    v = one()
    return v


def _unlimit_stack():
    try:
        resource.setrlimit(resource.RLIMIT_STACK, (resource.RLIM_INFINITY, resource.RLIM_INFINITY))
    except (ValueError, OSError):
        try:
            soft, hard = resource.getrlimit(resource.RLIMIT_STACK)
            resource.setrlimit(resource.RLIMIT_STACK, (hard, hard))
        except (ValueError, OSError):
            pass


def model_batch(entry, vals, timeout=3600):
    """Run the extracted model on a list of input values; returns the outputs."""
    if not vals:
        return []
    if not os.path.exists(DRIVER):
        raise RuntimeError('model driver not built')
    inp = '\n'.join(entry + ' ' + enc(v) for v in vals) + '\n'
    p = subprocess.run([DRIVER], input=inp.encode(), stdout=subprocess.PIPE, stderr=subprocess.PIPE,
                       preexec_fn=_unlimit_stack, timeout=timeout)
    if p.returncode != 0:
        raise RuntimeError('driver failed rc=%s: %s' % (p.returncode, p.stderr.decode()[:500]))
    lines = p.stdout.decode().split('\n')
    if lines and lines[-1] == '':
        lines.pop()
    if len(lines) != len(vals):
        raise RuntimeError('driver returned %d lines for %d requests' % (len(lines), len(vals)))
    return [dec(l) for l in lines]


def model_batch_parallel(entry, vals, workers=8, timeout=3600):
    """Same as model_batch, sharded over several driver processes."""
    n = len(vals)
    if n < 64 or workers <= 1:
        return model_batch(entry, vals, timeout)
    from concurrent.futures import ThreadPoolExecutor
    k = min(workers, (n + 31) // 32)
    shards = [vals[i::k] for i in range(k)]
    with ThreadPoolExecutor(k) as ex:
        res = list(ex.map(lambda s: model_batch(entry, s, timeout), shards))
    out = [None] * n
    for i, r in enumerate(res):
        out[i::k] = r
    return out


def model_call(entry, val):
    return model_batch(entry, [val])[0]


# ----------------------------------------------------------------------------
# numeric comparison (DESIGN §2)

TOL = 1e-9


def close(code, model, tol=TOL):
    """code: float (or None/NaN), model: Fraction/int/None."""
    if model is None:
        return code is None or (isinstance(code, float) and code != code)
    if code is None or (isinstance(code, float) and code != code):
        return False
    m = float(model)
    return abs(float(code) - m) <= tol * max(1.0, abs(m))


def fr(x):
    """exact Fraction of a float/int (NaN -> None)."""
    if x is None:
        return None
    if isinstance(x, float):
        if x != x or x in (float('inf'), float('-inf')):
            return None
        return Fraction(x)
    return Fraction(int(x))


# ----------------------------------------------------------------------------
# build step


def sh(cmd, timeout=3600, cwd=None, env=None):
    p = subprocess.run(cmd, shell=True, stdout=subprocess.PIPE, stderr=subprocess.STDOUT, timeout=timeout,
                       cwd=cwd, env=env)
    return p.returncode, p.stdout.decode(errors='replace')


FORBIDDEN = re.compile(r'\b(Admitted|admit|Axiom|Axioms|Parameter|Parameters|Conjecture|Conjectures|Hypothesis|Hypotheses|Variable|Variables|Unset\s+Guard|bypass_check|type-in-type|Admit\s+Obligations|native_compute|impredicative-set)\b')
AX_WHITELIST_REALS = {
    'ClassicalDedekindReals.sig_not_dec', 'ClassicalDedekindReals.sig_forall_dec',
    'FunctionalExtensionality.functional_extensionality_dep', 'Classical_Prop.classic',
}


def _strip_comments(src):
    out = []
    depth = 0
    i = 0
    n = len(src)
    while i < n:
        if src.startswith('(*', i):
            depth += 1
            i += 2
        elif src.startswith('*)', i) and depth > 0:
            depth -= 1
            i += 2
        else:
            if depth == 0:
                out.append(src[i])
            elif src[i] == '\n':
                out.append('\n')
            i += 1
    return ''.join(out)


def scan_forbidden():
    """grep the development for constructs the brief forbids. Variable/Hypothesis
    are allowed only inside a Section (checked by tracking Section/End)."""
    hits = []
    for f in sorted(glob.glob(os.path.join(COQ, 'theories', '**', '*.v'), recursive=True)):
        src = _strip_comments(open(f).read())
        # remove string literals
        src = re.sub(r'"[^"]*"', '""', src)
        depth = 0
        for ln, line in enumerate(src.split('\n'), 1):
            if re.match(r'\s*Section\s+\w+', line):
                depth += 1
            for m in FORBIDDEN.finditer(line):
                w = m.group(1)
                if w.startswith(('Variable', 'Hypothes')) and depth > 0:
                    continue
                hits.append('%s:%d:%s' % (os.path.relpath(f, VERIF), ln, w))
            if re.match(r'\s*End\s+\w+\s*\.', line) and depth > 0:
                # End of a Section or Module; modules are not used with Variables
                depth -= 1
    return hits


def theorems_of(prop_id):
    f = os.path.join(COQ, 'theories', 'Props', prop_id + '.v')
    if not os.path.exists(f):
        return []
    src = _strip_comments(open(f).read())
    return re.findall(r'^\s*(?:Theorem|Lemma|Corollary)\s+(\w+)', src, re.M)


def gen_deps_of(prop_id):
    """names of the Gen/ modules that Props/<id>.v and Entries/<id>.v depend on, transitively
    (read from the dependency file coq_makefile maintains); None if it cannot be determined"""
    dfile = os.path.join(COQ, '.Makefile.d')
    if not os.path.exists(dfile):
        return None
    deps = {}
    for line in open(dfile).read().replace('\\\n', ' ').split('\n'):
        if ':' not in line:
            continue
        lhs, rhs = line.split(':', 1)
        srcs = [x for x in rhs.split() if x.endswith('.vo') or x.endswith('.v')]
        for t in lhs.split():
            if t.endswith('.vo'):
                deps.setdefault(t, set()).update(x for x in srcs if x.endswith('.vo'))
    roots = ['theories/Props/%s.vo' % prop_id, 'theories/Entries/%s.vo' % prop_id]
    seen, todo = set(), [r for r in roots if r in deps]
    if not todo:
        return None
    while todo:
        t = todo.pop()
        if t in seen:
            continue
        seen.add(t)
        todo.extend(deps.get(t, ()))
    return {os.path.basename(t)[:-3] for t in seen if t.startswith('theories/Gen/')}


def build(prop_id, log=None, thorough=False):
    """Regenerate Gen/*.v from /repo, make the Coq project, extract, build the
    driver, check assumptions of Props/<prop_id>.v. Returns a status dict."""
    os.makedirs(BUILD, exist_ok=True)
    st = {'translator_ok': False, 'make_ok': False, 'props_ok': False, 'driver_ok': False,
          'forbidden': [], 'assumptions': {}, 'theorems': [], 'log': ''}
    lock = open(os.path.join(BUILD, '.build.lock'), 'w')
    fcntl.flock(lock, fcntl.LOCK_EX)
    try:
        t0 = time.time()
        rc, out = sh('%s %s' % (PY, os.path.join(VERIF, 'tools', 'py2v_data.py')), timeout=300)
        st['log'] += out
        st['translator_ok'] = (rc == 0)
        if rc != 0:
            st['translator_msg'] = out[-2000:]
            st['translator_scope'] = 'all'
        sh('python3 %s' % os.path.join(VERIF, 'tools', 'gen_build.py'))
        if not os.path.exists(os.path.join(COQ, 'Makefile')) or \
                os.path.getmtime(os.path.join(COQ, 'Makefile')) < os.path.getmtime(os.path.join(COQ, '_CoqProject')):
            sh('coq_makefile -f _CoqProject -o Makefile', cwd=COQ)
        rc, out = sh('timeout 3000 make -k -j16 2>&1', cwd=COQ, timeout=3100)
        st['log'] += out
        st['make_ok'] = (rc == 0)
        if rc != 0:
            st['make_msg'] = out[-3000:]
        if not st['translator_ok']:
            # a refusal concerns this property only if one of its files (Props, Entries and everything
            # they import) depends on a generated module whose spec was refused
            try:
                tstat = json.load(open(os.path.join(COQ, 'theories', 'Gen', '.translator_status.json')))
                if not tstat.get('unattributed'):
                    deps = gen_deps_of(prop_id)
                    hit = sorted(set(tstat.get('stale_modules', [])) & deps)
                    if deps is not None and not hit:
                        st['translator_ok'] = True
                        st['translator_scope'] = 'other properties only: ' + ', '.join(sorted(tstat.get('refused', {})))
                    else:
                        st['translator_scope'] = 'generated modules of this property: ' + ', '.join(hit)
            except Exception as e:
                st['translator_scope'] = 'all (no attribution: %s)' % e
        # translation validation BY TESTING of the function-body translator (tools/fn_selftest.py): the translated
        # regions are executed as Python on random inputs and compared with the generated Gallina; cached by the
        # content of the generated modules, the specs and the translator.  Informational: a mismatch is a defect of
        # the translator / self-test (trusted base), not of /repo, and is reported in the evidence, never as a violation.
        try:
            import hashlib, glob as _glob
            h = hashlib.sha256()
            for fpath in sorted(_glob.glob(os.path.join(COQ, 'theories', 'Gen', 'Fn*.v')) +
                                _glob.glob(os.path.join(VERIF, 'tools', 'fnspecs', '*.py')) +
                                [os.path.join(VERIF, 'tools', 'py2v_fn.py'), os.path.join(VERIF, 'tools', 'fn_selftest.py')]):
                h.update(open(fpath, 'rb').read())
            key = h.hexdigest()
            stf = os.path.join(COQ, 'theories', 'Gen', '.fn_selftest.json')
            cur = json.load(open(stf)) if os.path.exists(stf) else {}
            if cur.get('key') != key and st['make_ok']:
                sh('PYTHONPATH=%s PYTHONWARNINGS=ignore timeout 1500 %s %s' % (REPO, PY, os.path.join(VERIF, 'tools', 'fn_selftest.py')), timeout=1600)
                cur = json.load(open(stf)) if os.path.exists(stf) else {}
                cur['key'] = key
                json.dump(cur, open(stf, 'w'), indent=1)
            mine = gen_deps_of(prop_id) or set()
            st['translator_selftest'] = {
                'all': {k: (len(v) if isinstance(v, (list, dict)) else v) for k, v in cur.items() if k in ('specs', 'executed', 'cases', 'mismatches', 'not_executable')},
                'this_property_mismatches': [m for m in cur.get('mismatches', []) if m.get('spec', '').split('.')[0] in mine][:5],
                'this_property_not_executable': {k: v for k, v in cur.get('not_executable', {}).items() if k.split('.')[0] in mine},
            }
        except Exception as e:
            st['translator_selftest'] = {'error': str(e)[:300]}
        vo = os.path.join(COQ, 'theories', 'Props', prop_id + '.vo')
        src = os.path.join(COQ, 'theories', 'Props', prop_id + '.v')
        st['theorems'] = theorems_of(prop_id)
        fresh = os.path.exists(vo) and os.path.getmtime(vo) >= os.path.getmtime(src)
        if fresh and rc != 0:
            # make -k: was this target (or a dependency) among the failures?
            rc2, out2 = sh('timeout 3000 make theories/Props/%s.vo 2>&1' % prop_id, cwd=COQ, timeout=3100)
            fresh = (rc2 == 0)
            if rc2 != 0:
                st['make_msg'] = out2[-3000:]
        st['props_built'] = bool(fresh)
        # extraction + driver (only when Dispatch.vo is newer than the driver)
        disp = os.path.join(COQ, 'theories', 'Extract', 'Dispatch.vo')
        if not os.path.exists(disp) or rc != 0:
            # try with only the entry files that built
            sh('python3 %s --only-built' % os.path.join(VERIF, 'tools', 'gen_build.py'))
            sh('timeout 3000 make -k theories/Extract/Dispatch.vo 2>&1', cwd=COQ, timeout=3100)
        if os.path.exists(disp):
            if (not os.path.exists(DRIVER)) or os.path.getmtime(DRIVER) < os.path.getmtime(disp):
                rc3, out3 = sh('timeout 900 ./build.sh 2>&1', cwd=os.path.join(COQ, 'ocaml'), timeout=1000)
                st['log'] += out3
                if rc3 != 0:
                    st['driver_msg'] = out3[-2000:]
            st['driver_ok'] = os.path.exists(DRIVER) and os.path.getmtime(DRIVER) >= os.path.getmtime(disp)
        st['forbidden'] = scan_forbidden()
        # Print Assumptions of every theorem of Props/<id>.v
        if fresh and st['theorems']:
            af = os.path.join(BUILD, 'assume_%s_%d.v' % (prop_id, os.getpid()))
            with open(af, 'w') as fh:
                fh.write('From CNV Require Props.%s.\n' % prop_id)
                for th in st['theorems']:
                    fh.write('Goal True. idtac "@@THM %s". exact I. Qed.\nPrint Assumptions Props.%s.%s.\n' % (th, prop_id, th))
            rc4, out4 = sh('timeout 900 coqc -Q theories CNV %s 2>&1' % af, cwd=COQ, timeout=1000)
            for ext in ('.v', '.vo', '.vok', '.vos', '.glob'):
                try:
                    os.remove(af[:-2] + ext)
                except OSError:
                    pass
            try:
                os.remove(os.path.join(BUILD, '.assume_%s_%d.aux' % (prop_id, os.getpid())))
            except OSError:
                pass
            cur = None
            for line in out4.split('\n'):
                m = re.match(r'@@THM (\w+)', line)
                if m:
                    cur = m.group(1)
                    st['assumptions'][cur] = []
                    continue
                if cur is None:
                    continue
                if 'Closed under the global context' in line:
                    continue
                m = re.match(r'^([A-Za-z_][\w.]*)\s*:', line)
                if m and not line.startswith('Axioms'):
                    st['assumptions'][cur].append(m.group(1))
            if rc4 != 0:
                st['assume_msg'] = out4[-2000:]
                st['props_built'] = False
        bad_ax = {}
        for th, axs in st['assumptions'].items():
            extra = [a for a in axs if a not in AX_WHITELIST_REALS]
            if extra:
                bad_ax[th] = extra
        st['bad_axioms'] = bad_ax
        st['props_ok'] = bool(st['props_built'] and not bad_ax and not st['forbidden']
                              and set(st['assumptions']) == set(st['theorems']))
        if thorough and st['props_ok']:
            st['coqchk'] = coqchk(prop_id)
        st['build_s'] = round(time.time() - t0, 2)
    finally:
        fcntl.flock(lock, fcntl.LOCK_UN)
        lock.close()
    if log:
        open(log, 'w').write(st['log'])
    return st


def coqchk(prop_id):
    """Independent re-check of Props/<id>.vo with coqchk -o, cached by content hash."""
    vo = os.path.join(COQ, 'theories', 'Props', prop_id + '.vo')
    h = hashlib.sha256(open(vo, 'rb').read()).hexdigest()[:16]
    cache = os.path.join(BUILD, 'coqchk_%s_%s.txt' % (prop_id, h))
    if os.path.exists(cache):
        return json.load(open(cache))
    rc, out = sh('timeout 1500 coqchk -silent -o -Q theories CNV CNV.Props.%s 2>&1' % prop_id, cwd=COQ, timeout=1600)
    axioms = []
    grab = False
    for line in out.split('\n'):
        if line.strip().startswith('* Axioms:'):
            grab = True
            continue
        if grab:
            if line.startswith('    ') and line.strip():
                axioms.append(line.strip())
            elif line.strip().startswith('*'):
                grab = False
    res = {'rc': rc, 'axioms': axioms, 'tail': out[-600:]}
    if rc == 0:
        json.dump(res, open(cache, 'w'))
    return res


# ----------------------------------------------------------------------------
# running the implementation


def repo_env():
    env = dict(os.environ)
    env['PYTHONPATH'] = REPO
    env['PYTHONHASHSEED'] = '0'
    env['PYTHONWARNINGS'] = 'ignore'
    env['CNVKIT_VERIF'] = '1'
    env.pop('PYTHONSTARTUP', None)
    return env


# ----------------------------------------------------------------------------
# checker: counts, replays, known findings, verdict, evidence

TRUSTED_BASE = [
    'Coq 8.16.1 kernel (coqc; coqchk re-check in the thorough tier); no native_compute',
    'axioms: none for Z/Q/list theorems (each Print Assumptions output is parsed on every run; only the four stdlib Reals/classical axioms are whitelisted, for RealFacts)',
    'translator tools/py2v_data.py (constants/defaults/regex sources from /repo into Gen/*.v)',
    'function-body translator tools/py2v_fn.py + specs tools/fnspecs/*.py (which source expressions are opaque typed inputs, which statement ranges are opaque; / read as the total Qdiv with the zero-divisor case recorded as a guard; floats read as exact rationals); validated on every build by tools/fn_selftest.py (the translated regions run as Python on random inputs against the generated Gallina: coverage.translator_selftest)',
    'extraction with ExtrOcamlBasic directives only; coq/ocaml/driver.ml; OCaml 4.13.1',
    'the Python harness: generators, canonicalisation, 1e-9 float/rational comparison rule, oracle suppliers',
    'the Python code is modelled, not verified: the tie is the differential correspondence on generated inputs',
]


class Checker:
    def __init__(self, prop_id, level='proof', tier=None, seed=None):
        self.id = prop_id
        self.level = level
        self.tier = tier or os.environ.get('VERIF_TIER', 'quick')
        self.seed = int(seed if seed is not None else (os.environ.get('VERIF_SEED') or '20260926'))
        self.rng = random.Random(self.seed)
        self.t0 = time.time()
        self.evaluations = 0
        self.hashes = set()
        self.samples = []
        self.classes = {}
        self.violations = []        # (kind, what, replay_path)
        self.known_hits = []
        self.tie_breaks = []        # code != model but oracle holds
        self.float_ambiguous = 0
        self.notes = []
        self.extra = {}
        self.build_status = None
        self.rule = ''
        self.explanation = ''
        self.unproved_remainder = []
        self.exhaustive = False
        self.assumptions = []
        kf = os.path.join(VERIF, 'known_findings.json')
        self.known = json.load(open(kf)) if os.path.exists(kf) else {'open': [], 'fixed': []}
        os.makedirs(os.path.join(VERIF, 'evidence', 'replays'), exist_ok=True)

    # -- counting
    def count(self, case, nontrivial=True, cls=None, n=1):
        self.evaluations += n
        if nontrivial:
            h = hashlib.sha1(json.dumps(jsonable(case), sort_keys=True).encode()).digest()[:10]
            self.hashes.add(h)
        if cls:
            self.classes[cls] = self.classes.get(cls, 0) + n
        if len(self.samples) < 3 or (len(self.samples) < 6 and self.rng.random() < 0.002):
            self.samples.append(jsonable(case))

    def cls(self, name, n=1):
        self.classes[name] = self.classes.get(name, 0) + n

    # -- replay files
    def write_replay(self, kind, what, case, **more):
        body = {'property': self.id, 'kind': kind, 'what': what, 'case': jsonable(case), 'seed': self.seed,
                'tier': self.tier}
        body.update({k: jsonable(v) for k, v in more.items()})
        h = hashlib.sha1(json.dumps(body, sort_keys=True).encode()).hexdigest()[:12]
        path = os.path.join(VERIF, 'evidence', 'replays', '%s-%s.json' % (self.id, h))
        json.dump(body, open(path, 'w'), indent=1, sort_keys=True)
        return path

    def known_match(self, sig):
        for k in self.known.get('open', []):
            if k.get('property') == self.id and k.get('signature') == sig:
                return k
        return None

    def violation(self, what, case, sig=None, **more):
        """The code's output fails the property's direct oracle on `case`."""
        k = self.known_match(sig) if sig else None
        if k is not None:
            if k['id'] not in [x['id'] for x in self.known_hits]:
                self.known_hits.append(k)
            return
        if len(self.violations) >= 20:
            self.violations.append(('violation', what, None))
            return
        path = self.write_replay('violation', what, case, **more)
        self.violations.append(('violation', what, path))

    def tie_break(self, what, case, **more):
        """code != model (or a proof obligation no longer checks) while the direct
        oracle still holds on this case."""
        if len(self.tie_breaks) < 20:
            path = self.write_replay('tie-break', what, case, **more)
        else:
            path = None
        self.tie_breaks.append((what, path))

    # -- verdict + evidence
    def finish(self):
        st = self.build_status or {}
        n_obl = len(st.get('theorems', []))
        discharged = 0
        if st.get('props_built'):
            for th in st.get('theorems', []):
                axs = st.get('assumptions', {}).get(th)
                if axs is not None and not [a for a in axs if a not in AX_WHITELIST_REALS]:
                    discharged += 1
        lines = []
        rc = 0
        for k in self.known_hits:
            lines.append('KNOWN-FINDING: property=%s %s' % (self.id, k['what']))
        real = [v for v in self.violations if v[2]]
        for kind, what, path in real[:5]:
            lines.append('VIOLATION property=%s replay=%s' % (self.id, path))
            rc = 1
        if not real:
            broken = []
            if st and not st.get('translator_ok', True):
                broken.append(('translator refuses the source: ' + st.get('translator_msg', '')[-400:], None))
            if st and st.get('forbidden'):
                broken.append(('forbidden construct in the development: %s' % st['forbidden'][:5], None))
            if st and st.get('bad_axioms'):
                broken.append(('non-whitelisted axioms: %s' % st['bad_axioms'], None))
            if st and n_obl and discharged < n_obl:
                broken.append(('proof obligations of Props/%s.v no longer check (%d/%d): %s' % (
                    self.id, discharged, n_obl, (st.get('make_msg') or st.get('assume_msg') or '')[-1500:]), None))
            if st and not st.get('driver_ok', True) and not broken:
                broken.append(('model driver could not be built: ' + (st.get('driver_msg') or st.get('make_msg') or '')[-800:], None))
            for what, path in self.tie_breaks[:3]:
                broken.append((what, path))
            if broken:
                what, path = broken[0]
                if path is None:
                    path = self.write_replay('tie-break', what, None,
                                             theorems=st.get('theorems'), all_broken=[b[0] for b in broken])
                lines.append('VIOLATION property=%s replay=%s no-failing-input-found' % (self.id, path))
                rc = 1
        cov = {
            'evaluations': self.evaluations,
            'distinct_nontrivial': len(self.hashes),
            'rule': self.rule,
            'samples': self.samples[:6] or ['(none)'],
            'obligations': n_obl,
            'discharged': discharged,
            'checker_cmd': 'cd /verif/coq && make -k -j16 (coqc 8.16.1, full .vo build) && coqc Print-Assumptions file for Props/%s.v%s' % (
                self.id, '; coqchk -o CNV.Props.%s' % self.id if self.tier == 'thorough' else ''),
            'trusted_base': TRUSTED_BASE,
            'theorems': st.get('theorems', []),
            'axioms_per_theorem': st.get('assumptions', {}),
            'explanation': self.explanation,
            'classes': self.classes,
            'float_ambiguous': self.float_ambiguous,
            'exhaustive': bool(self.exhaustive),
            'unproved_remainder': self.unproved_remainder,
            'known_findings_hit': [k['id'] for k in self.known_hits],
            'tie_breaks': len(self.tie_breaks),
            'build_s': st.get('build_s'),
        }
        if 'coqchk' in st:
            cov['coqchk'] = st['coqchk']
        if 'translator_selftest' in st:
            cov['translator_selftest'] = st['translator_selftest']
        cov.update(self.extra)
        ev = {
            'property_id': self.id, 'tier': self.tier, 'seed': self.seed, 'level': self.level,
            'coverage': cov,
            'assumptions': self.assumptions or TRUSTED_BASE,
            'wall_s': round(time.time() - self.t0, 2),
            'violations': len(real) + (1 if rc == 1 and not real else 0),
        }
        path = os.path.join(VERIF, 'evidence', self.id + '.json')
        tmp = path + '.tmp%d' % os.getpid()
        json.dump(ev, open(tmp, 'w'), indent=1, sort_keys=True)
        os.replace(tmp, path)
        for l in lines:
            print(l)
        print('%s %s: %d evaluations, %d distinct non-trivial, %d/%d obligations, %d violation(s), %d tie-break(s), %.1fs' % (
            self.id, self.tier, self.evaluations, len(self.hashes), discharged, n_obl, len(real), len(self.tie_breaks),
            time.time() - self.t0))
        sys.stdout.flush()
        return rc


def jsonable(v):
    if isinstance(v, Fraction):
        return '%d/%d' % (v.numerator, v.denominator) if v.denominator != 1 else int(v.numerator)
    if isinstance(v, float):
        if v != v:
            return 'NaN'
        if v in (float('inf'), float('-inf')):
            return 'inf' if v > 0 else '-inf'
        return v
    if isinstance(v, (list, tuple)):
        return [jsonable(x) for x in v]
    if isinstance(v, dict):
        return {str(k): jsonable(x) for k, x in v.items()}
    if isinstance(v, Err):
        return {'Err': v.msg}
    if isinstance(v, (str, int, bool)) or v is None:
        return v
    if isinstance(v, bytes):
        return v.decode('latin-1')
    try:
        import numpy as np
        if isinstance(v, np.bool_):
            return bool(v)
        if isinstance(v, np.integer):
            return int(v)
        if isinstance(v, np.floating):
            return jsonable(float(v))
        if isinstance(v, np.ndarray):
            return jsonable(v.tolist())
    except ImportError:
        pass
    return repr(v)


def scratch_dir(prop_id):
    d = os.path.join(BUILD, 'run-%s-%d' % (prop_id, os.getpid()))
    os.makedirs(d, exist_ok=True)
    return d


def rm_scratch(d):
    shutil.rmtree(d, ignore_errors=True)
