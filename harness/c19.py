"""C19 -- robust estimators and smoothers obey their defining invariants.

Correspondence: cnvlib.descriptives.* and cnvlib.smoothing.{rolling_median,
kaiser, savgol, _width2wing, _pad_array} against the extracted Coq models
(Model/Descriptives.v, Model/Smoothing.v).  Direct oracle: the clauses of the
property evaluated on the CODE's output with exact Fractions (range, shift,
scale, non-negativity, zero on constant data, weighted-median halves, equal
weights => median, one finite value per input, constants reproduced, range of
rolling median / Kaiser) plus independent textbook formulas.  Values and
weights live on a 1/1024 grid so that medians, comparisons and cumulative sums
are exact in floating point."""
import os, math, json, itertools
from fractions import Fraction as F
import numpy as np
import vlib
from vlib import Err

LEVEL = 'proof'
GRID = 1024
TOL = 1e-9
HERE = os.path.dirname(os.path.abspath(__file__))


# ----------------------------------------------------------------------------
# small helpers

def fr(x):
    return F(float(x))


def isnan(x):
    return isinstance(x, float) and x != x


def finite(x):
    try:
        return math.isfinite(float(x))
    except (TypeError, ValueError):
        return False


def close(a, b, tol=TOL, scale=1.0):
    """two reals (floats / Fractions) agree at the DESIGN tolerance"""
    a, b = float(a), float(b)
    return abs(a - b) <= tol * max(1.0, abs(b), abs(scale))


def call(f, *args, **kw):
    try:
        r = f(*args, **kw)
    except Exception as e:        # noqa
        return Err(type(e).__name__)
    if isinstance(r, np.ndarray):
        return [float(v) for v in r]
    if isinstance(r, (list, tuple)):
        return [float(v) for v in r]
    return float(r)


def clean(a):
    return [x for x in a if not isnan(x)]


def clean_weighted(a, w):
    out = []
    for x, y in zip(a, w):
        if isnan(x):
            continue
        out.append((x, 0.0 if isnan(y) else y))
    return out


# ----------------------------------------------------------------------------
# independent textbook formulas (exact Fractions)

def t_median(v):
    s = sorted(v)
    n = len(s)
    return s[n // 2] if n % 2 else (s[n // 2 - 1] + s[n // 2]) / 2


def t_percentile(v, p):
    """linear interpolation between closest ranks (Hyndman-Fan type 7)"""
    s = sorted(v)
    h = F(len(s) - 1) * F(p) / 100
    lo = int(math.floor(h))
    hi = min(lo + 1, len(s) - 1)
    return s[lo] + (h - lo) * (s[hi] - s[lo])


def t_mad(v):
    m = t_median(v)
    return t_median([abs(x - m) for x in v])


def t_gapper_nopi(v):
    s = sorted(v)
    n = len(s)
    return sum((s[i] - s[i - 1]) * i * (n - i) for i in range(1, n)) / F(n * (n - 1))


def t_qn(v):
    n = len(v)
    d = [abs(v[i] - v[j]) for i in range(n) for j in range(i + 1, n)]
    q = t_percentile(d, 25)
    if n <= 10:
        c = F(1.392)
    elif n < 400:
        c = 1 + F(4, n)
    else:
        c = F(1)
    return q / c


def t_wvar(ps):
    W = sum(w for _, w in ps)
    mu = sum(x * w for x, w in ps) / W
    return sum(w * (x - mu) ** 2 for x, w in ps) / W


def halves(ps, m):
    """(weight below m, weight above m, total) with exact Fractions"""
    lo = sum(w for x, w in ps if x < m)
    hi = sum(w for x, w in ps if x > m)
    return lo, hi, sum(w for _, w in ps)


def wmedian_guard(ps, eps):
    """no prefix sum (in value order) within n*eps*W of W/2 unless equal; since the
    arrangement of equal values is numpy's business, every block boundary and
    every inner prefix of the code's own arrangement is covered by checking all
    prefix sums of a stable arrangement and of its tie-reversed twin"""
    W = sum(w for _, w in ps)
    tol = len(ps) * eps * W
    ok = True
    for arr in (sorted(ps, key=lambda p: p[0]), sorted(ps, key=lambda p: (p[0], -p[1])), sorted(ps, key=lambda p: (p[0], p[1]))):
        c = F(0)
        for _, w in arr:
            c += w
            d = abs(c - W / 2)
            if d != 0 and d <= tol:
                ok = False
    return ok


def t_biloc_published(a, c=6.0, eps=1e-3, max_iter=5):
    """Beers, Flynn & Gebhardt (1990) biweight location, iterated like the package
    (same c, epsilon, iteration cap); mask |u| < 1 -- float implementation"""
    a = np.asarray(a, float)
    M = float(np.median(a))
    r = M
    for _ in range(max_iter):
        d = a - M
        mad = np.median(np.abs(d))
        u = d / max(c * mad, eps)
        mask = np.abs(u) < 1
        w = (1 - u[mask] ** 2) ** 2
        r = M if w.sum() == 0 else M + (d[mask] * w).sum() / w.sum()
        if abs(r - M) <= eps:
            break
        M = r
    return float(r)


def t_bivar_sq(a, centre, c=9.0, eps=1e-3):
    """biweight midvariance (squared) about `centre`; returns (formula^2, fallback^2, |sum u|)"""
    a = np.asarray(a, float)
    d = a - centre
    mad = np.median(np.abs(d))
    u = d / max(c * mad, eps)
    mask = np.abs(u) < 1
    n = mask.sum()
    d_, u2 = d[mask], (u ** 2)[mask]
    den = ((1 - u2) * (1 - 5 * u2)).sum() ** 2
    formula = (n * (d_ ** 2 * (1 - u2) ** 4).sum()) / den if den != 0 else float('nan')
    return float(formula), float((mad * 1.4826) ** 2), float(abs(u[mask].sum()))


# ----------------------------------------------------------------------------
# generators

def g(rng, lo=-8 * GRID, hi=8 * GRID):
    return rng.randint(lo, hi) / GRID


KINDS = ['random', 'ties', 'repeats', 'outlier', 'equal', 'twovals', 'symmetric', 'sorted']


def gen_values(rng, n, kind):
    if kind == 'random':
        v = [g(rng) for _ in range(n)]
    elif kind == 'ties':
        pool = [g(rng) for _ in range(max(1, min(n // 3, rng.randint(1, 6))))]
        v = [rng.choice(pool) for _ in range(n)]
    elif kind == 'repeats':
        v = [float(rng.randint(-3, 3)) for _ in range(n)]
    elif kind == 'outlier':
        v = [g(rng, -GRID, GRID) for _ in range(n)]
        v[rng.randrange(n)] = rng.choice([-1, 1]) * rng.choice([64.0, 1000.5, 65536.0, 1e6])
    elif kind == 'equal':
        v = [g(rng)] * n
    elif kind == 'twovals':
        a, b = g(rng), g(rng)
        v = [rng.choice([a, b]) for _ in range(n)]
    elif kind == 'symmetric':
        c = g(rng)
        half = [abs(g(rng)) for _ in range(n // 2)]
        v = [c - h for h in half] + [c + h for h in half] + ([c] if n % 2 else [])
        rng.shuffle(v)
    else:
        v = sorted(g(rng) for _ in range(n))
    return [float(x) for x in v]


def gen_len(rng, tier, big=400):
    r = rng.random()
    if r < 0.25:
        return rng.randint(1, 6)
    if r < 0.65:
        return rng.randint(2, 30)
    if r < 0.9:
        return rng.randint(2, 120)
    return rng.choice([rng.randint(100, big), big, big - 1])


WKINDS = ['positive', 'dominant', 'zeros', 'equal', 'smallint', 'smallint0', 'nanw']


def gen_weights(rng, n, kind):
    if kind == 'positive':
        w = [rng.randint(1, 4 * GRID) / GRID for _ in range(n)]
    elif kind == 'dominant':
        w = [rng.randint(1, GRID) / GRID for _ in range(n)]
        w[rng.randrange(n)] = float(n + rng.randint(0, 3))
    elif kind == 'zeros':
        w = [rng.choice([0.0, 0.0, rng.randint(1, 2 * GRID) / GRID]) for _ in range(n)]
        w[rng.randrange(n)] = rng.randint(1, GRID) / GRID
    elif kind == 'equal':
        w = [rng.choice([1.0, 0.5, 0.75, 3.0, 0.1, 1 / 3])] * n
    elif kind == 'smallint':
        w = [float(rng.randint(1, 3)) for _ in range(n)]
    elif kind == 'smallint0':
        w = [float(rng.randint(0, 2)) for _ in range(n)]
        w[rng.randrange(n)] = 1.0
    else:
        w = [rng.randint(1, 2 * GRID) / GRID for _ in range(n)]
        w[rng.randrange(n)] = float('nan')
    return w


def add_nans(rng, v):
    v = list(v)
    for _ in range(rng.randint(1, max(1, len(v) // 4))):
        v.insert(rng.randint(0, len(v)), float('nan'))
    return v


# ----------------------------------------------------------------------------
# generic comparison of one scalar estimator against the model

def cmp_model(ck, name, case, code, model, amb=None):
    """code: float/Err, model: Fraction/None/Err.  Returns True when they agree."""
    if isinstance(model, Err) and model.msg in ('decode', 'oracle contract', 'unknown entry'):
        raise RuntimeError('%s: model rejected the request (%s) on %r' % (name, model.msg, case))
    if isinstance(code, Err) or isinstance(model, Err):
        ok = isinstance(code, Err) and isinstance(model, Err) and code.msg == model.msg
    else:
        ok = vlib.close(code, model)
    if not ok:
        if amb is not None and amb():
            ck.float_ambiguous += 1
            return True
        ck.tie_break('model %s differs from the code' % name, case, code=code, model=model)
    return ok


# ----------------------------------------------------------------------------
# unweighted estimators

def check_unweighted(ck, consts):
    from cnvlib import descriptives as D
    rng = ck.rng
    n_cases = 700 if ck.tier == 'quick' else 16000
    cases = []
    for v in CORPUS.get('vectors', []):
        cases.append(('corpus', [float('nan') if x is None else float(x) for x in v]))
    for n in (1, 2, 3, 4, 5, 9, 10, 11, 12):
        for kind in KINDS:
            cases.append((kind, gen_values(rng, n, kind)))
    for i in range(n_cases):
        kind = rng.choice(KINDS)
        n = gen_len(rng, ck.tier)
        v = gen_values(rng, n, kind)
        if rng.random() < 0.15:
            v = add_nans(rng, v)
            kind += '+nan'
        cases.append((kind, v))
    if ck.tier == 'quick':
        qn_big = set(rng.sample(range(len(cases)), 6))
    sqrt_pi = float(np.sqrt(np.pi))
    rec = []
    for ci, (kind, v) in enumerate(cases):
        cv = clean(v)
        n = len(cv)
        fv = [fr(x) for x in cv]
        case = {'a': v, 'kind': kind}
        nontriv = n >= 3 and len(set(cv)) > 1
        ck.count(['uw', v], nontrivial=nontriv, cls='uw:' + kind)
        lo, hi = (min(fv), max(fv)) if fv else (None, None)
        c_shift = float(rng.choice([3.25, -7.5, 100.0, 0.125]))
        k_scale = float(rng.choice([2.0, 0.5, -3.0, 4.0, -0.25]))
        vs = [x + c_shift for x in v]
        vk = [x * k_scale for x in v]
        r = {}
        # --- location: biweight location
        r['biloc'] = call(D.biweight_location, v)
        if n == 0:
            if not isnan(r['biloc']):
                ck.violation('biweight_location of an all-NaN/empty vector is not NaN', case, code=r['biloc'], clause='C19_nan')
        elif isinstance(r['biloc'], Err) or not finite(r['biloc']):
            ck.violation('biweight_location is not finite', case, code=r['biloc'], clause='C19_biloc_range')
        else:
            b = r['biloc']
            if not (float(lo) - TOL * max(1, abs(float(lo))) <= b <= float(hi) + TOL * max(1, abs(float(hi)))):
                ck.violation('biweight_location outside the data range', case, code=b, expected=[lo, hi], clause='C19_biloc_range')
            bs = call(D.biweight_location, vs)
            if isinstance(bs, Err) or not close(bs, b + c_shift, scale=c_shift):
                ck.violation('biweight_location does not move with the data', dict(case, shift=c_shift), code=bs,
                             expected=b + c_shift, clause='C19_biloc_shift')
            if n >= 2:
                pub = t_biloc_published(cv)
                if not close(b, pub):
                    ck.violation('biweight_location differs from the published (Beers et al. 1990) iteration', case,
                                 code=b, expected=pub, clause='C19_defs', sig='biweight-location-mask-after-transform')
        # --- scale estimators
        ests = [('mad', D.median_absolute_deviation, lambda x: F(1.4826) * t_mad(x)),
                ('iqr', D.interquartile_range, lambda x: t_percentile(x, 75) - t_percentile(x, 25)),
                ('gapper', D.gapper_scale, lambda x: t_gapper_nopi(x) * F(sqrt_pi))]
        do_qn = n <= 40 or (ck.tier == 'thorough' and (n <= 90 or ci % 40 == 0)) or (ck.tier == 'quick' and ci in qn_big)
        if do_qn:
            ests.append(('qn', D.q_n, t_qn))
        for nm, f, tb in ests:
            e = call(f, v)
            r[nm] = e
            if n == 0:
                if not isnan(e):
                    ck.violation('%s of an all-NaN/empty vector is not NaN' % nm, case, code=e, clause='C19_nan')
                continue
            if isinstance(e, Err) or not finite(e):
                ck.violation('%s is not finite' % nm, case, code=e, clause='C19_%s_nonneg' % nm)
                continue
            if e < 0:
                ck.violation('%s is negative' % nm, case, code=e, clause='C19_%s_nonneg' % nm)
            if len(set(cv)) == 1 and e != 0:
                ck.violation('%s is not zero on constant data' % nm, case, code=e, expected=0, clause='C19_%s_const' % nm)
            if n >= 2:
                exp = tb(fv)
                if not close(e, exp):
                    ck.violation('%s differs from its textbook formula' % nm, case, code=e, expected=exp, clause='C19_defs')
            es = call(f, vs)
            if isinstance(es, Err) or not close(es, e, scale=0):
                ck.violation('%s changes when a constant is added' % nm, dict(case, shift=c_shift), code=es, expected=e,
                             clause='C19_%s_shift' % nm)
            ek = call(f, vk)
            if isinstance(ek, Err) or not close(ek, abs(k_scale) * e):
                ck.violation('%s is not proportional under rescaling' % nm, dict(case, factor=k_scale), code=ek,
                             expected=abs(k_scale) * e, clause='C19_%s_scale' % nm)
        # --- biweight midvariance: non-negative, zero on constants, published formula about the package's centre
        bv = call(D.biweight_midvariance, v)
        r['bivar'] = bv
        if n == 0:
            if not isnan(bv):
                ck.violation('biweight_midvariance of an all-NaN/empty vector is not NaN', case, code=bv, clause='C19_nan')
        elif isinstance(bv, Err) or not finite(bv):
            ck.violation('biweight_midvariance is not finite', case, code=bv, clause='C19_bivar_nonneg')
        else:
            if bv < 0:
                ck.violation('biweight_midvariance is negative', case, code=bv, clause='C19_bivar_nonneg')
            if len(set(cv)) == 1 and bv != 0:
                ck.violation('biweight_midvariance is not zero on constant data', case, code=bv, expected=0, clause='C19_bivar_const')
            if n >= 2 and not isinstance(r['biloc'], Err):
                formula, fallback, s = t_bivar_sq(cv, r['biloc'])
                if not (close(bv * bv, formula, scale=0) or close(bv * bv, fallback, scale=0)) and not (
                        close(bv, math.sqrt(max(formula, 0))) or close(bv, math.sqrt(fallback))):
                    ck.violation('biweight_midvariance differs from its published formula about the biweight location', case,
                                 code=bv, expected=[math.sqrt(max(formula, 0)), math.sqrt(fallback)], clause='C19_defs')
                # shift (holds in exact arithmetic; the symmetric fallback makes it float-sensitive)
                bvs = call(D.biweight_midvariance, vs)
                if not isinstance(bvs, Err) and not close(bvs, bv):
                    if s < 1e-7 or close(bvs * bvs, fallback, scale=0) or close(bvs * bvs, formula, scale=0):
                        ck.float_ambiguous += 1      # exactly symmetric data: falls back to the MAD on one side only
                    else:
                        ck.violation('biweight_midvariance changes when a constant is added (non-symmetric data)',
                                     dict(case, shift=c_shift), code=bvs, expected=bv, clause='C19_bivar_shift')
        # --- mean squared error
        r['mse'] = call(D.mean_squared_error, v)
        r['mse0'] = call(D.mean_squared_error, v, initial=0.5)
        if n >= 2 and not isinstance(r['mse'], Err):
            mu = sum(fv) / n
            exp = sum((x - mu) ** 2 for x in fv) / n
            if not close(r['mse'], exp):
                ck.violation('mean_squared_error differs from mean((a-mean(a))^2)', case, code=r['mse'], expected=exp, clause='C19_defs')
        # --- mode
        r['mode'] = call(D.modal_location, v)
        if n >= 1:
            m = r['mode']
            if isinstance(m, Err) or not finite(m):
                ck.violation('modal_location fails / is not finite', case, code=m, clause='C19_mode_range')
            else:
                if not (float(lo) <= m <= float(hi)):
                    ck.violation('modal_location outside the data range', case, code=m, expected=[lo, hi], clause='C19_mode_range')
                ms = call(D.modal_location, vs)
                if isinstance(ms, Err) or not close(ms, m + c_shift, scale=c_shift):
                    # the KDE peak may flip between two equally high points under rounding
                    alt = mode_alternatives(cv)
                    if not isinstance(ms, Err) and any(close(ms - c_shift, x) for x in alt):
                        ck.float_ambiguous += 1
                    else:
                        ck.violation('modal_location does not move with the data', dict(case, shift=c_shift), code=ms,
                                     expected=m + c_shift, clause='C19_mode_shift')
        rec.append((case, cv, r))
    # ---- model comparison (batched)
    def batch(entry, inputs):
        return vlib.model_batch_parallel(entry, inputs)
    m_biloc = batch('c19_biloc', [[c['a'], None] for c, _, _ in rec])
    m_bivar = batch('c19_bivar', [[c['a'], None] for c, _, _ in rec])
    m_mad = batch('c19_mad', [[c['a'], True] for c, _, _ in rec])
    m_iqr = batch('c19_iqr', [c['a'] for c, _, _ in rec])
    m_gap = batch('c19_gapper', [[c['a'], sqrt_pi] for c, _, _ in rec])
    qn_idx = [i for i, (_, _, r) in enumerate(rec) if 'qn' in r]
    m_qn = dict(zip(qn_idx, batch('c19_qn', [rec[i][0]['a'] for i in qn_idx])))
    m_mse = batch('c19_mse', [[c['a'], None] for c, _, _ in rec])
    m_mse0 = batch('c19_mse', [[c['a'], 0.5] for c, _, _ in rec])
    mode_in = []
    for c, cv, r in rec:
        mode_in.append([c['a'], mode_index(cv)])
    m_mode = batch('c19_mode', mode_in)
    bad_biloc = []
    for i, (c, cv, r) in enumerate(rec):
        if not (isinstance(m_biloc[i], Err) or m_biloc[i] is None) and not isinstance(r['biloc'], Err) \
                and not vlib.close(r['biloc'], m_biloc[i]):
            bad_biloc.append(i)
    margins = dict(zip(bad_biloc, batch('c19_biloc_margin', [[rec[i][0]['a'], None] for i in bad_biloc])))
    for i, (c, cv, r) in enumerate(rec):
        cmp_model(ck, 'biweight_location', c, r['biloc'], m_biloc[i],
                  amb=lambda: i in margins and float(margins[i]) < 1e-7)
        mb = m_bivar[i]
        if isinstance(mb, list):
            code_sq = r['bivar'] ** 2 if not isinstance(r['bivar'], Err) else r['bivar']
            if len(mb) == 1:
                cmp_model(ck, 'biweight_midvariance^2', c, code_sq, mb[0])
            else:
                res, s, fallback, formula = mb
                cmp_model(ck, 'biweight_midvariance^2', c, code_sq, res,
                          amb=lambda: float(s) < 1e-7 and (vlib.close(code_sq, fallback) or vlib.close(code_sq, formula)))
        else:
            cmp_model(ck, 'biweight_midvariance', c, r['bivar'], mb)
        cmp_model(ck, 'median_absolute_deviation', c, r['mad'], m_mad[i])
        cmp_model(ck, 'interquartile_range', c, r['iqr'], m_iqr[i])
        cmp_model(ck, 'gapper_scale', c, r['gapper'], m_gap[i])
        if i in m_qn:
            cmp_model(ck, 'q_n', c, r['qn'], m_qn[i])
        cmp_model(ck, 'mean_squared_error', c, r['mse'], m_mse[i])
        cmp_model(ck, 'mean_squared_error(initial=0.5)', c, r['mse0'], m_mse0[i])
        cmp_model(ck, 'modal_location', c, r['mode'], m_mode[i])
    # MAD without scaling, biweight with an explicit start
    sub = rec[::7]
    m1 = batch('c19_mad', [[c['a'], False] for c, _, _ in sub])
    m2 = batch('c19_biloc', [[c['a'], 0.25] for c, _, _ in sub])
    m3 = batch('c19_bivar', [[c['a'], 0.25] for c, _, _ in sub])
    for (c, cv, r), a1, a2, a3 in zip(sub, m1, m2, m3):
        cmp_model(ck, 'median_absolute_deviation(scale_to_sd=False)', c, call(D.median_absolute_deviation, c['a'], scale_to_sd=False), a1)
        cmp_model(ck, 'biweight_location(initial=0.25)', c, call(D.biweight_location, c['a'], initial=0.25), a2)
        code = call(D.biweight_midvariance, c['a'], initial=0.25)
        if isinstance(a3, list):
            code_sq = code ** 2 if not isinstance(code, Err) else code
            cmp_model(ck, 'biweight_midvariance(initial=0.25)^2', c, code_sq, a3[0],
                      amb=lambda: len(a3) == 4 and float(a3[1]) < 1e-7)
        else:
            cmp_model(ck, 'biweight_midvariance(initial=0.25)', c, code, a3)


def mode_index(cv):
    """the KDE arg-max index, from the same scipy call the code makes (oracle)"""
    from scipy import stats
    if len(cv) < 2:
        return 0
    s = np.sort(np.asarray(cv, float))
    if s[0] == s[-1]:
        return 0
    try:
        y = stats.gaussian_kde(s).evaluate(s)
    except Exception:       # noqa
        return 0
    return int(y.argmax())


def mode_alternatives(cv):
    from scipy import stats
    s = np.sort(np.asarray(cv, float))
    if len(s) < 2 or s[0] == s[-1]:
        return list(s[:1])
    y = stats.gaussian_kde(s).evaluate(s)
    return [float(x) for x, yy in zip(s, y) if yy >= y.max() * (1 - 1e-9)]


# ----------------------------------------------------------------------------
# weighted estimators

def code_order(vals):
    return [int(i) for i in np.asarray(vals, dtype=float).argsort()]


def check_wmedian_case(ck, a, w, eps, label, exhaustive=False):
    """direct oracle for one (a, w); returns the code result"""
    from cnvlib import descriptives as D
    case = {'a': a, 'w': w}
    code = call(D.weighted_median, np.asarray(a, float), np.asarray(w, float))
    ps = [(fr(x), fr(y)) for x, y in clean_weighted(a, w)]
    n = len(ps)
    if n == 0:
        if not isnan(code):
            ck.violation('weighted_median of nothing is not NaN', case, code=code, clause='C19_nan')
        return code
    if isinstance(code, Err) or not finite(code):
        if sum(y for _, y in ps) > 0:
            ck.violation('weighted_median fails / is not finite', case, code=code, clause='C19_wmedian_range')
        return code
    m = fr(code)
    vals = [x for x, _ in ps]
    W = sum(y for _, y in ps)
    if not (min(vals) <= m <= max(vals)):
        ck.violation('weighted_median outside the data range', case, code=code, expected=[min(vals), max(vals)],
                     clause='C19_wmedian_range')
    if W > 0 and n >= 2:
        lo, hi, _ = halves(ps, m)
        guard = wmedian_guard(ps, eps)
        slack = 0 if guard else F(1, 10 ** 9) * W
        if not guard:
            ck.float_ambiguous += 1
        if lo > W / 2 + slack or hi > W / 2 + slack:
            ck.violation('weighted_median: more than half the weight lies strictly on one side', case, code=code,
                         expected={'below': lo, 'above': hi, 'half': W / 2}, clause='C19_wmedian_halves')
        ws = set(y for _, y in ps)
        if len(ws) == 1 and guard:
            exp = t_median(vals)
            if m != exp:
                ck.violation('weighted_median with equal weights is not the ordinary median', case, code=code, expected=exp,
                             clause='C19_wmedian_equal')
    return code


def check_weighted(ck, consts):
    from cnvlib import descriptives as D
    rng = ck.rng
    eps = consts['wmedian_eps']
    rec = []       # (case, code results)
    # corpus first
    for c in CORPUS.get('wmedian', []):
        a = [float('nan') if x is None else float(x) for x in c['a']]
        w = [float('nan') if x is None else float(x) for x in c['w']]
        code = check_wmedian_case(ck, a, w, eps, 'corpus')
        ck.count(['wm', a, w], nontrivial=True, cls='wmedian:corpus')
        if 'expected' in c and (isinstance(code, Err) or not close(code, c['expected'])):
            ck.violation('weighted_median regression case: %s' % c.get('what', ''), {'a': a, 'w': w}, code=code,
                         expected=c['expected'], clause='C19_wmedian_halves')
        rec.append(({'a': a, 'w': w, 'kind': 'corpus'}, {'wm': code}))
    # exhaustive small scope
    L = 4
    count = 0
    for n in range(1, L + 1):
        for vals in itertools.product([0.0, 1.0, 2.0, 3.0], repeat=n):
            for ws in itertools.product([0.0, 1.0, 2.0], repeat=n):
                a, w = list(vals), list(ws)
                code = check_wmedian_case(ck, a, w, eps, 'exh', True)
                rec.append(({'a': a, 'w': w, 'kind': 'exh'}, {'wm': code}))
                count += 1
    ck.count(['wm-exhaustive', L], nontrivial=True, cls='wmedian:exhaustive', n=count)
    ck.extra['exhaustive_scope'] = ('weighted_median on all (value, weight) vectors of length <= %d over {0,1,2,3} x {0,1,2}: '
                                    '%d cases' % (L, count))
    n_exh = len(rec)
    # random stream
    n_cases = 500 if ck.tier == 'quick' else 14000
    for i in range(n_cases):
        kind = rng.choice(KINDS)
        wkind = rng.choice(WKINDS)
        n = gen_len(rng, ck.tier)
        a = gen_values(rng, n, kind)
        w = gen_weights(rng, n, wkind)
        if rng.random() < 0.1:
            j = rng.randrange(n)
            a[j] = float('nan')
            kind += '+nan'
        if i % 50 == 0:
            w = w[:-1] if n > 1 else w + [1.0]      # malformed: unequal lengths
            wkind = 'badlen'
        case = {'a': a, 'w': w, 'kind': kind + '/' + wkind}
        r = {}
        if wkind == 'badlen':
            r['wm'] = call(D.weighted_median, np.asarray(a), np.asarray(w))
            ck.count(['wm', a, w], nontrivial=False, cls='weighted:badlen')
            rec.append((case, r))
            continue
        ps = [(fr(x), fr(y)) for x, y in clean_weighted(a, w)]
        ck.count(['wm', a, w], nontrivial=len(ps) >= 3 and len(set(ps)) > 1, cls='weighted:' + wkind)
        r['wm'] = check_wmedian_case(ck, a, w, eps, 'rand')
        nn = len(ps)
        W = sum(y for _, y in ps)
        c_shift = float(rng.choice([3.25, -7.5, 100.0]))
        k_scale = float(rng.choice([2.0, 0.5, 4.0]))
        k_any = float(rng.choice([2.0, -3.0, -0.5]))
        if nn >= 1 and W > 0 and not isinstance(r['wm'], Err):
            ms = call(D.weighted_median, np.asarray(a) + c_shift, np.asarray(w))
            if isinstance(ms, Err) or not close(ms, r['wm'] + c_shift, scale=c_shift):
                ck.violation('weighted_median does not move with the data', dict(case, shift=c_shift), code=ms,
                             expected=r['wm'] + c_shift, clause='C19_wmedian_shift')
        # weighted MAD and std
        an, wn = np.asarray(a, float), np.asarray(w, float)
        r['wmad'] = call(D.weighted_mad, an.copy(), wn.copy())
        r['wstd'] = call(D.weighted_std, an.copy(), wn.copy())
        for nm in ('wmad', 'wstd'):
            f = D.weighted_mad if nm == 'wmad' else D.weighted_std
            e = r[nm]
            if nn == 0:
                if not isnan(e):
                    ck.violation('%s of nothing is not NaN' % nm, case, code=e, clause='C19_nan')
                continue
            if W <= 0 and nn >= 2:
                continue                  # outside the claim (no positive weight)
            if isinstance(e, Err) or not finite(e):
                ck.violation('%s fails / is not finite' % nm, case, code=e, clause='C19_%s_nonneg' % nm)
                continue
            if e < 0:
                ck.violation('%s is negative' % nm, case, code=e, clause='C19_%s_nonneg' % nm)
            if len(set(x for x, _ in ps)) == 1 and e != 0:
                ck.violation('%s is not zero on constant data' % nm, case, code=e, expected=0, clause='C19_%s_const' % nm)
            if nm == 'wstd' and nn >= 2:
                exp = t_wvar(ps)
                if not close(e * e, exp):
                    ck.violation('weighted_std^2 differs from sum w (x-mu)^2 / sum w', case, code=e * e, expected=exp, clause='C19_defs')
            es = call(f, an + c_shift, wn.copy())
            if isinstance(es, Err) or not close(es, e, scale=0):
                ck.violation('%s changes when a constant is added' % nm, dict(case, shift=c_shift), code=es, expected=e,
                             clause='C19_%s_shift' % nm)
            k = k_any if nm == 'wstd' else k_scale
            ek = call(f, an * k, wn.copy())
            if isinstance(ek, Err) or not close(ek, abs(k) * e):
                ck.violation('%s is not proportional under rescaling' % nm, dict(case, factor=k), code=ek, expected=abs(k) * e,
                             clause='C19_%s_scale' % nm)
        rec.append((case, r))
    # ---- model comparison
    ins_ord, ins_stable, idx_stable = [], [], []
    for i, (c, r) in enumerate(rec):
        a, w = c['a'], c['w']
        if len(a) != len(w):
            ins_ord.append([a, w, []])
            continue
        cv = [x for x, _ in clean_weighted(a, w)]
        ins_ord.append([a, w, code_order(cv)])
        if len(cv) <= 16:
            idx_stable.append(i)
            ins_stable.append([a, w])
    m_ord = vlib.model_batch_parallel('c19_wmedian_ord', ins_ord)
    m_st = dict(zip(idx_stable, vlib.model_batch_parallel('c19_wmedian', ins_stable)))
    for i, (c, r) in enumerate(rec):
        cmp_model(ck, 'weighted_median (numpy order)', c, r['wm'], m_ord[i])
        if i in m_st:
            cmp_model(ck, 'weighted_median (stable order)', c, r['wm'], m_st[i])
    rest = []
    for i, (c, r) in enumerate(rec):
        if 'wmad' not in r:
            continue
        mo = m_ord[i]
        if not isinstance(r['wm'], Err) and not isinstance(mo, Err) and mo is not None and not vlib.close(r['wm'], mo):
            ck.cls('weighted:wmad-skipped-median-differs')     # already reported through weighted_median
            continue
        rest.append((c, r))
    ins_mad, ins_var = [], []
    for c, r in rest:
        a, w = c['a'], c['w']
        cw = clean_weighted(a, w)
        cv = [x for x, _ in cw]
        o1 = code_order(cv)
        wm = r['wm']
        if len(cv) >= 2 and not isinstance(wm, Err) and finite(wm):
            o2 = code_order(np.abs(np.asarray(cv) - wm))
        else:
            o2 = o1
        ins_mad.append([a, w, True, o1, o2])
        ins_var.append([a, w])
    m_mad = vlib.model_batch_parallel('c19_wmad_ord', ins_mad)
    m_var = vlib.model_batch_parallel('c19_wvar', ins_var)
    for (c, r), mm, mv in zip(rest, m_mad, m_var):
        cmp_model(ck, 'weighted_mad', c, r['wmad'], mm)
        code_sq = r['wstd'] ** 2 if not isinstance(r['wstd'], Err) else r['wstd']
        cmp_model(ck, 'weighted_std^2', c, code_sq, mv)


# ----------------------------------------------------------------------------
# smoothers

_sg_cache = {}


def sg_oracle(ww, order):
    """savgol_coeffs and the polynomial edge-fit rows of savgol_filter(mode='interp')"""
    from scipy.signal import savgol_coeffs, savgol_filter
    key = (ww, order)
    if key not in _sg_cache:
        coeffs = [float(c) for c in savgol_coeffs(ww, order)]
        half = ww // 2
        M = np.array([savgol_filter(np.eye(ww)[j], ww, order, mode='interp') for j in range(ww)])   # M[j][i]
        el = [[float(M[j][i]) for j in range(ww)] for i in range(half)]
        er = [[float(M[j][ww - half + i]) for j in range(ww)] for i in range(half)]
        for row in el + er + [coeffs]:
            if abs(sum(row) - 1) > 1e-9:
                raise RuntimeError('savgol oracle window does not sum to 1: %r' % (key,))
        _sg_cache[key] = (coeffs, el, er)
    return _sg_cache[key]


def frac_oracle(n, width):
    """the code's own float computation of ceil(n*width*0.5) (only meaningful for 0 < width < 1)"""
    if 0 < width < 1:
        return int(math.ceil(n * width * 0.5))
    return 0


def gen_width(rng, n):
    r = rng.random()
    if r < 0.4:
        return rng.choice([0.05, 0.1, 0.2, 0.25, 0.3, 0.5, 0.75, 0.9, 0.99, rng.random() * 0.98 + 0.01,
                           2 * rng.randint(1, max(1, n)) / n if 2 * rng.randint(1, max(1, n)) / n < 1 else 0.5])
    if r < 0.85:
        return rng.choice([2, 3, 4, 5, 7, 9, 11, n - 1, n, n + 1, 2 * n, n + 50, rng.randint(2, max(2, n)), 7.0, 5.0])
    return rng.choice([1, 0, -3, 1.5, 2.5, 1.0, 0.0, 100.5])       # malformed


def check_smoothers(ck, consts):
    from cnvlib import smoothing as S
    rng = ck.rng
    n_cases = 300 if ck.tier == 'quick' else 9000
    beta = consts['kaiser_beta']
    cases = []
    for c in CORPUS.get('smooth', []):
        cases.append(('corpus', [float(x) for x in c['x']], c['width']))
    for n in (1, 2, 3, 4, 5, 6, 7, 8):
        for width in (3, 7, 0.5, 2 * n + 1):
            cases.append(('small', gen_values(rng, n, 'random'), width))
            cases.append(('equal', gen_values(rng, n, 'equal'), width))
    for i in range(n_cases):
        kind = rng.choice(KINDS)
        n = gen_len(rng, ck.tier)
        cases.append((kind, gen_values(rng, n, kind), gen_width(rng, n)))
    wing_in, rm_in, ka_in, sg_in, plan_in = [], [], [], [], []
    rec = []
    for kind, x, width in cases:
        n = len(x)
        xa = np.asarray(x, float)
        fo = frac_oracle(n, width)
        valid = (0 < width < 1) or (width >= 2 and int(width) == width)
        case = {'x': x, 'width': width, 'kind': kind}
        ck.count(['smooth', x, width], nontrivial=n >= 4 and valid and len(set(x)) > 1, cls='smooth:%s:%s' % (
            kind, 'frac' if 0 < width < 1 else ('int' if valid else 'badwidth')))
        r = {}
        r['wing'] = call(S._width2wing, width, xa) if n >= 1 else Err('skip')
        r['rm'] = call(S.rolling_median, xa.copy(), width)
        r['ka'] = call(S.kaiser, xa.copy(), width)
        r['sg'] = call(S.savgol, xa.copy(), width)
        lo, hi = min(x), max(x)
        for nm, clause_rng in (('rm', True), ('ka', True), ('sg', False)):
            y = r[nm]
            if not valid and n >= 2:
                if not isinstance(y, Err):
                    ck.violation('%s accepted an invalid width' % nm, case, code=y, clause='C19_wing')
                continue
            if isinstance(y, Err):
                ck.violation('%s raised %s on a valid width' % (nm, y.msg), case, code=y, clause='C19_length')
                continue
            if len(y) != n:
                ck.violation('%s does not return one value per input value' % nm, case, code=len(y), expected=n, clause='C19_length')
                continue
            if not all(finite(v) for v in y):
                ck.violation('%s returns a non-finite value' % nm, case, code=y, clause='C19_length')
                continue
            if len(set(x)) == 1 and not all(close(v, x[0], scale=0) for v in y):
                ck.violation('%s does not reproduce a constant signal' % nm, case, code=y, expected=x[0], clause='C19_const')
            if clause_rng:
                slack = 0 if nm == 'rm' else TOL * max(1.0, abs(lo), abs(hi))
                if not all(lo - slack <= v <= hi + slack for v in y):
                    ck.violation('%s leaves the input range' % nm, case, code=[min(y), max(y)], expected=[lo, hi],
                                 clause='C19_rolling_range' if nm == 'rm' else 'C19_kaiser_range')
        # independent textbook versions (mirror padding by index reflection)
        if valid and n >= 2 and not isinstance(r['wing'], Err):
            wing = int(r['wing'])
            if not (1 <= wing <= n - 1):
                ck.violation('_width2wing: window wider than the signal', case, code=wing, expected=[1, n - 1], clause='C19_wing')
            else:
                def refl(i):
                    if i < 0:
                        return x[-i - 1]
                    if i >= n:
                        return x[2 * n - 1 - i]
                    return x[i]
                if not isinstance(r['rm'], Err) and len(r['rm']) == n:
                    exp = [sorted(refl(i + k) for k in range(-wing, wing + 1))[wing] for i in range(n)]
                    if [float(v) for v in r['rm']] != exp:
                        ck.violation('rolling_median differs from the median of the mirrored window', case, code=r['rm'],
                                     expected=exp, clause='C19_defs')
                if not isinstance(r['ka'], Err) and len(r['ka']) == n:
                    win = np.kaiser(2 * wing + 1, beta)
                    win = win / win.sum()
                    exp = [sum(win[k + wing] * refl(i + k) for k in range(-wing, wing + 1)) for i in range(n)]
                    if not all(close(a_, b_) for a_, b_ in zip(r['ka'], exp)):
                        ck.violation('kaiser differs from the normalised Kaiser-window average of the mirrored signal', case,
                                     code=r['ka'], expected=exp, clause='C19_defs')
        rec.append((case, r, fo))
        wing_in.append([max(n, 0), width, fo])
        rm_in.append([x, width, fo])
        plan_in.append([n, [float(width), fo, consts['sg_window'], consts['sg_order'], consts['sg_niter']]])
    m_wing = vlib.model_batch('c19_wing', wing_in)
    m_rm = vlib.model_batch_parallel('c19_rolling_median', rm_in)
    m_plan = vlib.model_batch('c19_savgol_plan', plan_in)
    for (case, r, fo), mw, mp in zip(rec, m_wing, m_plan):
        x, width = case['x'], case['width']
        n = len(x)
        if isinstance(mw, Err):
            window = []
        else:
            window = [float(v) for v in np.kaiser(2 * int(mw) + 1, beta)]
        ka_in.append([x, [float(width), fo], window])
        if isinstance(mp, Err):
            sg_in.append([x, [float(width), fo, consts['sg_window'], consts['sg_order'], consts['sg_niter']], [], [[], []]])
        else:
            wing, ww, order, n_iter = mp
            coeffs, el, er = sg_oracle(int(ww), int(order))
            sg_in.append([x, [float(width), fo, consts['sg_window'], consts['sg_order'], consts['sg_niter']], coeffs, [el, er]])
    m_ka = vlib.model_batch_parallel('c19_kaiser', ka_in)
    m_sg = vlib.model_batch_parallel('c19_savgol', sg_in)

    def cmp_list(name, case, code, model):
        if isinstance(model, Err) and model.msg in ('decode', 'oracle contract', 'unknown entry'):
            raise RuntimeError('%s: model rejected the request (%s) on %r' % (name, model.msg, case))
        if isinstance(code, Err) or isinstance(model, Err):
            ok = isinstance(code, Err) and isinstance(model, Err) and code.msg == model.msg
        else:
            ok = len(code) == len(model) and all(vlib.close(a_, b_) for a_, b_ in zip(code, model))
        if not ok:
            ck.tie_break('model %s differs from the code' % name, case, code=code, model=model)

    for (case, r, fo), mw, mr, mk, ms in zip(rec, m_wing, m_rm, m_ka, m_sg):
        n = len(case['x'])
        if n >= 1:
            cw = r['wing']
            if isinstance(cw, Err) or isinstance(mw, Err):
                if not (isinstance(cw, Err) and isinstance(mw, Err) and cw.msg == mw.msg):
                    ck.tie_break('model _width2wing differs from the code', case, code=cw, model=mw)
            elif int(cw) != mw:
                ck.tie_break('model _width2wing differs from the code', case, code=cw, model=mw)
        cmp_list('rolling_median', case, r['rm'], mr)
        cmp_list('kaiser', case, r['ka'], mk)
        cmp_list('savgol', case, r['sg'], ms)
    # padding on its own
    pads = []
    for case, r, fo in rec[::5]:
        x = case['x']
        if len(x) >= 2:
            pads.append((x, rng.randint(1, len(x) - 1)))
    m_pad = vlib.model_batch('c19_pad', [[x, w] for x, w in pads])
    for (x, w), mp in zip(pads, m_pad):
        code = [float(v) for v in S._pad_array(np.asarray(x, float), w)]
        if code != [float(v) for v in mp]:
            ck.tie_break('model _pad_array differs from the code', {'x': x, 'wing': w}, code=code, model=mp)


def check_smoothers_weighted(ck, consts):
    """savgol / kaiser with weights; zero-weight runs shorter than the window in the main stream"""
    from cnvlib import smoothing as S
    rng = ck.rng
    n_cases = 120 if ck.tier == 'quick' else 4000
    beta = consts['kaiser_beta']
    rec, sg_in, plan_in = [], [], []
    # the open known finding: every weight under a window is zero -> 0/0
    canon = {'x': [1.0, 5.0, 2.0, 8.0, 3.0, 9.0, 4.0, 7.0, 6.0, 0.0], 'w': [1.0, 1, 1, 0, 0, 0, 0, 0, 0, 0], 'width': 7}
    y = call(S.savgol, np.asarray(canon['x']), canon['width'], weights=np.asarray(canon['w'], float))
    ck.count(['smooth-w-canonical', canon], nontrivial=True, cls='smoothw:zero-window')
    if isinstance(y, Err) or not all(finite(v) for v in y):
        ck.violation('savgol with weights returns a non-finite value where every weight under the window is zero', canon,
                     code=y, clause='C19_length', sig='savgol-weighted-zero-window')
    for i in range(n_cases):
        kind = rng.choice(KINDS)
        n = gen_len(rng, ck.tier, big=200)
        x = gen_values(rng, n, kind)
        width = gen_width(rng, n)
        valid = (0 < width < 1) or (width >= 2 and int(width) == width)
        if not valid:
            width = 7
        wkind = rng.choice(['positive', 'equal', 'smallint', 'dominant', 'fewzeros'])
        if wkind == 'fewzeros':
            w = gen_weights(rng, n, 'positive')
            for j in range(0, n, 3):
                if rng.random() < 0.5:
                    w[j] = 0.0          # isolated zeros only: never a whole window
        else:
            w = gen_weights(rng, n, wkind)
        case = {'x': x, 'w': w, 'width': width, 'kind': kind + '/' + wkind}
        ck.count(['smooth-w', x, w, width], nontrivial=n >= 4 and len(set(x)) > 1, cls='smoothw:' + wkind)
        y = call(S.savgol, np.asarray(x, float), width, weights=np.asarray(w, float))
        if isinstance(y, Err):
            ck.violation('savgol with weights raised %s' % y.msg, case, code=y, clause='C19_length')
        elif len(y) != n:
            ck.violation('savgol with weights does not return one value per input value', case, code=len(y), expected=n, clause='C19_length')
        elif not all(finite(v) for v in y):
            ck.violation('savgol with weights returns a non-finite value', case, code=y, clause='C19_length')
        elif len(set(x)) == 1 and not all(close(v, x[0], scale=0) for v in y):
            ck.violation('savgol with weights does not reproduce a constant signal', case, code=y, expected=x[0], clause='C19_const')
        fo = frac_oracle(n, width)
        rec.append((case, y, fo))
        plan_in.append([n, [float(width), fo, consts['sg_window'], consts['sg_order'], consts['sg_niter']]])
    m_plan = vlib.model_batch('c19_savgol_plan', plan_in)
    for (case, y, fo), mp in zip(rec, m_plan):
        args = [float(case['width']), fo, consts['sg_window'], consts['sg_order'], consts['sg_niter']]
        if isinstance(mp, Err):
            sg_in.append([case['x'], case['w'], args, []])
        else:
            from scipy.signal import savgol_coeffs
            sg_in.append([case['x'], case['w'], args, [float(c) for c in savgol_coeffs(int(mp[1]), int(mp[2]))]])
    m_sg = vlib.model_batch_parallel('c19_savgol_w', sg_in)
    for (case, y, fo), ms in zip(rec, m_sg):
        if isinstance(ms, Err) and ms.msg in ('decode', 'oracle contract', 'unknown entry'):
            raise RuntimeError('savgol_w: model rejected the request (%s) on %r' % (ms.msg, case))
        if ms is None:
            if not isinstance(y, Err) and all(finite(v) for v in y):
                ck.tie_break('model savgol(weights) divides by zero, the code does not', case, code=y, model=ms)
            continue
        if isinstance(y, Err) or isinstance(ms, Err):
            ok = isinstance(y, Err) and isinstance(ms, Err) and y.msg == ms.msg
        else:
            # normalisers can be tiny (negative Savitzky-Golay lobes): compare at the tolerance scaled by the data range
            sc = max(1.0, max(abs(v) for v in case['x']))
            ok = len(y) == len(ms) and all(abs(a_ - float(b_)) <= 1e-6 * max(sc, abs(float(b_))) for a_, b_ in zip(y, ms))
        if not ok:
            ck.tie_break('model savgol(weights) differs from the code', case, code=y, model=ms)


# ----------------------------------------------------------------------------

CORPUS = {}


def load_corpus():
    p = os.path.join(HERE, '..', 'corpus', 'c19.json')
    if os.path.exists(p):
        CORPUS.update(json.load(open(p)))


def check_corpus_expect(ck):
    """inputs of defects already repaired: a regression is reported again"""
    from cnvlib import descriptives as D, smoothing as S
    nanify = lambda v: [float('nan') if x is None else float(x) for x in v]
    for c in CORPUS.get('expect', []):
        fn = c['fn']
        if fn == 'rolling_median':
            code = call(S.rolling_median, np.asarray(c['x'], float), c['width'])
            ok = not isinstance(code, Err) and len(code) == len(c['expected']) and all(close(a_, b_) for a_, b_ in zip(code, c['expected']))
        elif 'w' in c:
            code = call(getattr(D, fn), np.asarray(nanify(c['a'])), np.asarray(nanify(c['w'])))
            ok = not isinstance(code, Err) and close(code, c['expected'])
        else:
            code = call(getattr(D, fn), nanify(c['a']))
            ok = not isinstance(code, Err) and close(code, c['expected'])
        ck.count(['corpus-expect', c], nontrivial=True, cls='corpus:expect')
        if not ok:
            ck.violation('regression of a repaired defect: %s %s' % (fn, c.get('what', '')), c, code=code,
                         expected=c['expected'], clause='C19_corpus')


def get_consts():
    c = vlib.model_call('c19_consts', [])
    return {'kaiser_beta': int(c[0]), 'sg_window': int(c[1]), 'sg_order': int(c[2]), 'sg_niter': int(c[3]),
            'wmedian_eps': F(c[4])}


def run(ck, scratch):
    ck.rule = ('vectors of length 1..400 on a 1/1024 grid (kinds: random, ties, repeats, one extreme outlier, all-equal, two values, '
               'exactly symmetric, sorted; NaN inserted in 15% of estimator inputs) x weights (positive, one dominant, zeros, equal, '
               'small integers, NaN weight, unequal lengths) x widths (fractions, integers incl. wider than the signal, malformed); '
               'exhaustive weighted median on all (value, weight) vectors of length <= 4 over {0,1,2,3} x {0,1,2}; every case: code '
               'output checked against the property clauses in exact Fractions + textbook formulas, then against the extracted Coq '
               'model (1e-9 relative). non-trivial = at least 3 values, not all equal (smoothers: >= 4 values, valid width); distinct by case hash')
    ck.exhaustive = True
    ck.explanation = 'exhaustive: true refers to the enumerated weighted-median scope only (coverage.exhaustive_scope)'
    ck.unproved_remainder = list(UNPROVED)
    if not ck.build_status.get('driver_ok'):
        raise RuntimeError('model driver unavailable')
    load_corpus()
    consts = get_consts()
    np.seterr(all='ignore')
    check_corpus_expect(ck)
    check_weighted(ck, consts)
    check_unweighted(ck, consts)
    check_smoothers(ck, consts)
    check_smoothers_weighted(ck, consts)


UNPROVED = [
    'modal_location: the Gaussian-KDE arg-max index is an oracle (scipy.stats.gaussian_kde); range/shift proved for any index, the KDE itself is sampled',
    'Kaiser / Savitzky-Golay window coefficients and the savgol_filter edge fit are oracle vectors (np.kaiser, scipy.signal); theorems hold for every window summing to 1 (Kaiser: non-negative)',
    'square roots (biweight_midvariance, weighted_std, sqrt(pi) in gapper_scale) are outside the model: the squared quantities are modelled and proved',
    'float rounding: theorems are about exact rational arithmetic; code and model are compared at 1e-9',
]


def replay(ck, body):
    print(json.dumps(body, indent=1)[:4000])
    return 0
