"""C19 -- robust estimators and smoothers obey their defining invariants.

Correspondence: cnvlib.descriptives.* and cnvlib.smoothing.{rolling_median,
kaiser, savgol, _width2wing, _pad_array} against the extracted Coq models
(Model/Descriptives.v, Model/Smoothing.v).  Direct oracle: the clauses of the
property evaluated on the CODE's output with exact Fractions (range, shift,
scale, non-negativity, zero on constant data, weighted-median halves, equal
weights => median, one finite value per input, constants reproduced, range of
rolling median / Kaiser) plus independent textbook formulas.  Values and
weights live on a 1/1024 grid so that medians, comparisons and cumulative sums
are exact in floating point."""
import os, math, json, itertools
from fractions import Fraction as F
import numpy as np
import vlib
from vlib import Err

LEVEL = 'proof'
GRID = 1024
TOL = 1e-9
HERE = os.path.dirname(os.path.abspath(__file__))


# ----------------------------------------------------------------------------
# small helpers

def fr(x):
    return F(float(x))


def isnan(x):
    return isinstance(x, float) and x != x


def finite(x):
    try:
        return math.isfinite(float(x))
    except (TypeError, ValueError):
        return False


def close(a, b, tol=TOL, scale=1.0):
    """two reals (floats / Fractions) agree at the DESIGN tolerance"""
    a, b = float(a), float(b)
    return abs(a - b) <= tol * max(1.0, abs(b), abs(scale))


def call(f, *args, **kw):
    try:
        r = f(*args, **kw)
    except Exception as e:        # noqa
        return Err(type(e).__name__)
    if isinstance(r, np.ndarray):
        return [float(v) for v in r]
    if isinstance(r, (list, tuple)):
        return [float(v) for v in r]
    return float(r)


def clean(a):
    return [x for x in a if not isnan(x)]


def clean_weighted(a, w):
    out = []
    for x, y in zip(a, w):
        if isnan(x):
            continue
        out.append((x, 0.0 if isnan(y) else y))
    return out


# ----------------------------------------------------------------------------
# independent textbook formulas (exact Fractions)

def t_median(v):
    s = sorted(v)
    n = len(s)
    return s[n // 2] if n % 2 else (s[n // 2 - 1] + s[n // 2]) / 2


def t_percentile(v, p):
    """linear interpolation between closest ranks (Hyndman-Fan type 7)"""
    s = sorted(v)
    h = F(len(s) - 1) * F(p) / 100
    lo = int(math.floor(h))
    hi = min(lo + 1, len(s) - 1)
    return s[lo] + (h - lo) * (s[hi] - s[lo])


def t_mad(v):
    m = t_median(v)
    return t_median([abs(x - m) for x in v])


def t_gapper_nopi(v):
    s = sorted(v)
    n = len(s)
    return sum((s[i] - s[i - 1]) * i * (n - i) for i in range(1, n)) / F(n * (n - 1))


def t_qn(v):
    n = len(v)
    d = [abs(v[i] - v[j]) for i in range(n) for j in range(i + 1, n)]
    q = t_percentile(d, 25)
    if n <= 10:
        c = F(1.392)
    elif n < 400:
        c = 1 + F(4, n)
    else:
        c = F(1)
    return q / c


def t_wvar(ps):
    W = sum(w for _, w in ps)
    mu = sum(x * w for x, w in ps) / W
    return sum(w * (x - mu) ** 2 for x, w in ps) / W


def halves(ps, m):
    """(weight below m, weight above m, total) with exact Fractions"""
    lo = sum(w for x, w in ps if x < m)
    hi = sum(w for x, w in ps if x > m)
    return lo, hi, sum(w for _, w in ps)


def wmedian_guard(ps, eps):
    """no prefix sum (in value order) within n*eps*W of W/2 unless equal; since the
    arrangement of equal values is numpy's business, every block boundary and
    every inner prefix of the code's own arrangement is covered by checking all
    prefix sums of a stable arrangement and of its tie-reversed twin"""
    W = sum(w for _, w in ps)
    tol = len(ps) * eps * W
    ok = True
    for arr in (sorted(ps, key=lambda p: p[0]), sorted(ps, key=lambda p: (p[0], -p[1])), sorted(ps, key=lambda p: (p[0], p[1]))):
        c = F(0)
        for _, w in arr:
            c += w
            d = abs(c - W / 2)
            if d != 0 and d <= tol:
                ok = False
    return ok


def t_biloc_published(a, c=6.0, eps=1e-3, max_iter=5):
    """Beers, Flynn & Gebhardt (1990) biweight location, iterated like the package
    (same c, epsilon, iteration cap); mask |u| < 1 -- float implementation"""
    a = np.asarray(a, float)
    M = float(np.median(a))
    r = M
    for _ in range(max_iter):
        d = a - M
        mad = np.median(np.abs(d))
        u = d / max(c * mad, eps)
        mask = np.abs(u) < 1
        w = (1 - u[mask] ** 2) ** 2
        r = M if w.sum() == 0 else M + (d[mask] * w).sum() / w.sum()
        if abs(r - M) <= eps:
            break
        M = r
    return float(r)


def t_bivar_sq(a, centre, c=9.0, eps=1e-3):
    """Tukey's biweight midvariance (squared) about `centre`, the MAD fallback (squared), whether any
    deviation is left under the mask, and the distance of the mask decision |u| < 1 to its boundary"""
    a = np.asarray(a, float)
    d = a - centre
    mad = np.median(np.abs(d))
    u = d / max(c * mad, eps)
    mask = np.abs(u) < 1
    n = mask.sum()
    d_, u2 = d[mask], (u ** 2)[mask]
    den = ((1 - u2) * (1 - 5 * u2)).sum() ** 2
    formula = (n * (d_ ** 2 * (1 - u2) ** 4).sum()) / den if den != 0 else float('nan')
    return float(formula), float((mad * 1.4826) ** 2), bool((d_ != 0).any()), float(np.abs(np.abs(u) - 1).min())


def t_bivar_exact(fv, centre, c=9, eps=F(1e-3)):
    """the same in exact Fractions (small vectors): squared midvariance, or the squared MAD fallback when no
    deviation is left under the mask"""
    d = [x - centre for x in fv]
    mad = t_median([abs(x) for x in d])
    scale = max(c * mad, eps)
    m = [(x, x / scale) for x in d if abs(x / scale) < 1]
    if not any(x != 0 for x, _ in m):
        return (mad * F(1.4826)) ** 2
    num = len(m) * sum(x * x * (1 - u * u) ** 4 for x, u in m)
    den = sum((1 - u * u) * (1 - 5 * u * u) for x, u in m) ** 2
    return num / den if den != 0 else None


def t_biloc_step(fv, i, c=6, eps=F(1e-3)):
    """one exact step of the biweight location iteration from the (rational) estimate i"""
    d = [x - i for x in fv]
    mad = t_median([abs(x) for x in d])
    scale = max(c * mad, eps)
    m = [(x, (1 - (x / scale) ** 2) ** 2) for x in d if abs(x / scale) < 1]
    ws = sum(w for _, w in m)
    return i if ws == 0 else i + sum(x * w for x, w in m) / ws


# ----------------------------------------------------------------------------
# generators

def g(rng, lo=-8 * GRID, hi=8 * GRID):
    return rng.randint(lo, hi) / GRID


KINDS = ['random', 'ties', 'repeats', 'outlier', 'equal', 'twovals', 'symmetric', 'sorted', 'manyties', 'offset', 'tiny']


def gen_values(rng, n, kind):
    if kind == 'random':
        v = [g(rng) for _ in range(n)]
    elif kind == 'ties':
        pool = [g(rng) for _ in range(max(1, min(n // 3, rng.randint(1, 6))))]
        v = [rng.choice(pool) for _ in range(n)]
    elif kind == 'repeats':
        v = [float(rng.randint(-3, 3)) for _ in range(n)]
    elif kind == 'outlier':
        v = [g(rng, -GRID, GRID) for _ in range(n)]
        v[rng.randrange(n)] = rng.choice([-1, 1]) * rng.choice([64.0, 1000.5, 65536.0, 1e6])
    elif kind == 'equal':
        v = [g(rng)] * n
    elif kind == 'twovals':
        a, b = g(rng), g(rng)
        v = [rng.choice([a, b]) for _ in range(n)]
    elif kind == 'manyties':
        # two to four distinct values, each many times: ties on every order statistic, long runs of equal neighbours
        pool = [g(rng) for _ in range(rng.randint(2, 4))]
        v = [rng.choice(pool) for _ in range(n)]
    elif kind == 'offset':
        # a small spread on a large offset (1e6 + a grid value is exact in binary64): cancellation territory
        off = rng.choice([1e6, -1e6, 1048576.0])
        v = [off + x for x in gen_values(rng, n, rng.choice(['random', 'ties', 'twovals', 'sorted']))]
    elif kind == 'tiny':
        # subnormal scale: integer multiples of 2**-1070 (exact; every product underflows)
        v = [rng.randint(-4096, 4096) * 2.0 ** -1070 for _ in range(n)]
    elif kind == 'symmetric':
        c = g(rng)
        half = [abs(g(rng)) for _ in range(n // 2)]
        v = [c - h for h in half] + [c + h for h in half] + ([c] if n % 2 else [])
        rng.shuffle(v)
    else:
        v = sorted(g(rng) for _ in range(n))
    return [float(x) for x in v]


def gen_len(rng, tier, big=400):
    r = rng.random()
    if big >= 400 and r > 0.97:
        return rng.choice([400, 399, 397, 256, rng.randint(300, 400)])
    if r < 0.25:
        return rng.randint(1, 6)
    if r < 0.65:
        return rng.randint(2, 30)
    if r < 0.9:
        return rng.randint(2, 120)
    return rng.choice([rng.randint(min(100, big), big), big, big - 1])


WKINDS = ['positive', 'dominant', 'zeros', 'equal', 'smallint', 'smallint0', 'nanw']


def gen_weights(rng, n, kind):
    if kind == 'positive':
        w = [rng.randint(1, 4 * GRID) / GRID for _ in range(n)]
    elif kind == 'dominant':
        w = [rng.randint(1, GRID) / GRID for _ in range(n)]
        w[rng.randrange(n)] = float(n + rng.randint(0, 3))
    elif kind == 'zeros':
        w = [rng.choice([0.0, 0.0, rng.randint(1, 2 * GRID) / GRID]) for _ in range(n)]
        w[rng.randrange(n)] = rng.randint(1, GRID) / GRID
    elif kind == 'equal':
        w = [rng.choice([1.0, 0.5, 0.75, 3.0, 0.1, 1 / 3])] * n
    elif kind == 'smallint':
        w = [float(rng.randint(1, 3)) for _ in range(n)]
    elif kind == 'smallint0':
        w = [float(rng.randint(0, 2)) for _ in range(n)]
        w[rng.randrange(n)] = 1.0
    else:
        w = [rng.randint(1, 2 * GRID) / GRID for _ in range(n)]
        w[rng.randrange(n)] = float('nan')
    return w


def add_nans(rng, v):
    v = list(v)
    for _ in range(rng.randint(1, max(1, len(v) // 4))):
        v.insert(rng.randint(0, len(v)), float('nan'))
    return v


# ----------------------------------------------------------------------------
# generic comparison of one scalar estimator against the model

def cmp_model(ck, name, case, code, model, amb=None):
    """code: float/Err, model: Fraction/None/Err.  Returns True when they agree."""
    if isinstance(model, Err) and model.msg in ('decode', 'oracle contract', 'unknown entry'):
        raise RuntimeError('%s: model rejected the request (%s) on %r' % (name, model.msg, case))
    if isinstance(code, Err) or isinstance(model, Err):
        ok = isinstance(code, Err) and isinstance(model, Err) and code.msg == model.msg
    else:
        ok = vlib.close(code, model)
    if not ok:
        if amb is not None and amb():
            ck.float_ambiguous += 1
            return True
        ck.tie_break('model %s differs from the code' % name, case, code=code, model=model)
    return ok


# ----------------------------------------------------------------------------
# unweighted estimators

def code_iterates(D, v, initial, max_iter):
    """the iterates of the code's own loop, observed through the public function with max_iter=1"""
    its, i = [], initial
    for _ in range(max_iter):
        r = call(D.biweight_location, v, max_iter=1) if i is None else call(D.biweight_location, v, initial=i, max_iter=1)
        if isinstance(r, Err) or not finite(r):
            break
        its.append(r)
        i = r
    return its


def check_unweighted(ck, consts):
    from cnvlib import descriptives as D
    rng = ck.rng
    quick = ck.tier == 'quick'
    n_cases = 285 if quick else 2600
    max_iter = consts['biloc_max_iter']
    # exact rational biweights are expensive (the rationals of an iterate have thousands of bits): the model is
    # compared on every short vector and on a sample of long ones; the direct oracles run on all of them
    N_BILOC = 16 if quick else 20
    N_BIVAR = 10 if quick else 12
    cases = []
    for v in CORPUS.get('vectors', []):
        cases.append(('corpus', [float('nan') if x is None else float(x) for x in v]))
    for n in (1, 2, 3, 4, 5, 9, 10, 11, 12):
        for kind in KINDS:
            cases.append((kind, gen_values(rng, n, kind)))
    for i in range(n_cases):
        kind = rng.choice(KINDS)
        n = gen_len(rng, ck.tier)
        if kind == 'tiny':
            n = min(n, 40)
        v = gen_values(rng, n, kind)
        if rng.random() < 0.15:
            v = add_nans(rng, v)
            kind += '+nan'
        cases.append((kind, v))
    big_sel = set(rng.sample(range(len(cases)), 4 if quick else len(cases) // 100))
    sqrt_pi = float(np.sqrt(np.pi))
    rec = []
    for ci, (kind, v) in enumerate(cases):
        cv = clean(v)
        n = len(cv)
        fv = [fr(x) for x in cv]
        case = {'a': v, 'kind': kind}
        nontriv = n >= 3 and len(set(cv)) > 1
        ck.count(['uw', v], nontrivial=nontriv, cls='uw:' + kind)
        lo, hi = (min(fv), max(fv)) if fv else (None, None)
        c_shift = float(rng.choice([3.25, -7.5, 100.0, 0.125]))
        k_scale = float(rng.choice([2.0, 0.5, -3.0, 4.0, -0.25]))
        vs = [x + c_shift for x in v]
        vk = [x * k_scale for x in v]
        r = {}
        # --- location: biweight location
        r['biloc'] = call(D.biweight_location, v)
        if n == 0:
            if not isnan(r['biloc']):
                ck.violation('biweight_location of an all-NaN/empty vector is not NaN', case, code=r['biloc'], clause='C19_nan')
        elif isinstance(r['biloc'], Err) or not finite(r['biloc']):
            ck.violation('biweight_location is not finite', case, code=r['biloc'], clause='C19_biloc_range')
        else:
            b = r['biloc']
            if not (float(lo) - TOL * max(1, abs(float(lo))) <= b <= float(hi) + TOL * max(1, abs(float(hi)))):
                ck.violation('biweight_location outside the data range', case, code=b, expected=[lo, hi], clause='C19_biloc_range')
            if len(set(cv)) == 1 and b != cv[0]:
                ck.violation('biweight_location of constant data is not the constant', case, code=b, expected=cv[0], clause='C19_biloc_const')
            bs = call(D.biweight_location, vs)
            if isinstance(bs, Err) or not close(bs, b + c_shift, scale=c_shift):
                ck.violation('biweight_location does not move with the data', dict(case, shift=c_shift), code=bs,
                             expected=b + c_shift, clause='C19_biloc_shift')
            if n >= 2:
                pub = t_biloc_published(cv)
                if not close(b, pub):
                    ck.violation('biweight_location differs from the published (Beers et al. 1990) iteration', case,
                                 code=b, expected=pub, clause='C19_defs')
                if (n <= N_BILOC or ci in big_sel) and not kind.startswith('tiny'):
                    # (subnormal-scale data: the direct oracles only -- rationals with 2^1070 denominators to the 8th power)
                    r['its'] = code_iterates(D, v, None, max_iter)
                    # every step of the code against one exact (Fraction) step of the published iteration
                    prev = t_median(fv)
                    for it in r['its'][:2 if n > 40 else max_iter]:
                        ex = t_biloc_step(fv, prev)
                        if not close(it, ex):
                            ck.violation('a biweight_location step differs from the exact published step', dict(case, start=float(prev)),
                                         code=it, expected=ex, clause='C19_defs')
                            break
                        if abs(ex - prev) <= F(1e-3):
                            break
                        prev = fr(it)
        # --- scale estimators
        ests = [('mad', D.median_absolute_deviation, lambda x: F(1.4826) * t_mad(x)),
                ('iqr', D.interquartile_range, lambda x: t_percentile(x, 75) - t_percentile(x, 25)),
                ('gapper', D.gapper_scale, lambda x: t_gapper_nopi(x) * F(sqrt_pi))]
        do_qn = (n <= 40 or (not quick and (n <= 90 or ci % 40 == 0)) or (quick and ci in big_sel)) and not (kind.startswith('tiny') and n > 16)
        if do_qn:
            ests.append(('qn', D.q_n, t_qn))
        for nm, f, tb in ests:
            e = call(f, v)
            r[nm] = e
            if n == 0:
                if not isnan(e):
                    ck.violation('%s of an all-NaN/empty vector is not NaN' % nm, case, code=e, clause='C19_nan')
                continue
            if isinstance(e, Err) or not finite(e):
                ck.violation('%s is not finite' % nm, case, code=e, clause='C19_%s_nonneg' % nm)
                continue
            if e < 0:
                ck.violation('%s is negative' % nm, case, code=e, clause='C19_%s_nonneg' % nm)
            if len(set(cv)) == 1 and e != 0:
                ck.violation('%s is not zero on constant data' % nm, case, code=e, expected=0, clause='C19_%s_const' % nm)
            if n >= 2:
                exp = tb(fv)
                if not close(e, exp):
                    ck.violation('%s differs from its textbook formula' % nm, case, code=e, expected=exp, clause='C19_defs')
            es = call(f, vs)
            if isinstance(es, Err) or not close(es, e, scale=0):
                ck.violation('%s changes when a constant is added' % nm, dict(case, shift=c_shift), code=es, expected=e,
                             clause='C19_%s_shift' % nm)
            ek = call(f, vk)
            if isinstance(ek, Err) or not close(ek, abs(k_scale) * e):
                ck.violation('%s is not proportional under rescaling' % nm, dict(case, factor=k_scale), code=ek,
                             expected=abs(k_scale) * e, clause='C19_%s_scale' % nm)
        # --- biweight midvariance: non-negative, zero on constants, Tukey's formula about the package's centre
        bv = call(D.biweight_midvariance, v)
        r['bivar'] = bv
        if n == 0:
            if not isnan(bv):
                ck.violation('biweight_midvariance of an all-NaN/empty vector is not NaN', case, code=bv, clause='C19_nan')
        elif isinstance(bv, Err) or not finite(bv):
            ck.violation('biweight_midvariance is not finite', case, code=bv, clause='C19_bivar_nonneg')
        else:
            if bv < 0:
                ck.violation('biweight_midvariance is negative', case, code=bv, clause='C19_bivar_nonneg')
            if len(set(cv)) == 1 and bv != 0:
                ck.violation('biweight_midvariance is not zero on constant data', case, code=bv, expected=0, clause='C19_bivar_const')
            if n >= 2 and not isinstance(r['biloc'], Err):
                formula, fallback, anydev, mmargin = t_bivar_sq(cv, r['biloc'])
                exp = formula if anydev else fallback
                r['bv_margin'] = mmargin
                if mmargin < 1e-7:
                    ck.float_ambiguous += 1      # a point sits on the rejection boundary |u| = 1: the count n jumps
                else:
                    if not (close(bv * bv, exp, scale=0) or close(bv, math.sqrt(max(exp, 0)))):
                        ck.violation('biweight_midvariance differs from Tukey\'s formula about the biweight location '
                                     '(MAD fallback only when no deviation is left)', case,
                                     code=bv, expected=math.sqrt(max(exp, 0)), clause='C19_defs')
                    if n <= N_BIVAR:
                        ex = t_bivar_exact(fv, fr(r['biloc']))
                        if ex is not None and not close(bv * bv, ex):
                            ck.violation('biweight_midvariance^2 differs from the exact Tukey formula', case, code=bv * bv,
                                         expected=ex, clause='C19_defs')
                    bvs = call(D.biweight_midvariance, vs)
                    if isinstance(bvs, Err) or not close(bvs, bv):
                        ck.violation('biweight_midvariance changes when a constant is added',
                                     dict(case, shift=c_shift), code=bvs, expected=bv, clause='C19_bivar_shift')
        # --- mean squared error: from zero by default, from `initial` when given
        r['mse'] = call(D.mean_squared_error, v)
        r['mse0'] = call(D.mean_squared_error, v, initial=0.5)
        if n >= 2:
            for key, ref in (('mse', F(0)), ('mse0', F(1, 2))):
                exp = sum((x - ref) ** 2 for x in fv) / n
                if isinstance(r[key], Err) or not close(r[key], exp):
                    ck.violation('mean_squared_error differs from mean((a - %s)^2)' % ref, case, code=r[key], expected=exp,
                                 clause='C19_defs')
        # --- mode (not on subnormal-scale data: the KDE's covariance underflows there -- finding
        #     modal-location-variance-underflow, reported on its canonical case only)
        tiny_spread = kind.startswith('tiny') and n >= 2 and len(set(cv)) > 1
        r['mode'] = call(D.modal_location, v) if not tiny_spread else None
        if n >= 1 and not tiny_spread:
            m = r['mode']
            if isinstance(m, Err) or not finite(m):
                ck.violation('modal_location fails / is not finite', case, code=m, clause='C19_mode_range')
            else:
                if not (float(lo) <= m <= float(hi)):
                    ck.violation('modal_location outside the data range', case, code=m, expected=[lo, hi], clause='C19_mode_range')
                if m not in cv:
                    ck.violation('modal_location is not one of the values', case, code=m, clause='C19_mode_range')
                ms = call(D.modal_location, vs)
                if isinstance(ms, Err) or not close(ms, m + c_shift, scale=c_shift):
                    # the KDE peak may flip between two equally high points under rounding
                    alt = mode_alternatives(cv)
                    if not isinstance(ms, Err) and any(close(ms - c_shift, x) for x in alt):
                        ck.float_ambiguous += 1
                    else:
                        ck.violation('modal_location does not move with the data', dict(case, shift=c_shift), code=ms,
                                     expected=m + c_shift, clause='C19_mode_shift')
        rec.append((case, cv, r))

    # ---- model comparison (batched)
    def batch(entry, inputs):
        return vlib.model_batch_parallel(entry, inputs) if inputs else []
    A = [c['a'] for c, _, _ in rec]
    m_mad = batch('c19_mad', [[a, True] for a in A])
    m_iqr = batch('c19_iqr', A)
    m_gap = batch('c19_gapper', [[a, sqrt_pi] for a in A])
    qn_idx = [i for i, (_, _, r) in enumerate(rec) if 'qn' in r]
    m_qn = dict(zip(qn_idx, batch('c19_qn', [A[i] for i in qn_idx])))
    m_mse = batch('c19_mse', [[a, None] for a in A])
    m_mse0 = batch('c19_mse', [[a, 0.5] for a in A])
    m_mode = batch('c19_mode', [[c['a'], mode_index(cv)] for c, cv, _ in rec])
    # the canonical case of the finding modal-location-variance-underflow
    canon = {'a': [0.0, 1e-170, 2e-170, 5e-170]}
    mc_ = call(D.modal_location, canon['a'])
    ck.count(['mode-underflow-canonical', canon], nontrivial=True, cls='uw:mode-variance-underflow')
    if isinstance(mc_, Err) or not finite(mc_) or not (min(canon['a']) <= mc_ <= max(canon['a'])):
        ck.violation('modal_location fails on distinct finite values whose sample variance underflows to 0 '
                     '(singular covariance in scipy.stats.gaussian_kde)', canon, code=mc_, clause='C19_mode_range',
                     sig='modal-location-variance-underflow')
    # biweight location: trivial lengths through the function itself, the loop through the chain on the code's iterates
    triv = [i for i, (_, cv, _) in enumerate(rec) if len(cv) <= 1]
    m_triv = dict(zip(triv, batch('c19_biloc', [[A[i], None] for i in triv])))
    chain = [i for i, (_, _, r) in enumerate(rec) if 'its' in r]
    m_chain = dict(zip(chain, batch('c19_biloc_chain', [[A[i], None, rec[i][2]['its']] for i in chain])))
    bv_triv = dict(zip(triv, batch('c19_bivar', [[A[i], None] for i in triv])))

    def cmp_chain(name, c, code, its, mc):
        """mc = [exact result of every step, margin]; its = the code's iterates"""
        if isinstance(mc, Err):
            raise RuntimeError('%s: model rejected the request (%s) on %r' % (name, mc.msg, c))
        steps, margin = mc
        amb = float(margin) < 1e-7
        for k, ex in enumerate(steps):
            if k >= len(its) or not vlib.close(its[k], ex):
                if amb:
                    ck.float_ambiguous += 1
                    return None
                ck.tie_break('model %s: step %d differs from the code' % (name, k + 1), c, code=its, model=steps)
                return None
        if not vlib.close(code, steps[-1]):
            if amb:
                ck.float_ambiguous += 1
                return None
            ck.tie_break('model %s differs from the code' % name, c, code=code, model=steps[-1], steps=steps)
            return None
        return len(steps)

    full, nsteps = [], {}
    for i in chain:
        c, cv, r = rec[i]
        k = cmp_chain('biweight_location', c, r['biloc'], r['its'], m_chain[i])
        nsteps[i] = k
        if k is not None and ((k <= 2 and len(cv) <= 10) or (k <= 3 and len(cv) <= 3)):
            full.append(i)
    # the loop itself in exact arithmetic where that is affordable (it stops within 2 steps on a short vector)
    m_full = dict(zip(full, batch('c19_biloc', [[A[i], None] for i in full])))
    for i in full:
        cmp_model(ck, 'biweight_location (exact loop)', rec[i][0], rec[i][2]['biloc'], m_full[i])
    ck.cls('uw:biloc-chain', len(chain))
    ck.cls('uw:biloc-exact-loop', len(full))
    # biweight midvariance about the code's own centre (exact about the exact centre where that is affordable)
    bvi = [i for i in chain if (len(rec[i][1]) <= N_BIVAR or i in big_sel) and not isinstance(rec[i][2]['biloc'], Err)
           and finite(rec[i][2]['biloc']) and not isinstance(rec[i][2]['bivar'], Err)]
    m_bv = dict(zip(bvi, batch('c19_bivar', [[A[i], rec[i][2]['biloc']] for i in bvi])))
    bvfull = [i for i in full if nsteps[i] == 1 and len(rec[i][1]) <= 6]
    m_bvfull = dict(zip(bvfull, batch('c19_bivar', [[A[i], None] for i in bvfull])))
    ck.cls('uw:bivar-model', len(bvi))
    ck.cls('uw:bivar-exact-centre', len(bvfull))

    def cmp_bivar(name, c, code, mb):
        if isinstance(mb, list):
            code_sq = code ** 2 if not isinstance(code, Err) else code
            if len(mb) == 1:
                cmp_model(ck, name + '^2', c, code_sq, mb[0])
            else:
                res, margin, fallback, formula = mb
                cmp_model(ck, name + '^2', c, code_sq, res, amb=lambda: float(margin) < 1e-7)
        else:
            cmp_model(ck, name, c, code, mb)

    for i, (c, cv, r) in enumerate(rec):
        if i in m_triv:
            cmp_model(ck, 'biweight_location', c, r['biloc'], m_triv[i])
            cmp_bivar('biweight_midvariance', c, r['bivar'], bv_triv[i])
        if i in m_bv:
            cmp_bivar('biweight_midvariance', c, r['bivar'], m_bv[i])
        if i in m_bvfull:
            cmp_bivar('biweight_midvariance (exact centre)', c, r['bivar'], m_bvfull[i])
        cmp_model(ck, 'median_absolute_deviation', c, r['mad'], m_mad[i])
        cmp_model(ck, 'interquartile_range', c, r['iqr'], m_iqr[i])
        cmp_model(ck, 'gapper_scale', c, r['gapper'], m_gap[i])
        if i in m_qn:
            cmp_model(ck, 'q_n', c, r['qn'], m_qn[i])
        cmp_model(ck, 'mean_squared_error', c, r['mse'], m_mse[i])
        cmp_model(ck, 'mean_squared_error(initial=0.5)', c, r['mse0'], m_mse0[i])
        if r['mode'] is not None:
            cmp_model(ck, 'modal_location', c, r['mode'], m_mode[i])
    # the Coq Spec's published gapper formula (Spec/Stats.v gapperQ, C19_defs_gapper) against the Python textbook oracle
    sg_ = [(c, cv) for c, cv, _ in rec[::5] if 2 <= len(cv) <= 24][:40]
    for (c, cv), sp_ in zip(sg_, batch('c19_spec_gapper', [cv for _, cv in sg_])):
        if isinstance(sp_, Err) or F(sp_) != t_gapper_nopi([fr(x) for x in cv]):
            raise RuntimeError('Spec gapperQ differs from the harness oracle on %r: %r' % (cv, sp_))
    # MAD without scaling; biweight location / midvariance with an explicit start
    sub = rec[::7]
    m1 = batch('c19_mad', [[c['a'], False] for c, _, _ in sub])
    for (c, cv, r), a1 in zip(sub, m1):
        cmp_model(ck, 'median_absolute_deviation(scale_to_sd=False)', c, call(D.median_absolute_deviation, c['a'], scale_to_sd=False), a1)
    sub2 = [(c, cv) for c, cv, _ in sub if 2 <= len(cv) <= N_BIVAR and not c['kind'].startswith('tiny')]
    its2 = [code_iterates(D, c['a'], 0.25, max_iter) for c, _ in sub2]
    m2 = batch('c19_biloc_chain', [[c['a'], 0.25, it] for (c, _), it in zip(sub2, its2)])
    m3 = batch('c19_bivar', [[c['a'], 0.25] for c, _ in sub2])
    for (c, cv), it, a2, a3 in zip(sub2, its2, m2, m3):
        cmp_chain('biweight_location(initial=0.25)', c, call(D.biweight_location, c['a'], initial=0.25), it, a2)
        cmp_bivar('biweight_midvariance(initial=0.25)', c, call(D.biweight_midvariance, c['a'], initial=0.25), a3)


def mode_index(cv):
    """the KDE arg-max index, from the same scipy call the code makes (oracle)"""
    from scipy import stats
    if len(cv) < 2:
        return 0
    s = np.sort(np.asarray(cv, float))
    if s[0] == s[-1]:
        return 0
    try:
        y = stats.gaussian_kde(s).evaluate(s)
    except Exception:       # noqa
        return 0
    return int(y.argmax())


def mode_alternatives(cv):
    from scipy import stats
    s = np.sort(np.asarray(cv, float))
    if len(s) < 2 or s[0] == s[-1]:
        return list(s[:1])
    y = stats.gaussian_kde(s).evaluate(s)
    return [float(x) for x, yy in zip(s, y) if yy >= y.max() * (1 - 1e-9)]


# ----------------------------------------------------------------------------
# weighted estimators

def code_order(vals):
    return [int(i) for i in np.asarray(vals, dtype=float).argsort()]


def check_wmedian_case(ck, a, w, eps, label, exhaustive=False):
    """direct oracle for one (a, w); returns the code result"""
    from cnvlib import descriptives as D
    case = {'a': a, 'w': w}
    code = call(D.weighted_median, np.asarray(a, float), np.asarray(w, float))
    ps = [(fr(x), fr(y)) for x, y in clean_weighted(a, w)]
    n = len(ps)
    if n == 0:
        if not isnan(code):
            ck.violation('weighted_median of nothing is not NaN', case, code=code, clause='C19_nan')
        return code
    if isinstance(code, Err) or not finite(code):
        if sum(y for _, y in ps) > 0:
            ck.violation('weighted_median fails / is not finite', case, code=code, clause='C19_wmedian_range')
        return code
    m = fr(code)
    vals = [x for x, _ in ps]
    W = sum(y for _, y in ps)
    if not (min(vals) <= m <= max(vals)):
        ck.violation('weighted_median outside the data range', case, code=code, expected=[min(vals), max(vals)],
                     clause='C19_wmedian_range')
    if W > 0 and n >= 2:
        lo, hi, _ = halves(ps, m)
        guard = wmedian_guard(ps, eps)
        slack = 0 if guard else F(1, 10 ** 9) * W
        if not guard:
            ck.float_ambiguous += 1
        if lo > W / 2 + slack or hi > W / 2 + slack:
            ck.violation('weighted_median: more than half the weight lies strictly on one side', case, code=code,
                         expected={'below': lo, 'above': hi, 'half': W / 2}, clause='C19_wmedian_halves')
        ws = set(y for _, y in ps)
        if len(ws) == 1 and guard:
            exp = t_median(vals)
            if m != exp:
                ck.violation('weighted_median with equal weights is not the ordinary median', case, code=code, expected=exp,
                             clause='C19_wmedian_equal')
    return code


def check_weighted(ck, consts):
    from cnvlib import descriptives as D
    rng = ck.rng
    eps = consts['wmedian_eps']
    rec = []       # (case, code results)
    # corpus first
    for c in CORPUS.get('wmedian', []):
        a = [float('nan') if x is None else float(x) for x in c['a']]
        w = [float('nan') if x is None else float(x) for x in c['w']]
        code = check_wmedian_case(ck, a, w, eps, 'corpus')
        ck.count(['wm', a, w], nontrivial=True, cls='wmedian:corpus')
        if 'expected' in c and (isinstance(code, Err) or not close(code, c['expected'])):
            ck.violation('weighted_median regression case: %s' % c.get('what', ''), {'a': a, 'w': w}, code=code,
                         expected=c['expected'], clause='C19_wmedian_halves')
        rec.append(({'a': a, 'w': w, 'kind': 'corpus'}, {'wm': code}))
    # exhaustive small scope
    L = 4
    count = 0
    for n in range(1, L + 1):
        for vals in itertools.product([0.0, 1.0, 2.0, 3.0], repeat=n):
            for ws in itertools.product([0.0, 1.0, 2.0], repeat=n):
                a, w = list(vals), list(ws)
                code = check_wmedian_case(ck, a, w, eps, 'exh', True)
                rec.append(({'a': a, 'w': w, 'kind': 'exh'}, {'wm': code}))
                count += 1
    ck.count(['wm-exhaustive', L], nontrivial=True, cls='wmedian:exhaustive', n=count)
    ck.extra['exhaustive_scope'] = ('weighted_median on all (value, weight) vectors of length <= %d over {0,1,2,3} x {0,1,2}: '
                                    '%d cases' % (L, count))
    n_exh = len(rec)
    # the finding wmad-negative-scale-zero-weight-tie, on its canonical case only: a zero weight on the half-weight tie
    canon = {'a': [0.0, 0.0, 1.0, 2.0], 'w': [2.0, 0.0, 2.0, 0.0], 'factor': -1.0}
    e0 = call(D.weighted_mad, np.asarray(canon['a']), np.asarray(canon['w']))
    e1 = call(D.weighted_mad, np.asarray(canon['a']) * canon['factor'], np.asarray(canon['w']))
    ck.count(['wmad-neg-canonical', canon], nontrivial=True, cls='weighted:wmad-negative-zero-tie')
    if isinstance(e0, Err) or isinstance(e1, Err) or not close(e1, abs(canon['factor']) * e0):
        ck.violation('weighted_mad is not proportional under a negative factor when a zero weight sits on the half-weight tie '
                     '(the tie midpoint averages with a zero-weight neighbour, and which one flips under negation)', canon,
                     code=e1, expected=e0, clause='C19_wmad_scale', sig='wmad-negative-scale-zero-weight-tie')
    mc = vlib.model_batch('c19_wmad', [[canon['a'], canon['w'], True], [[x * canon['factor'] for x in canon['a']], canon['w'], True]])
    for code_, m_ in zip((e0, e1), mc):
        cmp_model(ck, 'weighted_mad (canonical zero-weight tie)', canon, code_, m_)
    # random stream
    n_cases = 500 if ck.tier == 'quick' else 5000
    for i in range(n_cases):
        kind = rng.choice(KINDS)
        wkind = rng.choice(WKINDS)
        n = gen_len(rng, ck.tier)
        if kind == 'tiny':
            n = min(n, 40)
        a = gen_values(rng, n, kind)
        w = gen_weights(rng, n, wkind)
        if rng.random() < 0.1:
            j = rng.randrange(n)
            a[j] = float('nan')
            kind += '+nan'
        if i % 50 == 0:
            w = w[:-1] if n > 1 else w + [1.0]      # malformed: unequal lengths
            wkind = 'badlen'
        case = {'a': a, 'w': w, 'kind': kind + '/' + wkind}
        r = {}
        if wkind == 'badlen':
            r['wm'] = call(D.weighted_median, np.asarray(a), np.asarray(w))
            ck.count(['wm', a, w], nontrivial=False, cls='weighted:badlen')
            rec.append((case, r))
            continue
        ps = [(fr(x), fr(y)) for x, y in clean_weighted(a, w)]
        ck.count(['wm', a, w], nontrivial=len(ps) >= 3 and len(set(ps)) > 1, cls='weighted:' + wkind)
        r['wm'] = check_wmedian_case(ck, a, w, eps, 'rand')
        nn = len(ps)
        W = sum(y for _, y in ps)
        c_shift = float(rng.choice([3.25, -7.5, 100.0]))
        k_scale = float(rng.choice([2.0, 0.5, 4.0]))
        k_any = float(rng.choice([2.0, -3.0, -0.5]))
        if nn >= 1 and W > 0 and not isinstance(r['wm'], Err):
            ms = call(D.weighted_median, np.asarray(a) + c_shift, np.asarray(w))
            if isinstance(ms, Err) or not close(ms, r['wm'] + c_shift, scale=c_shift):
                ck.violation('weighted_median does not move with the data', dict(case, shift=c_shift), code=ms,
                             expected=r['wm'] + c_shift, clause='C19_wmedian_shift')
        # weighted MAD and std
        an, wn = np.asarray(a, float), np.asarray(w, float)
        r['wmad'] = call(D.weighted_mad, an.copy(), wn.copy())
        r['wstd'] = call(D.weighted_std, an.copy(), wn.copy())
        for nm in ('wmad', 'wstd'):
            f = D.weighted_mad if nm == 'wmad' else D.weighted_std
            e = r[nm]
            if nn == 0:
                if not isnan(e):
                    ck.violation('%s of nothing is not NaN' % nm, case, code=e, clause='C19_nan')
                continue
            if W <= 0 and nn >= 2:
                continue                  # outside the claim (no positive weight)
            if isinstance(e, Err) or not finite(e):
                ck.violation('%s fails / is not finite' % nm, case, code=e, clause='C19_%s_nonneg' % nm)
                continue
            if e < 0:
                ck.violation('%s is negative' % nm, case, code=e, clause='C19_%s_nonneg' % nm)
            # the weighted MAD is an order statistic (exact); the weighted std is arithmetic on floats (DESIGN 2: 1e-9)
            if len(set(x for x, _ in ps)) == 1 and (e != 0 if nm == 'wmad' else not close(e, 0, scale=float(ps[0][0]))):
                ck.violation('%s is not zero on constant data' % nm, case, code=e, expected=0, clause='C19_%s_const' % nm)
            if nm == 'wstd' and nn >= 2:
                exp = t_wvar(ps)
                if not close(e * e, exp):
                    ck.violation('weighted_std^2 differs from sum w (x-mu)^2 / sum w', case, code=e * e, expected=exp, clause='C19_defs')
            es = call(f, an + c_shift, wn.copy())
            if isinstance(es, Err) or not close(es, e, scale=0):
                ck.violation('%s changes when a constant is added' % nm, dict(case, shift=c_shift), code=es, expected=e,
                             clause='C19_%s_shift' % nm)
            k = k_any if nm == 'wstd' else k_scale
            ek = call(f, an * k, wn.copy())
            if isinstance(ek, Err) or not close(ek, abs(k) * e):
                ck.violation('%s is not proportional under rescaling' % nm, dict(case, factor=k), code=ek, expected=abs(k) * e,
                             clause='C19_%s_scale' % nm)
            # negative factors: proved for strictly positive weights away from near-ties (C19_wmad_scale_positive); a zero
            # weight on the tie is the recorded finding and is left to its canonical case
            if nm == 'wmad' and nn >= 2 and all(y > 0 for _, y in ps):
                kneg = float(rng.choice([-1.0, -3.0, -0.5]))
                if wmedian_guard(ps, eps) and wmedian_guard([(x * F(kneg), y) for x, y in ps], eps):
                    ekn = call(f, an * kneg, wn.copy())
                    ck.cls('weighted:wmad-negative-factor')
                    if isinstance(ekn, Err) or not close(ekn, abs(kneg) * e):
                        ck.violation('weighted_mad is not proportional under a negative factor (all weights > 0)',
                                     dict(case, factor=kneg), code=ekn, expected=abs(kneg) * e, clause='C19_wmad_scale')
        rec.append((case, r))
    # ---- model comparison
    ins_ord, ins_stable, idx_stable = [], [], []
    for i, (c, r) in enumerate(rec):
        a, w = c['a'], c['w']
        if len(a) != len(w):
            ins_ord.append([a, w, []])
            continue
        cv = [x for x, _ in clean_weighted(a, w)]
        ins_ord.append([a, w, code_order(cv)])
        # the model's own stable sort where numpy's arrangement of equal values happens to be the stable one
        if len(cv) <= 16 and code_order(cv) == [int(j) for j in np.asarray(cv, dtype=float).argsort(kind='stable')]:
            idx_stable.append(i)
            ins_stable.append([a, w])
    m_ord = vlib.model_batch_parallel('c19_wmedian_ord', ins_ord)
    m_st = dict(zip(idx_stable, vlib.model_batch_parallel('c19_wmedian', ins_stable)))
    for i, (c, r) in enumerate(rec):
        cmp_model(ck, 'weighted_median (numpy order)', c, r['wm'], m_ord[i])
        if i in m_st:
            cmp_model(ck, 'weighted_median (stable order)', c, r['wm'], m_st[i])
    rest = []
    for i, (c, r) in enumerate(rec):
        if 'wmad' not in r:
            continue
        mo = m_ord[i]
        if not isinstance(r['wm'], Err) and not isinstance(mo, Err) and mo is not None and not vlib.close(r['wm'], mo):
            ck.cls('weighted:wmad-skipped-median-differs')     # already reported through weighted_median
            continue
        rest.append((c, r))
    ins_mad, ins_var = [], []
    for c, r in rest:
        a, w = c['a'], c['w']
        cw = clean_weighted(a, w)
        cv = [x for x, _ in cw]
        o1 = code_order(cv)
        wm = r['wm']
        if len(cv) >= 2 and not isinstance(wm, Err) and finite(wm):
            o2 = code_order(np.abs(np.asarray(cv) - wm))
        else:
            o2 = o1
        ins_mad.append([a, w, True, o1, o2])
        ins_var.append([a, w])
    m_mad = vlib.model_batch_parallel('c19_wmad_ord', ins_mad)
    m_var = vlib.model_batch_parallel('c19_wvar', ins_var)
    for (c, r), mm, mv in zip(rest, m_mad, m_var):
        cmp_model(ck, 'weighted_mad', c, r['wmad'], mm)
        code_sq = r['wstd'] ** 2 if not isinstance(r['wstd'], Err) else r['wstd']
        cmp_model(ck, 'weighted_std^2', c, code_sq, mv)


# ----------------------------------------------------------------------------
# smoothers

_sg_cache = {}


def sg_oracle(ww, order):
    """savgol_coeffs and the polynomial edge-fit rows of savgol_filter(mode='interp')"""
    from scipy.signal import savgol_coeffs, savgol_filter
    key = (ww, order)
    if key not in _sg_cache:
        coeffs = [float(c) for c in savgol_coeffs(ww, order)]
        half = ww // 2
        M = np.array([savgol_filter(np.eye(ww)[j], ww, order, mode='interp') for j in range(ww)])   # M[j][i]
        el = [[float(M[j][i]) for j in range(ww)] for i in range(half)]
        er = [[float(M[j][ww - half + i]) for j in range(ww)] for i in range(half)]
        for row in el + er + [coeffs]:
            if abs(sum(row) - 1) > 1e-9:
                raise RuntimeError('savgol oracle window does not sum to 1: %r' % (key,))
        _sg_cache[key] = (coeffs, el, er)
    return _sg_cache[key]


def frac_oracle(n, width):
    """the code's own float computation of ceil(n*width*0.5) (only meaningful for 0 < width < 1)"""
    if 0 < width < 1:
        return int(math.ceil(n * width * 0.5))
    return 0


def gen_width(rng, n):
    r = rng.random()
    if r < 0.4:
        return rng.choice([0.05, 0.1, 0.2, 0.25, 0.3, 0.5, 0.75, 0.9, 0.99, rng.random() * 0.98 + 0.01,
                           2 * rng.randint(1, max(1, n)) / n if 2 * rng.randint(1, max(1, n)) / n < 1 else 0.5])
    if r < 0.85:
        return rng.choice([2, 3, 4, 5, 7, 9, 11, n - 1, n, n + 1, 2 * n, n + 50, rng.randint(2, max(2, n)), 7.0, 5.0])
    return rng.choice([1, 0, -3, 1.5, 2.5, 1.0, 0.0, 100.5])       # malformed


def cmp_list(ck, name, case, code, model, tol=TOL, scale=1.0):
    """element-wise; a model element None stands for a non-finite float (NaN / inf)"""
    if isinstance(model, Err) and model.msg in ('decode', 'oracle contract', 'unknown entry'):
        raise RuntimeError('%s: model rejected the request (%s) on %r' % (name, model.msg, case))
    if isinstance(code, Err) or isinstance(model, Err):
        ok = isinstance(code, Err) and isinstance(model, Err) and code.msg == model.msg
    else:
        ok = len(code) == len(model) and all(
            (not finite(a_)) if b_ is None else (finite(a_) and abs(float(a_) - float(b_)) <= tol * max(1.0, abs(float(b_)), scale))
            for a_, b_ in zip(code, model))
    if not ok:
        ck.tie_break('model %s differs from the code' % name, case, code=code, model=model)
    return ok


def zero_windows(pw, half):
    """positions of the padded weight vector whose whole (edge-clipped) window carries no weight: 0/0 there"""
    L = len(pw)
    return [p for p in range(L) if not any(pw[max(0, p - half):min(L, p + half + 1)])]


def check_smoothers(ck, consts):
    from cnvlib import smoothing as S
    from scipy.signal import savgol_filter
    rng = ck.rng
    quick = ck.tier == 'quick'
    n_cases = 150 if quick else 1400
    beta = consts['kaiser_beta']
    sgargs = [consts['sg_window'], consts['sg_order'], consts['sg_niter']]
    cases = []
    for c in CORPUS.get('smooth', []):
        cases.append(('corpus', [float(x) for x in c['x']], c['width']))
    for n in (1, 2, 3, 4, 5, 6, 7, 8):
        for width in (3, 7, 0.5, 2 * n + 1):
            cases.append(('small', gen_values(rng, n, 'random'), width))
            cases.append(('equal', gen_values(rng, n, 'equal'), width))
    for i in range(n_cases):
        kind = rng.choice(KINDS)
        n = gen_len(rng, ck.tier, big=400 if (not quick or i % 40 == 0) else 150)
        if kind == 'tiny':
            n = min(n, 40)
        width = gen_width(rng, n)
        # exact convolution with a normalised float window costs ~ n * window rational products: wide windows on long
        # signals are kept at a low rate
        w_est = min(n - 1, max(3, int(width) // 2 if width >= 2 else int(math.ceil(n * max(width, 0) / 2))))
        if n * (2 * w_est + 1) > (2500 if quick else 5000) and rng.random() > (0.1 if quick else 0.05):
            width = rng.choice([3, 5, 7, 9, 11, 0.05, 13.0])
        cases.append((kind, gen_values(rng, n, kind), width))
    wing_in, rm_in, ka_in, plan_in = [], [], [], []
    rec = []
    spec_mw = []       # (request, expected) for the Coq Spec's mirrored_window (C19_rolling_median_is_median, C19_kaiser_convex)
    for kind, x, width in cases:
        n = len(x)
        xa = np.asarray(x, float)
        fo = frac_oracle(n, width)
        valid = (0 < width < 1) or (width >= 2 and int(width) == width)
        case = {'x': x, 'width': width, 'kind': kind}
        ck.count(['smooth', x, width], nontrivial=n >= 4 and valid and len(set(x)) > 1, cls='smooth:%s:%s' % (
            kind, 'frac' if 0 < width < 1 else ('int' if valid else 'badwidth')))
        r = {}
        r['wing'] = call(S._width2wing, width, xa) if n >= 1 else Err('skip')
        r['rm'] = call(S.rolling_median, xa.copy(), width)
        r['ka'] = call(S.kaiser, xa.copy(), width)
        r['sg'] = call(S.savgol, xa.copy(), width)
        lo, hi = min(x), max(x)
        for nm, clause_rng in (('rm', True), ('ka', True), ('sg', False)):
            y = r[nm]
            if not valid and n >= 2:
                if not isinstance(y, Err):
                    ck.violation('%s accepted an invalid width' % nm, case, code=y, clause='C19_wing')
                continue
            if isinstance(y, Err):
                ck.violation('%s raised %s on a valid width' % (nm, y.msg), case, code=y, clause='C19_length')
                continue
            if len(y) != n:
                ck.violation('%s does not return one value per input value' % nm, case, code=len(y), expected=n, clause='C19_length')
                continue
            if not all(finite(v) for v in y):
                ck.violation('%s returns a non-finite value' % nm, case, code=y, clause='C19_length')
                continue
            if len(set(x)) == 1 and not all(close(v, x[0], scale=0) for v in y):
                ck.violation('%s does not reproduce a constant signal' % nm, case, code=y, expected=x[0], clause='C19_const')
            if clause_rng:
                slack = 0 if nm == 'rm' else TOL * max(1.0, abs(lo), abs(hi))
                if not all(lo - slack <= v <= hi + slack for v in y):
                    ck.violation('%s leaves the input range' % nm, case, code=[min(y), max(y)], expected=[lo, hi],
                                 clause='C19_rolling_range' if nm == 'rm' else 'C19_kaiser_range')
        # independent textbook versions (mirror padding by index reflection)
        if valid and n >= 2 and not isinstance(r['wing'], Err):
            wing = int(r['wing'])
            if not (1 <= wing <= n - 1):
                ck.violation('_width2wing: window wider than the signal', case, code=wing, expected=[1, n - 1], clause='C19_wing')
            else:
                def refl(i):
                    if i < 0:
                        return x[-i - 1]
                    if i >= n:
                        return x[2 * n - 1 - i]
                    return x[i]
                if len(spec_mw) < 30:
                    i_ = rng.randrange(n)
                    spec_mw.append(([x, wing, i_], [refl(i_ + k) for k in range(-wing, wing + 1)]))
                if not isinstance(r['rm'], Err) and len(r['rm']) == n:
                    exp = [sorted(refl(i + k) for k in range(-wing, wing + 1))[wing] for i in range(n)]
                    if [float(v) for v in r['rm']] != exp:
                        ck.violation('rolling_median differs from the median of the mirrored window', case, code=r['rm'],
                                     expected=exp, clause='C19_defs')
                if not isinstance(r['ka'], Err) and len(r['ka']) == n:
                    win = np.kaiser(2 * wing + 1, beta)
                    win = win / win.sum()
                    exp = [sum(win[k + wing] * refl(i + k) for k in range(-wing, wing + 1)) for i in range(n)]
                    if not all(close(a_, b_) for a_, b_ in zip(r['ka'], exp)):
                        ck.violation('kaiser differs from the normalised Kaiser-window average of the mirrored signal', case,
                                     code=r['ka'], expected=exp, clause='C19_defs')
        rec.append((case, r, fo))
        wing_in.append([max(n, 0), width, fo])
        rm_in.append([x, width, fo])
        plan_in.append([n, [float(width), fo] + sgargs])
    for (req, exp_), got in zip(spec_mw, vlib.model_batch('c19_spec_mirrored', [q for q, _ in spec_mw])):
        if isinstance(got, Err) or [float(v) for v in got] != [float(v) for v in exp_]:
            raise RuntimeError('Spec mirrored_window differs from the harness reflection on %r: %r' % (req, got))
    m_wing = vlib.model_batch('c19_wing', wing_in)
    m_rm = vlib.model_batch_parallel('c19_rolling_median', rm_in)
    m_plan = vlib.model_batch('c19_savgol_plan', plan_in)
    # Savitzky-Golay: the whole iteration in exact arithmetic while it is short; beyond that the first and the last pass
    # are replayed from the signal the library itself produced (the rationals of k exact passes grow with k)
    sg_full, sg_full_in, sg_step, sg_first_in, sg_last_in = [], [], [], [], []
    for i, ((case, r, fo), mw, mp) in enumerate(zip(rec, m_wing, m_plan)):
        x, width = case['x'], case['width']
        n = len(x)
        if isinstance(mw, Err):
            window = []
        else:
            window = [float(v) for v in np.kaiser(2 * int(mw) + 1, beta)]
        ka_in.append([x, [float(width), fo], window])
        args = [float(width), fo] + sgargs
        if isinstance(mp, Err) or n < 2:
            sg_full.append(i)
            sg_full_in.append([x, args, [], [[], []]])
            continue
        wing, ww, order, n_iter = [int(v) for v in mp]
        coeffs, el, er = sg_oracle(ww, order)
        if n_iter <= 2 or (n_iter <= 4 and n * n_iter <= 160):
            sg_full.append(i)
            sg_full_in.append([x, args, coeffs, [el, er]])
        else:
            signal = S.check_inputs(np.asarray(x, float), width, False)[2]
            first = savgol_filter(signal, ww, order, mode='interp')
            prev = signal
            for _ in range(n_iter - 1):
                prev = savgol_filter(prev, ww, order, mode='interp')
            sg_step.append((i, wing, [float(v) for v in first]))
            sg_first_in.append([[float(v) for v in signal], coeffs, [el, er]])
            sg_last_in.append([[float(v) for v in prev], coeffs, [el, er]])
    m_ka = vlib.model_batch_parallel('c19_kaiser', ka_in)
    m_sg = dict(zip(sg_full, vlib.model_batch_parallel('c19_savgol', sg_full_in)))
    m_first = vlib.model_batch_parallel('c19_sg_pass', sg_first_in) if sg_first_in else []
    m_last = vlib.model_batch_parallel('c19_sg_pass', sg_last_in) if sg_last_in else []
    ck.cls('smooth:savgol-exact-iteration', len(sg_full))
    ck.cls('smooth:savgol-first+last-pass', len(sg_step))

    for i, ((case, r, fo), mw, mr, mk) in enumerate(zip(rec, m_wing, m_rm, m_ka)):
        n = len(case['x'])
        if n >= 1:
            cw = r['wing']
            if isinstance(cw, Err) or isinstance(mw, Err):
                if not (isinstance(cw, Err) and isinstance(mw, Err) and cw.msg == mw.msg):
                    ck.tie_break('model _width2wing differs from the code', case, code=cw, model=mw)
            elif int(cw) != mw:
                ck.tie_break('model _width2wing differs from the code', case, code=cw, model=mw)
        cmp_list(ck, 'rolling_median', case, r['rm'], mr)
        cmp_list(ck, 'kaiser', case, r['ka'], mk)
        if i in m_sg:
            cmp_list(ck, 'savgol', case, r['sg'], m_sg[i])
    for (i, wing, first), mf, ml in zip(sg_step, m_first, m_last):
        case, r, fo = rec[i]
        sc = max(abs(v) for v in case['x'])
        cmp_list(ck, 'savgol (first pass)', case, first, mf, scale=sc)
        if not isinstance(ml, Err):
            ml = ml[wing:len(ml) - wing]
        cmp_list(ck, 'savgol (last pass, un-padded)', case, r['sg'], ml, scale=sc)
    # padding on its own
    pads = []
    for case, r, fo in rec[::5]:
        x = case['x']
        if len(x) >= 2:
            pads.append((x, rng.randint(1, len(x) - 1)))
    m_pad = vlib.model_batch('c19_pad', [[x, w] for x, w in pads])
    for (x, w), mp in zip(pads, m_pad):
        code = [float(v) for v in S._pad_array(np.asarray(x, float), w)]
        if code != [float(v) for v in mp]:
            ck.tie_break('model _pad_array differs from the code', {'x': x, 'wing': w}, code=code, model=mp)


def smooth_weights(rng, n, wkind):
    if wkind in ('dominant50', 'dominant1000'):
        # one weight 50 / 1000 times its neighbours: the negative Savitzky-Golay lobes make the normaliser negative there
        base = rng.choice([1.0, 0.5, 0.25])
        w = [base] * n
        w[rng.randrange(n)] = base * (50.0 if wkind == 'dominant50' else 1000.0)
        return w
    if wkind == 'fewzeros':
        w = gen_weights(rng, n, 'positive')
        for j in range(0, n, 3):
            if rng.random() < 0.5:
                w[j] = 0.0          # isolated zeros only: never a whole window (open finding savgol-weighted-zero-window)
        return w
    return gen_weights(rng, n, wkind)


def check_smoothers_weighted(ck, consts):
    """savgol with weights (zero weights only in isolation in the main stream), check_inputs, convolve_weighted"""
    from cnvlib import smoothing as S
    from scipy.signal import savgol_coeffs
    rng = ck.rng
    quick = ck.tier == 'quick'
    n_cases = 46 if quick else 500
    sgargs = [consts['sg_window'], consts['sg_order'], consts['sg_niter']]
    rec, plan_in = [], []
    # the open known finding: every weight under a window is zero -> 0/0
    canon = {'x': [1.0, 5.0, 2.0, 8.0, 3.0, 9.0, 4.0, 7.0, 6.0, 0.0], 'w': [1.0, 1, 1, 0, 0, 0, 0, 0, 0, 0], 'width': 7}
    y = y_canon = call(S.savgol, np.asarray(canon['x']), canon['width'], weights=np.asarray(canon['w'], float))
    ck.count(['smooth-w-canonical', canon], nontrivial=True, cls='smoothw:zero-window')
    if isinstance(y, Err) or not all(finite(v) for v in y):
        ck.violation('savgol with weights returns a non-finite value where every weight under the window is zero', canon,
                     code=y, clause='C19_length', sig='savgol-weighted-zero-window')
    for i in range(n_cases):
        kind = rng.choice(KINDS)
        n = gen_len(rng, ck.tier, big=150 if not quick else 60)
        if quick and n > 60 and i % 10:
            n = rng.randint(8, 60)
        if kind == 'tiny':
            n = min(n, 30)
        x = gen_values(rng, n, kind)
        width = gen_width(rng, n)
        valid = (0 < width < 1) or (width >= 2 and int(width) == width)
        if not valid:
            width = 7
        wkind = rng.choice(['positive', 'equal', 'smallint', 'dominant', 'fewzeros', 'dominant50', 'dominant1000'])
        if wkind in ('dominant50', 'dominant1000'):
            n = max(n, rng.randint(8, 24))
            x = gen_values(rng, n, kind)
            width = rng.choice([7, 7, 9, 11, width])
        w = smooth_weights(rng, n, wkind)
        if n >= 2:
            # stay out of the open finding's region: no window of the mirrored, rolled-off weights without any weight
            for _ in range(n):
                _x, wing_, _s, pw_ = S.check_inputs(np.asarray(x, float), width, False, np.asarray(w, float))
                half_ = min(consts['sg_window'], 2 * wing_ + 1) // 2
                zw = zero_windows([float(v) for v in pw_], half_)
                if not zw:
                    break
                w[min(n - 1, max(0, zw[0] - wing_))] = 1.0
        case = {'x': x, 'w': w, 'width': width, 'kind': kind + '/' + wkind}
        ck.count(['smooth-w', x, w, width], nontrivial=n >= 4 and len(set(x)) > 1, cls='smoothw:' + wkind)
        y = call(S.savgol, np.asarray(x, float), width, weights=np.asarray(w, float))
        if isinstance(y, Err):
            ck.violation('savgol with weights raised %s' % y.msg, case, code=y, clause='C19_length')
        elif len(y) != n:
            ck.violation('savgol with weights does not return one value per input value', case, code=len(y), expected=n, clause='C19_length')
        elif not all(finite(v) for v in y):
            ck.violation('savgol with weights returns a non-finite value', case, code=y, clause='C19_length')
        elif len(set(x)) == 1 and not all(close(v, x[0], scale=0) for v in y):
            ck.violation('savgol with weights does not reproduce a constant signal', case, code=y, expected=x[0], clause='C19_const')
        fo = frac_oracle(n, width)
        rec.append((case, y, fo))
        plan_in.append([n, [float(width), fo] + sgargs])
    # the canonical case of the open finding goes through the model comparison too (the model yields None exactly there)
    rec.append((dict(canon, kind='canonical-zero-window'), y_canon, 0))
    plan_in.append([len(canon['x']), [float(canon['width']), 0] + sgargs])
    # the boundary of that finding (C19_savgol_weighted_finite_iff): one pass, a run of zero weights at least as long as
    # the window; the output must be finite EXACTLY where the windowed, coefficient-weighted weight sum N is not 0.
    # Non-finite values where N = 0 are the recorded finding (not reported again); anything else is.
    for i in range(8 if quick else 60):
        n = rng.randint(10, 40)
        x = gen_values(rng, n, rng.choice(['random', 'ties', 'sorted', 'equal']))
        w = gen_weights(rng, n, 'positive')
        lo = rng.randint(0, n - 7)
        for j in range(lo, min(n, lo + rng.randint(7, 12))):
            w[j] = 0.0
        width = 7
        case = {'x': x, 'w': w, 'width': width, 'kind': 'zero-window-boundary'}
        ck.count(['smooth-w-boundary', x, w], nontrivial=True, cls='smoothw:zero-window-boundary')
        y = call(S.savgol, np.asarray(x, float), width, weights=np.asarray(w, float))
        _x, wing_, _s, pw_ = S.check_inputs(np.asarray(x, float), width, False, np.asarray(w, float))
        co = [fr(c) for c in savgol_coeffs(min(consts['sg_window'], 2 * wing_ + 1), min(consts['sg_order'], min(consts['sg_window'], 2 * wing_ + 1) // 2))]
        half_ = len(co) // 2
        pwf = [fr(v) for v in pw_]
        L = len(pwf)
        # np.convolve(w, window, 'same')[p] = sum_k window[k] * w[p + half - k]
        N = [sum(co[k] * pwf[p + half_ - k] for k in range(len(co)) if 0 <= p + half_ - k < L) for p in range(L)]
        if any(0 < abs(N[p_]) < F(1, 10 ** 9) * max(pwf) for p_ in range(wing_, wing_ + n)):
            # the decision N == 0 is within rounding (the Savitzky-Golay coefficients cancel exactly on small integer
            # weights, e.g. -2/21 * 3 + 3/21 * 2): not compared (DESIGN 2, margin rule)
            ck.float_ambiguous += 1
            continue
        if isinstance(y, Err) or len(y) != n:
            ck.violation('savgol with weights fails / wrong length', case, code=y, clause='C19_length')
        else:
            for i_, v in enumerate(y):
                if finite(v) != (N[i_ + wing_] != 0):
                    if finite(v):
                        ck.tie_break('savgol with weights is finite where the windowed weight sum is exactly 0', dict(case, index=i_),
                                     code=v, model=None)
                    else:
                        ck.violation('savgol with weights is non-finite although the windowed weight sum is not 0',
                                     dict(case, index=i_), code=v, expected=float(N[i_ + wing_]), clause='C19_length')
                    break
        rec.append((case, y, 0))
        plan_in.append([n, [float(width), 0] + sgargs])
    m_plan = vlib.model_batch('c19_savgol_plan', plan_in)
    full, full_in, steps, step_in, ci_in, ci_code = [], [], [], [], [], []
    for i, ((case, y, fo), mp) in enumerate(zip(rec, m_plan)):
        x, w, width = case['x'], case['w'], case['width']
        n = len(x)
        args = [float(width), fo] + sgargs
        if isinstance(mp, Err) or n < 2:
            full.append(i)
            full_in.append([x, w, args, []])
            continue
        wing, ww, order, n_iter = [int(v) for v in mp]
        coeffs = [float(c) for c in savgol_coeffs(ww, order)]
        # check_inputs: wing, mirrored signal, mirrored + rolled-off weights
        cx, cwing, csig, cwts = S.check_inputs(np.asarray(x, float), width, False, np.asarray(w, float))
        ci_in.append([x, w, float(width), fo])
        ci_code.append((case, int(cwing), [float(v) for v in csig], [float(v) for v in cwts]))
        if n_iter == 1 or (n_iter == 2 and n <= 40):
            full.append(i)
            full_in.append([x, w, args, coeffs])
        else:
            # every iteration replayed from the (signal, weights) the code itself produced
            yk, wk = csig, cwts
            chain = []
            for k in range(n_iter):
                y2, w2 = S.convolve_weighted(np.asarray(coeffs), yk, wk, 1)
                if k in (0, n_iter - 1) or (n_iter <= 3) or k == n_iter // 2:
                    chain.append(([float(v) for v in yk], [float(v) for v in wk], [float(v) for v in y2], [float(v) for v in w2]))
                yk, wk = y2, w2
            if not all(finite(v) for st in chain for v in st[0]):
                ck.cls('smoothw:stepwise-skipped-nonfinite-intermediate')
                continue
            for (a_, b_, c_, d_) in chain:
                steps.append((i, c_, d_, wing, False))
                step_in.append([coeffs, a_, b_, 1])
            steps[-1] = steps[-1][:4] + (True,)
    m_full = dict(zip(full, vlib.model_batch_parallel('c19_savgol_w', full_in)))
    m_step = vlib.model_batch_parallel('c19_conv_weighted', step_in) if step_in else []
    m_ci = vlib.model_batch_parallel('c19_check_inputs', ci_in) if ci_in else []
    ck.cls('smoothw:savgol-exact-iteration', len(full))
    ck.cls('smoothw:savgol-stepwise', len(set(s_[0] for s_ in steps)))
    for (case, cwing, csig, cwts), mc in zip(ci_code, m_ci):
        if isinstance(mc, Err):
            ck.tie_break('model check_inputs differs from the code', case, code=cwing, model=mc)
            continue
        if int(mc[0]) != cwing:
            ck.tie_break('model check_inputs: wing differs from the code', case, code=cwing, model=mc[0])
            continue
        cmp_list(ck, 'check_inputs (signal)', case, csig, mc[1])
        cmp_list(ck, 'check_inputs (weights)', case, cwts, mc[2])
    for i in full:
        case, y, fo = rec[i]
        ms = m_full[i]
        if not isinstance(y, Err) and any(finite(v) and abs(v) > 1e6 * max(1.0, max(abs(t) for t in case['x'])) for v in y):
            ck.float_ambiguous += 1          # a normaliser within rounding of 0: the quotient is not comparable at 1e-6
            continue
        if isinstance(ms, Err) and ms.msg in ('decode', 'oracle contract', 'unknown entry'):
            raise RuntimeError('savgol_w: model rejected the request (%s) on %r' % (ms.msg, case))
        # normalisers can be tiny (negative Savitzky-Golay lobes): compare at the tolerance scaled by the data range
        cmp_list(ck, 'savgol(weights)', case, y, ms, tol=1e-6, scale=max(abs(v) for v in case['x']))
    for (i, y2, w2, wing, last), ms in zip(steps, m_step):
        case, y, fo = rec[i]
        if isinstance(ms, Err):
            raise RuntimeError('conv_weighted: model rejected the request (%s) on %r' % (ms.msg, case))
        sc = max(abs(v) for v in case['x'])
        cmp_list(ck, 'convolve_weighted step inside savgol (signal)', case, y2, ms[0], tol=1e-6, scale=sc)
        cmp_list(ck, 'convolve_weighted step inside savgol (weights)', case, w2, ms[1], tol=1e-6)
        if last and not isinstance(y, Err):
            cmp_list(ck, 'savgol(weights) = last iteration un-padded', case, y, ms[0][wing:len(ms[0]) - wing], tol=1e-6, scale=sc)


def check_helpers(ck, consts):
    """convolve_weighted / convolve_unweighted / guess_window_size as public functions"""
    from cnvlib import smoothing as S, descriptives as D
    rng = ck.rng
    quick = ck.tier == 'quick'
    beta = consts['kaiser_beta']
    # ---- convolve_unweighted(window, padded signal, wing, n_iter) and convolve_weighted(window, signal, weights, n_iter)
    cu_in, cu_code, cw_in, cw_code = [], [], [], []
    for i in range(34 if quick else 400):
        n = rng.randint(4, 40)
        wing = rng.randint(1, min(6, n - 1))
        x = gen_values(rng, n, rng.choice(KINDS))
        kind = rng.choice(['kaiser', 'box', 'random', 'unnormalised'])
        if kind == 'kaiser':
            window = [float(v) for v in np.kaiser(2 * wing + 1, beta)]
        elif kind == 'box':
            window = [1.0] * (2 * wing + 1)
        elif kind == 'random':
            window = [rng.randint(1, 64) / 64 for _ in range(2 * wing + 1)]
        else:
            window = [float(rng.randint(1, 5)) for _ in range(2 * wing + 1)]
        n_iter = rng.choice([1, 1, 2, 3])
        signal = [float(v) for v in S._pad_array(np.asarray(x, float), wing)]
        case = {'x': x, 'wing': wing, 'window': window, 'n_iter': n_iter, 'kind': kind}
        ck.count(['conv', case], nontrivial=len(set(x)) > 1, cls='conv:' + kind)
        y = call(S.convolve_unweighted, np.asarray(window, float), np.asarray(signal, float), wing, n_iter)
        if isinstance(y, Err) or len(y) != n or not all(finite(v) for v in y):
            ck.violation('convolve_unweighted does not return one finite value per input value', case, code=y, clause='C19_length')
        else:
            lo, hi = min(x), max(x)
            slack = TOL * max(1.0, abs(lo), abs(hi))
            # interior outputs are convex combinations of the signal (non-negative window); the zero-padded "same"
            # convolution only touches the outermost half-window of the *padded* signal when n_iter = 1
            if n_iter == 1 and not all(lo - slack <= v <= hi + slack for v in y):
                ck.violation('convolve_unweighted with a non-negative window leaves the input range', case, code=[min(y), max(y)],
                             expected=[lo, hi], clause='C19_kaiser_range')
            if len(set(x)) == 1 and n_iter == 1 and not all(close(v, x[0], scale=0) for v in y):
                ck.violation('convolve_unweighted does not reproduce a constant signal', case, code=y, expected=x[0], clause='C19_const')
        cu_in.append([window, signal, wing, n_iter])
        cu_code.append((case, y))
        if n_iter <= 2:
            w = gen_weights(rng, n, rng.choice(['positive', 'equal', 'smallint']))
            pw = [float(v) for v in S._pad_array(np.asarray(w, float), wing)]
            if len(pw) == len(signal):
                r = S.convolve_weighted(np.asarray(window, float), np.asarray(signal, float), np.asarray(pw, float), n_iter)
                cw_in.append([window, signal, pw, n_iter])
                cw_code.append((dict(case, w=pw), [float(v) for v in r[0]], [float(v) for v in r[1]]))
    m_cu = vlib.model_batch_parallel('c19_conv_unweighted', cu_in)
    for (case, y), m in zip(cu_code, m_cu):
        cmp_list(ck, 'convolve_unweighted', case, y, m, scale=max(abs(v) for v in case['x']))
    m_cw = vlib.model_batch_parallel('c19_conv_weighted', cw_in) if cw_in else []
    for (case, y, w), m in zip(cw_code, m_cw):
        if isinstance(m, Err):
            raise RuntimeError('conv_weighted: model rejected the request (%s) on %r' % (m.msg, case))
        cmp_list(ck, 'convolve_weighted (signal)', case, y, m[0], tol=1e-6, scale=max(abs(v) for v in case['x']))
        cmp_list(ck, 'convolve_weighted (weights)', case, w, m[1], tol=1e-6)
    # ---- guess_window_size: the scale estimate and n ** (4/5) are the code's own floats
    gw_in, gw_code = [], []
    for i in range(50 if quick else 600):
        n = rng.choice([2, 3, 4, 5, 8, 13, 30, 77, 150, 400, rng.randint(2, 400)])
        x = gen_values(rng, n, rng.choice(KINDS))
        sc = rng.choice([1.0, 1 / 8, 1 / 64, 1 / 512])        # small spreads: widths between 3 and n
        x = [v * sc for v in x]
        weighted = rng.random() < 0.4
        if weighted:
            w = gen_weights(rng, n, rng.choice(['positive', 'equal', 'smallint']))
            sd = call(D.weighted_std, np.asarray(x, float), np.asarray(w, float))
            g_ = call(S.guess_window_size, np.asarray(x, float), np.asarray(w, float))
        else:
            w = None
            sd = call(D.biweight_midvariance, x)
            g_ = call(S.guess_window_size, np.asarray(x, float))
        case = {'x': x, 'w': w}
        ck.count(['guess', case], nontrivial=True, cls='guess_window_size')
        if isinstance(sd, Err) or isinstance(g_, Err) or not finite(sd):
            ck.violation('guess_window_size fails on a finite signal', case, code=g_, clause='C19_wing')
            continue
        if not (min(3, n) <= g_ <= n):
            ck.violation('guess_window_size: window wider than the signal (or below the minimum)', case, code=g_,
                         expected=[min(3, n), n], clause='C19_wing')
        gw_in.append([n, sd, float(n ** (4 / 5))])
        gw_code.append((case, g_))
    m_gw = vlib.model_batch('c19_guess_window', gw_in)
    for (case, g_), m in zip(gw_code, m_gw):
        if isinstance(m, Err):
            raise RuntimeError('guess_window: model rejected the request (%s)' % m.msg)
        if int(g_) != int(m[0]):
            if float(m[1]) < 1e-7:
                ck.float_ambiguous += 1
            else:
                ck.tie_break('model guess_window_size differs from the code', case, code=g_, model=m[0])


# ----------------------------------------------------------------------------

CORPUS = {}


def load_corpus():
    p = os.path.join(HERE, '..', 'corpus', 'c19.json')
    if os.path.exists(p):
        CORPUS.update(json.load(open(p)))


def check_corpus_expect(ck):
    """inputs of defects already repaired: a regression is reported again"""
    from cnvlib import descriptives as D, smoothing as S
    nanify = lambda v: [float('nan') if x is None else float(x) for x in v]
    for c in CORPUS.get('expect', []):
        fn = c['fn']
        if fn == 'rolling_median':
            code = call(S.rolling_median, np.asarray(c['x'], float), c['width'])
            ok = not isinstance(code, Err) and len(code) == len(c['expected']) and all(close(a_, b_) for a_, b_ in zip(code, c['expected']))
        elif 'w' in c:
            code = call(getattr(D, fn), np.asarray(nanify(c['a'])), np.asarray(nanify(c['w'])))
            ok = not isinstance(code, Err) and close(code, c['expected'])
        else:
            code = call(getattr(D, fn), nanify(c['a']))
            ok = not isinstance(code, Err) and close(code, c['expected'])
        ck.count(['corpus-expect', c], nontrivial=True, cls='corpus:expect')
        if not ok:
            ck.violation('regression of a repaired defect: %s %s' % (fn, c.get('what', '')), c, code=code,
                         expected=c['expected'], clause='C19_corpus')


def get_consts():
    c = vlib.model_call('c19_consts', [])
    return {'kaiser_beta': int(c[0]), 'sg_window': int(c[1]), 'sg_order': int(c[2]), 'sg_niter': int(c[3]),
            'wmedian_eps': F(c[4]), 'biloc_max_iter': int(c[5]), 'biloc_eps': F(c[6])}


def run(ck, scratch):
    ck.rule = ('vectors of length 1..400 on a 1/1024 grid (kinds: random, ties, repeats, one extreme outlier, all-equal, two values, '
               'exactly symmetric, sorted, many ties (2-4 distinct values), a 1e6 offset, subnormal scale (multiples of 2^-1070, length <= 40); '
               'NaN inserted in 15% of estimator inputs) x weights (positive, one dominant, zeros, equal, '
               'small integers, NaN weight, unequal lengths; weighted savgol also one weight 50x / 1000x its neighbours and runs of zeros '
               'as long as the window) x widths (fractions, integers incl. wider than the signal, malformed); '
               'exhaustive weighted median on all (value, weight) vectors of length <= 4 over {0,1,2,3} x {0,1,2}; every case: code '
               'output checked against the property clauses in exact Fractions + textbook formulas, then against the extracted Coq '
               'model (1e-9 relative). Iterated rational computations (biweight location, Savitzky-Golay passes, weighted convolution) '
               'are replayed step by step from the intermediate floats of the code itself (observed through max_iter=1 / n_iter=1 / the '
               'library call) and exactly end-to-end where the rationals stay small; the rational biweight models run on all short '
               'vectors and a sample of long ones. non-trivial = at least 3 values, not all equal (smoothers: >= 4 values, valid width); distinct by case hash')
    ck.exhaustive = True
    ck.explanation = 'exhaustive: true refers to the enumerated weighted-median scope only (coverage.exhaustive_scope)'
    ck.unproved_remainder = list(UNPROVED)
    if not ck.build_status.get('driver_ok'):
        raise RuntimeError('model driver unavailable')
    load_corpus()
    consts = get_consts()
    np.seterr(all='ignore')
    import time
    phases = {}
    for f in (check_corpus_expect, check_weighted, check_unweighted, check_smoothers, check_smoothers_weighted, check_helpers):
        t0 = time.time()
        if f is check_corpus_expect:
            f(ck)
        else:
            f(ck, consts)
        phases[f.__name__] = round(time.time() - t0, 1)
    ck.extra['phase_seconds'] = phases
    if os.environ.get('C19_TIMING'):
        print('C19 phases:', phases)


UNPROVED = [
    'modal_location: the Gaussian-KDE arg-max index is an oracle (scipy.stats.gaussian_kde); range/shift proved for any index, the KDE itself is sampled',
    'Kaiser / Savitzky-Golay window coefficients and the savgol_filter edge fit are oracle vectors (np.kaiser, scipy.signal); theorems hold for every window summing to 1 (Kaiser: non-negative)',
    'square roots (biweight_midvariance, weighted_std, sqrt(pi) in gapper_scale) are outside the model: the squared quantities are modelled and proved',
    'float rounding: theorems are about exact rational arithmetic; code and model are compared at 1e-9',
    'weighted median: "at most half the weight on either side" is proved exactly only when no running sum of the arranged weights lies '
    'within the rounding allowance n*2^-52*W of W/2 without being W/2 (C19_wmedian_halves), otherwise within that allowance '
    '(C19_wmedian_halves_tol; witness C19_wmedian_halves_strict_refuted); such near-tie inputs are counted float_ambiguous here',
    'weighted median: numpy\'s arrangement of equal values is used only after the model has checked that it is a permutation sorted by '
    'value (C19_arrange_pairs_sound; the model\'s own stable sort: C19_psort_sorted_perm); the result is not invariant under permuting '
    'equal values with different weights when a zero weight sits on the half (C19_wmedian_perm_refuted); for strictly positive weights '
    'away from near-ties it is a function of the multiset (C19_wmedian_unique / _determined / _perm_positive)',
    'weighted median with equal weights = median is proved for n^2 * 2^-52 < 1/2 (n < 2^25.5); beyond that the allowance exceeds half a weight',
    'weighted MAD: shift and every non-negative factor proved for all non-negative weights; a negative factor only for strictly positive '
    'weights away from near-ties of the two weighted medians (C19_wmad_scale_positive) -- with a zero weight on the tie it fails '
    '(C19_wmad_scale_neg_refuted; open finding wmad-negative-scale-zero-weight-tie, canonical case only)',
    'biweight location is not exactly scale-equivariant (absolute epsilon 0.001 in the scale floor and the stop rule); the property does not claim it',
    'weighted Savitzky-Golay: finite outputs proved (constant reproduced, one per input); an output is non-finite exactly where the '
    'windowed, coefficient-weighted weight sum N is 0 at some pass (C19_savgol_weighted_finite_iff / _nonfinite), in particular where every '
    'weight under a window is 0 (C19_zero_window_nonfinite; open finding savgol-weighted-zero-window); cases where a float N is within '
    'rounding of 0 (exact cancellation of the coefficients on small integer weights) are counted float_ambiguous',
    'modal_location raises LinAlgError when the sample variance of distinct values underflows to 0 (open finding '
    'modal-location-variance-underflow, canonical case only): the subnormal-scale stream skips the mode, and runs the direct oracles but '
    'not the rational biweight models (2^1070 denominators)',
    'source ties (tools/fnspecs/descriptives.py, C19_source_*): the elementwise weight/mask transforms, the update rule, the '
    'weighted-median midpoint / allowance / tie decision, the MAD scaling, the mse centring, _width2wing\'s arithmetic, guess_window_size '
    'and savgol\'s parameter re-derivation are translated from the source; second wave (tools/fnspecs/descriptives_e2.py): q_n\'s scale '
    'dispatch (10 < n < 400) and nested loops, biweight_midvariance\'s masked pair (w ** 2)[mask] and result formula (the two reductions keyed '
    'by their text, which pins (1 - w_) ** 4), gapper_scale, interquartile_range, weighted_median from the midpoint to the end as one '
    'definition, the on_array / on_weighted_array wrappers (**kwargs only passed on) and the NaN fill of the weights; NOT translated and '
    'tied by the correspondence only: _width2wing\'s dispatch 0 < width < 1 / int(width) == width as one function (the else branch raises), '
    'the reductions themselves (sum, median, percentile, argsort, searchsorted, cumsum), check_inputs\' roll-off slices, rolling_median / '
    'savgol / _fit_edges array code, the outlier masks',
    'exact rational biweight iterations are compared through a chain replayed from the iterates of the code (and exactly end-to-end on short '
    'vectors that stop within 2 steps): the loop composition on long vectors is sampled, not exhaustively compared',
]


def replay(ck, body):
    print(json.dumps(body, indent=1)[:4000])
    return 0
