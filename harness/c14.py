"""C14 -- segment filters merge only adjacent like segments and conserve what they merge.

Correspondence: cnvlib.segfilters.cn/ci/sem/ampdel and cnvlib.call.do_call(filters=[...])
against the extracted Coq model (Model/Segfilters.v: enumerate_changes, group keys,
pandas-style grouping, squash_region, weighted median, do_call's filter ordering) and
the specification function `level_runs` (Spec/Segfilters.v).

Direct oracle (independent of the model, exact arithmetic in fractions.Fraction, the
literal numbers of the property text): the maximal runs of consecutive rows with equal
(chromosome, level) are computed by a plain scan; the code's output must have exactly one
row per run (ampdel: per deleted/amplified run) spanning first start .. last end, with
summed probes and weight and the weight-averaged log2; total probes, total weight and each
chromosome's (min start, max end) must be conserved; neighbouring outputs of a chromosome
must differ in level; for `cn` the output cn/cn1 is the run's common value; do_call must
equal (ci|sem) -> call -> remaining filters in the order given."""
import os, json, itertools, math
from fractions import Fraction as Fr
import vlib
from vlib import Err

LEVEL = 'proof'

COLS = ['chromosome', 'start', 'end', 'gene', 'log2', 'probes', 'weight', 'depth', 'baf', 'cn', 'cn1', 'cn2',
        'p_bintest', 'ci_lo', 'ci_hi', 'sem']
BASE = ['chromosome', 'start', 'end', 'gene', 'log2', 'probes', 'weight']
OPT = ['depth', 'baf', 'cn', 'cn1', 'cn2', 'p_bintest', 'ci_lo', 'ci_hi', 'sem']
FILTERS = ['cn', 'ci', 'sem', 'ampdel']
NEEDS = {'cn': ['cn'], 'ampdel': ['cn'], 'ci': ['ci_lo', 'ci_hi'], 'sem': ['sem']}
Z196 = Fr(1.96)          # "1.96" as the double the text's literal denotes
KNOWN_SIG = 'c14-allele-split-non-cn-filter'


# ----------------------------------------------------------------------------
# tables: a case table is {'cols': [...], 'rows': [[...], ...], 'index': [...] or None}

def isnan(x):
    return x is None or (isinstance(x, float) and x != x)


def mk_array(tab):
    import pandas as pd
    from cnvlib.cnary import CopyNumArray as CNA
    rows = [[(float('nan') if v is None else v) for v in r] for r in tab['rows']]
    df = pd.DataFrame(rows, columns=tab['cols'])
    for c in ('start', 'end', 'probes'):
        if c in df:
            df[c] = df[c].astype('int64')
    for c in OPT + ['log2', 'weight']:
        if c in df and c != 'cn':
            df[c] = df[c].astype('float64')
    if 'cn' in df and tab.get('cn_int', True) and all(float(v).is_integer() for v in df['cn']):
        df['cn'] = df['cn'].astype('int64')
    if tab.get('index') is not None:
        df.index = tab['index']
    return CNA(df, {'sample_id': 'c14'})


def table_of(arr):
    """code output -> case table (python scalars; NaN -> None)"""
    df = arr.data
    cols = [c for c in COLS if c in df.columns]
    rows = []
    for rec in df[cols].itertuples(index=False, name=None):
        row = []
        for c, v in zip(cols, rec):
            if c in ('chromosome', 'gene'):
                row.append(str(v))
            elif c in ('start', 'end', 'probes'):
                row.append(int(v))
            else:
                v = float(v)
                row.append(None if v != v else v)
        rows.append(row)
    return {'cols': cols, 'rows': rows, 'index': [x if isinstance(x, str) else int(x) for x in df.index]}


def dicts(tab):
    return [dict(zip(tab['cols'], r)) for r in tab['rows']]


def enc_table(tab):
    """rows in the model's 16-field order; an absent column is None everywhere (cn: 0)"""
    out = []
    for d in dicts(tab):
        row = []
        for c in COLS:
            v = d.get(c)
            if c in ('chromosome', 'gene'):
                row.append(v)
            elif c in ('start', 'end', 'probes'):
                row.append(int(v))
            elif c in ('log2', 'weight'):
                row.append(Fr(v))
            elif c == 'cn':
                row.append(Fr(v) if v is not None else 0)
            else:
                row.append(None if v is None else Fr(v))
        out.append(row)
    return out


MODEL_OUT = ['chromosome', 'start', 'end', 'gene', 'log2', 'probes', 'weight', 'depth', 'baf', 'cn', 'cn1', 'cn2', 'p_bintest']


# ----------------------------------------------------------------------------
# the direct oracle

def F(x):
    return None if x is None else Fr(x)


def level_plain(f, d):
    """the filter's level of a row, from the property text"""
    if f == 'cn':
        return F(d['cn'])
    if f == 'ampdel':
        c = F(d['cn'])
        return -1 if c == 0 else (1 if c >= 5 else 0)
    if f == 'ci':
        lo, hi = F(d['ci_lo']), F(d['ci_hi'])
        if lo is not None and lo > 0 and not (hi is not None and hi < 0):
            return 1
        if hi is not None and hi < 0:
            return -1
        return 0
    if f == 'sem':
        s, l = F(d['sem']), F(d['log2'])
        if s is None:
            return 0
        if l + Z196 * s < 0:
            return -1
        if l - Z196 * s > 0:
            return 1
        return 0
    raise ValueError(f)


def sem_margin(d):
    s, l = F(d.get('sem')), F(d['log2'])
    if s is None:
        return None
    ms = [abs(l - Z196 * s), abs(l + Z196 * s)]
    ms = [m for m in ms if m != 0]
    return min(ms) / max(1, abs(l)) if ms else None


def runs_of(ds, key):
    out = []
    for d in ds:
        if out and key(out[-1][-1]) == key(d):
            out[-1].append(d)
        else:
            out.append([d])
    return out


def key_plain(f):
    return lambda d: (d['chromosome'], level_plain(f, d))


def key_full(f):
    return lambda d: (d['chromosome'], level_plain(f, d), F(d.get('cn1')), F(d.get('cn2')))


def expect_row(r):
    W = sum(Fr(d['weight']) for d in r)
    if W > 0:
        l2 = sum(Fr(d['weight']) * Fr(d['log2']) for d in r) / W
    else:
        l2 = sum(Fr(d['log2']) for d in r) / len(r)
    return {'chromosome': r[0]['chromosome'], 'start': r[0]['start'], 'end': r[-1]['end'],
            'probes': sum(d['probes'] for d in r), 'weight': W, 'log2': l2}


def rows_match(out_ds, runs):
    """does the code's output have exactly one row per run with the prescribed span, sums and log2?"""
    if len(out_ds) != len(runs):
        return 'row count %d, expected %d runs' % (len(out_ds), len(runs))
    for o, r in zip(out_ds, runs):
        e = expect_row(r)
        for k in ('chromosome', 'start', 'end', 'probes'):
            if o[k] != e[k]:
                return '%s of the row for run %s:%d-%d is %r, expected %r' % (k, e['chromosome'], e['start'], e['end'], o[k], e[k])
        for k in ('weight', 'log2'):
            if not vlib.close(o[k], e[k]):
                return '%s of the row for run %s:%d-%d is %r, expected %s' % (k, e['chromosome'], e['start'], e['end'], o[k], float(e[k]))
    return None


def spans(ds):
    sp = {}
    for d in ds:
        a, b = sp.get(d['chromosome'], (d['start'], d['end']))
        sp[d['chromosome']] = (min(a, d['start']), max(b, d['end']))
    return sp


def eqv(a, b):
    """equality of two cells, NaN being a value of its own"""
    if isnan(a) or isnan(b):
        return isnan(a) and isnan(b)
    return a == b


def oracle(f, tab_in, tab_out):
    """-> (verdict, message): verdict in 'ok', 'known' (the allele split of a non-cn filter), 'bad'"""
    ins, outs = dicts(tab_in), dicts(tab_out)
    has_alleles = 'cn1' in tab_in['cols']
    plain = runs_of(ins, key_plain(f))
    full = runs_of(ins, key_full(f)) if has_alleles else plain
    want = full if f == 'cn' else plain
    keep = (lambda r: level_plain(f, r[0]) != 0) if f == 'ampdel' else (lambda r: True)
    msg = rows_match(outs, [r for r in want if keep(r)])
    verdict = 'ok'
    if msg is not None:
        if f != 'cn' and has_alleles and len(full) != len(plain) and rows_match(outs, [r for r in full if keep(r)]) is None:
            verdict, want = 'known', full
            msg = ('%s keeps adjacent segments of one level apart because their allele-specific copy numbers differ: %d rows for %d runs'
                   % (f, len(outs), len([r for r in plain if keep(r)])))
        else:
            return 'bad', msg, 'C14_runs'
    kept = [r for r in want if keep(r)]
    # conservation, stated on the output as a whole
    kept_in = [d for r in kept for d in r]
    if sum(o['probes'] for o in outs) != sum(d['probes'] for d in kept_in):
        return 'bad', 'total probes not conserved', 'C14_conserve'
    if not vlib.close(sum(o['weight'] for o in outs), sum(Fr(d['weight']) for d in kept_in)):
        return 'bad', 'total weight not conserved', 'C14_conserve'
    if spans(outs) != spans(kept_in):
        return 'bad', 'covered span of a chromosome changed: %r vs %r' % (spans(outs), spans(kept_in)), 'C14_conserve'
    if f == 'ampdel':
        for o in outs:
            if not (o['cn'] == 0 or o['cn'] >= 5):
                return 'bad', 'ampdel kept a row with cn %r' % o['cn'], 'C14_ampdel_keep'
        if f == 'ampdel' and verdict == 'ok':
            for o, r in zip(outs, kept):
                lv = level_plain(f, r[0])
                if (lv == -1) != (o['cn'] == 0):
                    return 'bad', 'ampdel output cn %r for a run of level %d' % (o['cn'], lv), 'C14_ampdel_keep'
    if f == 'cn':
        for o, r in zip(outs, kept):
            if not vlib.close(o['cn'], F(r[0]['cn'])):
                return 'bad', 'cn of a merged run is %r, the common cn is %r' % (o['cn'], r[0]['cn']), 'C14_conserve'
            if has_alleles and not (vlib.close(o['cn1'], F(r[0]['cn1']))):
                return 'bad', 'cn1 of a merged run is %r, the common cn1 is %r' % (o['cn1'], r[0]['cn1']), 'C14_conserve'
        if tab_in.get('alleles_consistent', True):
            for a, b in zip(outs, outs[1:]):
                if a['chromosome'] == b['chromosome'] and eqv(a['cn'], b['cn']) and \
                        eqv(a.get('cn1'), b.get('cn1')) and eqv(a.get('cn2'), b.get('cn2')):
                    return 'bad', 'neighbouring outputs %s:%d and %s:%d carry the same cn/cn1/cn2' % (
                        a['chromosome'], a['start'], b['chromosome'], b['start']), 'C14_runs'
    elif verdict == 'ok':
        # neighbouring outputs on a chromosome differ in level (level of an output = level of its run)
        for r1, r2 in zip(want, want[1:]):
            if r1[0]['chromosome'] == r2[0]['chromosome'] and level_plain(f, r1[0]) == level_plain(f, r2[0]):
                return 'bad', 'neighbouring runs share a level', 'C14_runs'
    if verdict == 'known':
        return 'known', msg, 'C14_runs'
    return 'ok', None, None


# ----------------------------------------------------------------------------
# float decisions whose exact counterpart may differ (DESIGN section 2)

def wmedian_ambiguous(vals, ws):
    """is the weighted median's branch decided within rounding error? (exact margins)"""
    ps = [(Fr(a), Fr(w)) for a, w in zip(vals, ws) if a is not None]
    if len(ps) < 2:
        return False
    ps.sort(key=lambda p: p[0])
    w = [p[1] for p in ps]
    tot = sum(w)
    if tot <= 0:
        return False
    mid = tot / 2
    n = len(w)
    tol = n * Fr(2) ** -52 * tot
    m = []
    m += [abs(x - mid) for x in w if x != mid]
    acc = 0
    for x in w:
        acc += x
        d = abs(acc - mid)
        if d != 0:
            m.append(abs(d - tol))
            m.append(d)
    return bool(m) and min(m) / tot < Fr(1, 10 ** 11)


def tie_sensitive(vals, ws):
    """equal values carrying a zero weight: the result may depend on how argsort orders ties"""
    seen = {}
    for a, w in zip(vals, ws):
        if a is None:
            continue
        seen.setdefault(a, []).append(w)
    return any(len(v) > 1 and any(x == 0 for x in v) for v in seen.values())


# ----------------------------------------------------------------------------
# one filter application: code, oracle, model

class Batch:
    """collects filter applications; the model is run once for all of them"""
    def __init__(self, ck):
        self.ck = ck
        self.items = []

    def add(self, f, tab_in, tab_out, cls, compare_oracle=True, note=None):
        self.items.append((f, tab_in, tab_out, cls, compare_oracle, note))

    def flush(self):
        ck = self.ck
        items, self.items = self.items, []
        if not items:
            return
        args = [[f, enc_table(ti)] for (f, ti, _, _, _, _) in items]
        model = vlib.model_batch_parallel('c14_filter', args)
        spec = vlib.model_batch_parallel('c14_spec_runs', args)
        for (f, ti, to, cls, use_oracle, note), m, sp in zip(items, model, spec):
            case = {'filter': f, 'table': ti}
            if note:
                case['note'] = note
            ins = dicts(ti)
            full = runs_of(ins, key_full(f))
            nontriv = any(len(r) > 1 for r in full) and len(full) > 1
            ck.count(case, nontrivial=nontriv, cls=cls)
            if isinstance(to, Err):
                ck.violation('%s raised %s' % (f, to.msg), case, code=to, clause='C14_runs')
                continue
            amb = False
            if f == 'sem':
                mg = [sem_margin(d) for d in ins]
                if any(x is not None and x < Fr(1, 10 ** 12) for x in mg):
                    amb = True
            if amb:
                ck.float_ambiguous += 1
                continue
            if isinstance(sp, Err) or isinstance(m, Err):
                raise RuntimeError('model error on %r: %r %r' % (case, m, sp))
            if sp != [len(r) for r in full]:
                raise RuntimeError('Coq level_runs disagrees with the python run oracle on %r: %r vs %r'
                                   % (case, sp, [len(r) for r in full]))
            if use_oracle:
                verdict, msg, clause = oracle(f, ti, to)
                if verdict == 'bad':
                    ck.violation('%s: %s' % (f, msg), case, code=to, clause=clause)
                    continue
                if verdict == 'known':
                    ck.cls('known:allele-split')
                    ck.violation('%s: %s' % (f, msg), case, sig=KNOWN_SIG, code=to, clause=clause)
            # model vs code, on the columns the code's output has
            diff = compare_model(f, ti, to, m, ck)
            if diff:
                ck.tie_break('model of %s differs from the code: %s' % (f, diff), case, code=to,
                             model=[[vlib.jsonable(x) for x in r] for r in m])


def compare_model(f, ti, to, m, ck):
    outs = dicts(to)
    if len(outs) != len(m):
        return 'row count %d vs model %d' % (len(outs), len(m))
    ins = dicts(ti)
    groups = None
    for i, (o, mr) in enumerate(zip(outs, m)):
        md = dict(zip(MODEL_OUT, mr))
        for c in MODEL_OUT:
            if c not in o:
                continue
            if c in ('chromosome', 'gene', 'start', 'end', 'probes'):
                if o[c] != md[c]:
                    return 'row %d %s: %r vs model %r' % (i, c, o[c], md[c])
            elif not vlib.close(o[c], md[c]):
                if c in ('cn', 'cn1', 'cn2'):
                    # float-decided branches of the weighted median / unstable tie order
                    if groups is None:
                        groups = [r for r in runs_of(ins, key_full(f))
                                  if not (f == 'ampdel' and level_plain(f, r[0]) == 0)]
                    if i < len(groups):
                        g = groups[i]
                        ws = [d['weight'] for d in g]
                        col = 'cn' if c == 'cn2' else c
                        cols = ['cn', 'cn1'] if c == 'cn2' else [col]
                        if any(wmedian_ambiguous([d.get(k) for d in g], ws) or tie_sensitive([d.get(k) for d in g], ws)
                               for k in cols):
                            ck.float_ambiguous += 1
                            continue
                return 'row %d %s: %r vs model %r' % (i, c, o[c], md[c] if md[c] is None else float(md[c]))
    return None


def run_filter(f, tab):
    from cnvlib import segfilters
    try:
        return table_of(getattr(segfilters, f)(mk_array(tab)))
    except Exception as e:     # noqa
        return Err(type(e).__name__ + ': ' + str(e)[:120])


# ----------------------------------------------------------------------------
# generators

CHROMS = ['chr1', 'chr2', 'chr3', 'chr10', 'chrX', 'chrY', '1', '2', 'X', 'chr1_alt', 'chrM', 'chr22']
GENES = ['A', 'B', 'C', '-', 'TP53', 'A,B', 'x y', 'MYC', '', 'Antitarget']


def gen_weight(rng, mode):
    if mode == 'zero':
        return 0.0
    if mode == 'grid':
        return rng.choice([0, 0, 1, 1, 2, 3, 4, 8, rng.randint(0, 64)]) / 16.0
    if mode == 'one':
        return 1.0
    return rng.choice([rng.random(), rng.random() * 100, 0.1, 0.2, 0.3, 1e-3, 0.0])


def gen_table(rng, need=(), nchrom=None, nseg=None, contiguous=True, level_bias=None):
    """a segment table sorted within chromosomes, chromosomes contiguous, with gaps"""
    nchrom = nchrom or rng.randint(1, 6)
    nseg = nseg or rng.choice([1, 2, 3, rng.randint(1, 12), rng.randint(1, 30)])
    nseg = max(nseg, 1)
    names = rng.sample(CHROMS, nchrom)
    # split nseg rows over the chromosomes (some may get none)
    cuts = sorted(rng.randint(0, nseg) for _ in range(nchrom - 1))
    sizes = [b - a for a, b in zip([0] + cuts, cuts + [nseg])]
    wmode = rng.choice(['grid', 'grid', 'grid', 'float', 'one', 'zero'])
    opt = set(need)
    for c, p in (('depth', .4), ('baf', .4), ('p_bintest', .3), ('cn', .5), ('ci_lo', .3), ('sem', .3)):
        if rng.random() < p:
            opt.add(c)
    if 'ci_lo' in opt or 'ci_hi' in opt:
        opt |= {'ci_lo', 'ci_hi'}
    if 'cn' in opt and rng.random() < 0.5:
        opt |= {'cn1', 'cn2'}
    if 'cn1' in opt or 'cn2' in opt:
        opt |= {'cn', 'cn1', 'cn2'}
    cols = BASE + [c for c in OPT if c in opt]
    rows = []
    stick = rng.choice([0.0, 0.5, 0.8])          # probability of repeating the previous row's level-defining cells
    prev = None
    for name, k in zip(names, sizes):
        pos = rng.choice([0, 1, rng.randint(0, 10 ** 6)])
        for _ in range(k):
            ln = rng.choice([1, 10, rng.randint(1, 10 ** 5)])
            d = {'chromosome': name, 'start': pos, 'end': pos + ln, 'gene': rng.choice(GENES),
                 'log2': rng.choice([0.0, -0.5, 0.5, 1.0, -1.0, round(rng.uniform(-3, 3), 3), rng.uniform(-6, 4)]),
                 'probes': rng.choice([1, 2, 5, rng.randint(0, 500)]),
                 'weight': gen_weight(rng, wmode if rng.random() < 0.9 else 'grid')}
            pos = pos + ln + rng.choice([0, 0, 1, 100, rng.randint(0, 10 ** 4)])
            if 'depth' in opt:
                d['depth'] = rng.choice([0.0, 1.0, rng.uniform(0, 500)])
            if 'baf' in opt:
                d['baf'] = rng.choice([None, 0.5, 0.0, 1.0, rng.random()])
            if 'p_bintest' in opt:
                d['p_bintest'] = rng.choice([None, 0.0, 1.0, rng.random()])
            if 'cn' in opt:
                d['cn'] = rng.choice([0, 0, 1, 2, 2, 3, 4, 5, 5, 6, rng.randint(0, 12)])
            if 'cn1' in opt:
                if d['cn'] > 0 and rng.random() < 0.25:
                    d['cn1'] = d['cn2'] = None
                else:
                    c1 = rng.randint((d['cn'] + 1) // 2, d['cn'])
                    d['cn1'], d['cn2'] = c1, d['cn'] - c1
            if 'ci_lo' in opt:
                lo = rng.choice([0.0, -0.1, 0.1, -1.0, 0.5, rng.uniform(-2, 2)])
                hi = lo + rng.choice([0.0, 0.1, 0.5, 1.0, -lo if lo < 0 else 0.2, rng.random() * 2])
                d['ci_lo'], d['ci_hi'] = lo, hi
                if rng.random() < 0.03:
                    d['ci_lo'] = None
                if rng.random() < 0.03:
                    d['ci_hi'] = None
            if 'sem' in opt:
                s = rng.choice([0.0, 0.25, 0.5, 1.0, rng.random(), None if rng.random() < 0.2 else 0.125])
                d['sem'] = s
                if s in (0.0, 0.125, 0.25, 0.5, 1.0) and rng.random() < 0.4:     # s * 1.96 is exact for these
                    d['log2'] = rng.choice([1, -1]) * s * 1.96       # exactly on the boundary
                    if rng.random() < 0.5:
                        d['log2'] = float.fromhex((d['log2']).hex()) + rng.choice([0.0, 1e-9, -1e-9, 0.25, -0.25])
            if prev is not None and rng.random() < stick:
                for c in ('cn', 'cn1', 'cn2', 'ci_lo', 'ci_hi', 'sem'):
                    if c in d:
                        d[c] = prev[c]
                if 'sem' in opt:
                    d['log2'] = prev['log2']
            prev = d
            rows.append([d.get(c) for c in cols])
    idx_mode = rng.choice(['default', 'default', 'shift', 'perm', 'sparse', 'str'])
    n = len(rows)
    if idx_mode == 'default':
        index = None
    elif idx_mode == 'shift':
        k = rng.randint(1, 40)
        index = list(range(k, k + n))
    elif idx_mode == 'perm':
        index = list(range(n))
        rng.shuffle(index)
    elif idx_mode == 'sparse':
        index = sorted(rng.sample(range(0, 3 * n + 3), n))
    else:
        index = ['r%d' % i for i in range(n)]
        rng.shuffle(index)
    return {'cols': cols, 'rows': rows, 'index': index}


def exhaustive_tables(L):
    """all level sequences of length <= L over 3 levels x 2 chromosome splits; one table serves the four
    filters: level k in {0,1,2} is cn (0, 2, 5), CI ((-1,-.5), (-.5,.5), (.5,1)) and sem .25 with log2 (-1, 0, 1)"""
    cnv = [0, 2, 5]
    civ = [(-1.0, -0.5), (-0.5, 0.5), (0.5, 1.0)]
    l2v = [-1.0, 0.0, 1.0]
    cols = BASE + ['cn', 'ci_lo', 'ci_hi', 'sem']
    for n in range(1, L + 1):
        for seq in itertools.product(range(3), repeat=n):
            for split in (0, 1):
                rows = []
                for i, k in enumerate(seq):
                    chrom = 'chr2' if (split and i >= (n + 1) // 2) else 'chr1'
                    rows.append([chrom, 100 * i, 100 * i + 90, 'g%d' % (i % 3), l2v[k], i + 1, [1.0, 0.5, 0.0, 2.0][i % 4],
                                 cnv[k], civ[k][0], civ[k][1], 0.25])
                yield seq, split, {'cols': cols, 'rows': rows, 'index': None}


# ----------------------------------------------------------------------------
# do_call: ordering of the filters

def admissible_filter_lists():
    out = []
    for k in range(0, 3):
        for post in itertools.permutations(['cn', 'ampdel'], k):
            out.append(list(post))
            for pre in ('ci', 'sem'):
                for p in range(len(post) + 1):
                    out.append(list(post[:p]) + [pre] + list(post[p:]))
    return out


def run_do_call(tab, filters, kw):
    from cnvlib import call
    try:
        return table_of(call.do_call(mk_array(tab), filters=list(filters) if filters is not None else None, **kw))
    except Exception as e:   # noqa
        return Err(type(e).__name__ + ': ' + str(e)[:120])


def same_table(a, b):
    if isinstance(a, Err) or isinstance(b, Err):
        return a == b
    if a['cols'] != b['cols'] or len(a['rows']) != len(b['rows']):
        return False
    for r1, r2 in zip(a['rows'], b['rows']):
        for x, y in zip(r1, r2):
            if not (x == y or (isnan(x) and isnan(y))):
                return False
    return True


def check_do_call(ck, batch, tab, filters, kw, cls):
    """do_call(filters) against (ci|sem) -> call -> the rest in order, each stage from the code itself;
    every filter application of the chain goes through the oracle and the model"""
    case = {'do_call': {'filters': filters, 'kw': kw}, 'table': tab}
    res = run_do_call(tab, filters, kw)
    pre = [f for f in ('ci', 'sem') if f in filters]
    rest = [f for f in filters if f not in ('ci', 'sem')]
    stage = tab
    steps = []
    for f in pre:
        nxt = run_filter(f, stage)
        steps.append((f, stage, nxt))
        if isinstance(nxt, Err):
            break
        stage = nxt
    called = None
    if not (steps and isinstance(steps[-1][2], Err)):
        called = run_do_call(stage, None, kw)
        stage = called
        if not isinstance(stage, Err):
            for f in rest:
                nxt = run_filter(f, stage)
                steps.append((f, stage, nxt))
                if isinstance(nxt, Err):
                    break
                stage = nxt
    composed = steps[-1][2] if steps and isinstance(steps[-1][2], Err) else stage
    ck.count(case, nontrivial=len(filters) >= 2, cls=cls)
    if isinstance(res, Err) or isinstance(composed, Err):
        ck.violation('do_call with filters %r raised: %r / stagewise: %r' % (filters, res, composed), case, code=res,
                     expected=composed, clause='C14_order')
        return
    if not same_table(res, composed):
        ck.violation('do_call(filters=%r) differs from (ci|sem) -> call -> remaining filters in order' % (filters,), case,
                     code=res, expected=composed, clause='C14_order')
        return
    for f, a, b in steps:
        batch.add(f, a, b, cls + ':stage-' + f)
    return (case, filters, tab, called, res, steps[0][2] if pre else tab)


def flush_chains(ck, chains):
    chains = [c for c in chains if c]
    if not chains:
        return
    args = [[fs, enc_table(tab), enc_table(called)] for (_, fs, tab, called, _, _) in chains]
    out = vlib.model_batch_parallel('c14_call_with_filters', args)
    pre = vlib.model_batch_parallel('c14_pre_call', [[fs, enc_table(tab)] for (_, fs, tab, _, _, _) in chains])
    for (case, fs, tab, called, res, pre_tab), m, p in zip(chains, out, pre):
        if isinstance(m, Err) or isinstance(p, Err):
            raise RuntimeError('model error on %r' % (case,))
        if any(f == 'sem' and any((lambda x: x is not None and x < Fr(1, 10 ** 12))(sem_margin(d)) for d in dicts(tab))
               for f in fs):
            ck.float_ambiguous += 1
            continue
        d = compare_chain(res, m)
        if d:
            ck.tie_break('model call_with_filters %r differs from do_call: %s' % (fs, d), case, code=res,
                         model=[[vlib.jsonable(x) for x in r] for r in m])
            continue
        d = compare_chain(pre_tab, p)
        if d:
            ck.tie_break('model hands a different table to the calling step for %r: %s' % (fs, d), case, code=pre_tab,
                         model=[[vlib.jsonable(x) for x in r] for r in p])


def compare_chain(to, m):
    outs = dicts(to)
    if len(outs) != len(m):
        return 'row count %d vs model %d' % (len(outs), len(m))
    for i, (o, mr) in enumerate(zip(outs, m)):
        md = dict(zip(MODEL_OUT, mr))
        for c in ('chromosome', 'start', 'end', 'gene', 'probes'):
            if o[c] != md[c]:
                return 'row %d %s: %r vs model %r' % (i, c, o[c], md[c])
        for c in ('log2', 'weight'):
            if not vlib.close(o[c], md[c]):
                return 'row %d %s: %r vs model %r' % (i, c, o[c], float(md[c]))
    return None


# ----------------------------------------------------------------------------
# corpus

def run_corpus(ck, batch):
    path = os.path.join(vlib.VERIF, 'corpus', 'c14.json')
    if not os.path.exists(path):
        return []
    chains = []
    for c in json.load(open(path)):
        tab = {'cols': c['cols'], 'rows': c['rows'], 'index': c.get('index')}
        if 'cn_int' in c:
            tab['cn_int'] = c['cn_int']
        if c['kind'] == 'filter':
            batch.add(c['filter'], tab, run_filter(c['filter'], tab), 'corpus', note=c.get('name'))
        elif c['kind'] == 'do_call':
            chains.append(check_do_call(ck, batch, tab, c['filters'], c.get('kw', {}), 'corpus:do_call'))
    return chains


def check_small_functions(ck):
    """enumerate_changes and the weighted median against the code, directly"""
    import numpy as np, pandas as pd
    from cnvlib import segfilters
    from cnvlib.descriptives import weighted_median
    n = 300 if ck.tier == 'quick' else 4000
    cases = []
    for i in range(n):
        k = ck.rng.randint(1, 9)
        cases.append([ck.rng.choice([None, 0.0, 1.0, 2.0, 2.5, 3.0, -1.0]) for _ in range(k)])
    model = vlib.model_batch('c14_enum', [[F(x) for x in c] for c in cases])
    for c, m in zip(cases, model):
        code = [int(x) for x in segfilters.enumerate_changes(pd.Series(c, dtype=float))]
        exp, cnt = [], 0
        for j, x in enumerate(c):
            if j > 0 and not eqv(x, c[j - 1]):
                cnt += 1
            exp.append(cnt)
        ck.count(['enumerate_changes', c], nontrivial=len(set(exp)) > 1, cls='enumerate_changes')
        if code != exp:
            ck.violation('enumerate_changes does not count the level changes', {'levels': c}, code=code, expected=exp,
                         clause='C14_runs')
        elif code != m:
            ck.tie_break('model enumerate_changes differs from the code', {'levels': c}, code=code, model=m)
    cases = []
    for i in range(n):
        k = ck.rng.randint(1, 8)
        mode = ck.rng.choice(['grid', 'grid', 'float', 'one'])
        a = [ck.rng.choice([None, 0.0, 1.0, 2.0, 2.0, 3.0, 5.0, float(ck.rng.randint(0, 9))]) for _ in range(k)]
        w = [gen_weight(ck.rng, mode) for _ in range(k)]
        cases.append((a, w))
    model = vlib.model_batch('c14_wmedian', [[[F(x) for x in a], [Fr(x) for x in w]] for a, w in cases])
    for (a, w), m in zip(cases, model):
        code = float(weighted_median(np.array([float('nan') if x is None else x for x in a]), np.array(w)))
        vals = [x for x in a if x is not None]
        ck.count(['weighted_median', a, w], nontrivial=len(set(vals)) > 1, cls='weighted_median')
        if vals and len(set(vals)) == 1 and code != vals[0]:
            ck.violation('weighted median of equal values is not that value', {'a': a, 'w': w}, code=code, expected=vals[0],
                         clause='C14_conserve')
        elif not vlib.close(code, m):
            if wmedian_ambiguous(a, w) or tie_sensitive(a, w):
                ck.float_ambiguous += 1
            else:
                ck.tie_break('model weighted median differs from the code', {'a': a, 'w': w}, code=code, model=m)


# ----------------------------------------------------------------------------

def run(ck, scratch):
    ck.rule = ('corpus (inputs of repaired defects + the canonical open finding) first; exhaustive: all level sequences of length <= L '
               'over 3 levels x 2 chromosome splits, each table carrying cn, ci, sem columns encoding the same level sequence (quick: '
               'filters in rotation, thorough: all four); random: segment tables with 1..6 contiguous chromosomes, 1..30 rows, gaps, '
               'sticky level cells, weights from a dyadic grid / arbitrary floats / all zero, missing baf/cn1/cn2/p_bintest/ci/sem cells, '
               'log2 exactly on the 1.96*sem boundary, default/shifted/permuted/sparse/string index, every applicable filter; do_call: '
               'random tables x all 27 admissible filter lists (quick: sampled) x method threshold/clonal/none(+purity); edge: '
               'non-contiguous chromosomes, inverted CIs, inconsistent allele columns (model vs code only). non-trivial = the table has '
               'more than one run and at least one run of more than one row; distinct by case hash')
    ck.exhaustive = True
    ck.explanation = 'exhaustive: true refers to the enumerated level-sequence scope only (coverage.exhaustive_scope)'
    ck.unproved_remainder = [
        'the calling step between the two filter blocks of do_call is an uninterpreted function in C14_order (C01/C02 speak about it)',
        'pandas groupby / numpy float summation are outside the model; tied by the correspondence run only',
        'C14_conserve states the weighted-median clause for cn/cn1 under the cn filter (runs of equal cn); the cn of a run merged by '
        'ci/sem/ampdel (weighted median of different cn) is compared model-vs-code only',
    ]
    if not ck.build_status.get('driver_ok'):
        raise RuntimeError('model driver unavailable')
    quick = ck.tier == 'quick'
    batch = Batch(ck)
    chains = run_corpus(ck, batch)
    batch.flush()
    flush_chains(ck, chains)
    check_small_functions(ck)

    # exhaustive scope
    L = 6 if quick else 7
    nex = 0
    for seq, split, tab in exhaustive_tables(L):
        fl = [FILTERS[nex % 4]] if quick else FILTERS
        for f in fl:
            batch.add(f, tab, run_filter(f, tab), 'exh:' + f)
        nex += 1
        if len(batch.items) >= 2000:
            batch.flush()
    batch.flush()
    ck.extra['exhaustive_scope'] = ('all level sequences of length <= %d over 3 levels x 2 chromosome splits: %d tables, %s'
                                    % (L, nex, 'one filter each in rotation' if quick else 'all four filters each'))

    # random valid stream: every applicable filter directly
    nrand = 260 if quick else 6000
    for i in range(nrand):
        need = ck.rng.choice([('cn',), ('cn', 'cn1', 'cn2'), ('ci_lo', 'ci_hi'), ('sem',), ('cn', 'ci_lo', 'ci_hi', 'sem')])
        tab = gen_table(ck.rng, need=need)
        fs = [f for f in FILTERS if all(c in tab['cols'] for c in NEEDS[f])]
        if quick:
            fs = ck.rng.sample(fs, min(2, len(fs)))
        for f in fs:
            batch.add(f, tab, run_filter(f, tab), 'rand:' + f)
        if len(batch.items) >= 2000:
            batch.flush()
    batch.flush()

    # edge stream: model vs code only
    nedge = 60 if quick else 1200
    for i in range(nedge):
        kind = ck.rng.choice(['noncontig', 'inverted-ci', 'alleles-arbitrary', 'negative-sem', 'fractional-cn'])
        tab = gen_table(ck.rng, need=('cn', 'cn1', 'cn2', 'ci_lo', 'ci_hi', 'sem'))
        ci = {c: k for k, c in enumerate(tab['cols'])}
        use_oracle = False
        if kind == 'noncontig':
            ck.rng.shuffle(tab['rows'])
        elif kind == 'inverted-ci':
            for r in tab['rows']:
                if ck.rng.random() < 0.5 and r[ci['ci_lo']] is not None and r[ci['ci_hi']] is not None:
                    r[ci['ci_lo']], r[ci['ci_hi']] = abs(r[ci['ci_hi']]) + 0.1, -abs(r[ci['ci_lo']]) - 0.1
        elif kind == 'alleles-arbitrary':
            for r in tab['rows']:
                r[ci['cn1']] = ck.rng.choice([None, 0.0, 1.0, 2.0, 3.0])
                r[ci['cn2']] = ck.rng.choice([None, 0.0, 1.0, 2.0])
            tab['alleles_consistent'] = False
            use_oracle = True
        elif kind == 'negative-sem':
            for r in tab['rows']:
                if r[ci['sem']] is not None and ck.rng.random() < 0.5:
                    r[ci['sem']] = -r[ci['sem']]
        else:
            for r in tab['rows']:
                r[ci['cn']] = ck.rng.choice([0, 0.5, 1, 1.5, 2, 2.5, 4.5, 5, 5.5, 6, 6.5, 7])
                r[ci['cn1']] = r[ci['cn2']] = None
            tab['cn_int'] = False
            use_oracle = True
        for f in ck.rng.sample(FILTERS, 2):
            batch.add(f, tab, run_filter(f, tab), 'edge:' + kind, compare_oracle=use_oracle)
    batch.flush()

    # do_call: ordering of the filters
    lists = admissible_filter_lists()
    ck.extra['admissible_filter_lists'] = len(lists)
    chains = []
    ncall = 40 if quick else 500
    for i in range(ncall):
        with_cn = ck.rng.random() < 0.3
        need = ['ci_lo', 'ci_hi', 'sem'] + (['cn'] if with_cn else [])
        tab = gen_table(ck.rng, need=need, nseg=ck.rng.randint(2, 30))
        if not with_cn:
            for c in ('cn', 'cn1', 'cn2'):
                if c in tab['cols']:
                    k = tab['cols'].index(c)
                    tab['cols'].pop(k)
                    for r in tab['rows']:
                        r.pop(k)
        method = ck.rng.choice(['threshold', 'threshold', 'clonal', 'none'] if with_cn else ['threshold', 'threshold', 'clonal'])
        kw = {'method': method}
        if method == 'clonal' and ck.rng.random() < 0.5:
            kw['purity'] = ck.rng.choice([0.5, 0.7, 0.9])
        if method != 'none' and ck.rng.random() < 0.2:
            kw['ploidy'] = ck.rng.choice([2, 3, 4])
        # make amplifications/deletions likely
        k = tab['cols'].index('log2')
        for r in tab['rows']:
            if ck.rng.random() < 0.4:
                r[k] = ck.rng.choice([-5.0, -2.0, 1.4, 1.6, 2.0, 1.33])
        which = lists if not quick else ck.rng.sample(lists, 3)
        if not quick:
            which = ck.rng.sample(lists, 9)
        for fs in which:
            chains.append(check_do_call(ck, batch, tab, fs, kw, 'do_call:%s' % method))
        if len(batch.items) >= 1500:
            batch.flush()
            flush_chains(ck, chains)
            chains = []
    batch.flush()
    flush_chains(ck, chains)


def replay(ck, body):
    """re-run a saved case: prints the code's output and the oracle's verdict"""
    case = body.get('case') or {}
    tab = case.get('table')
    if tab is None:
        print(json.dumps(body, indent=1)[:2000])
        return 0
    for r in tab['rows']:
        for i, v in enumerate(r):
            if v == 'NaN':
                r[i] = None
    if 'filter' in case:
        out = run_filter(case['filter'], tab)
        print('code output:', out)
        if isinstance(out, Err):
            return 1
        v, msg, clause = oracle(case['filter'], tab, out)
        print('oracle:', v, msg, clause)
        return 0 if v == 'ok' else 1
    if 'do_call' in case:
        dc = case['do_call']
        out = run_do_call(tab, dc['filters'], dc['kw'])
        print('code output:', out)
        return 0
    return 0
