"""C14 -- segment filters merge only adjacent like segments and conserve what they merge.

Correspondence: cnvlib.segfilters.cn/ci/sem/ampdel and cnvlib.call.do_call(filters=[...])
against the extracted Coq model (Model/Segfilters.v: enumerate_changes, group keys,
pandas-style grouping, squash_region, weighted median, do_call's filter ordering) and
the specification function `level_runs` (Spec/Segfilters.v).

Direct oracle (independent of the model, exact arithmetic in fractions.Fraction, the
literal numbers of the property text): the maximal runs of consecutive rows with equal
(chromosome, level) are computed by a plain scan; the code's output must have exactly one
row per run (ampdel: per deleted/amplified run) spanning first start .. last end, with
summed probes and weight and the weight-averaged log2; total probes, total weight and each
chromosome's (min start, max end) must be conserved; neighbouring outputs of a chromosome
must differ in level; for `cn` the output cn/cn1 is the run's common value; every other field
of a merged row (gene, depth, baf, cn, cn1, cn2, p_bintest) is what the run determines
(expect_fields / fields_match); do_call must equal (ci|sem) -> call -> remaining filters in
the order given, never add rows, and conserve total probes / weight without ampdel; the
model of do_call as a whole (filters around the C01/C02 calling step) is compared end to end."""
import os, json, itertools, math, time
from fractions import Fraction as Fr
import vlib
from vlib import Err

LEVEL = 'proof'

COLS = ['chromosome', 'start', 'end', 'gene', 'log2', 'probes', 'weight', 'depth', 'baf', 'cn', 'cn1', 'cn2',
        'p_bintest', 'ci_lo', 'ci_hi', 'sem']
BASE = ['chromosome', 'start', 'end', 'gene', 'log2', 'probes', 'weight']
OPT = ['depth', 'baf', 'cn', 'cn1', 'cn2', 'p_bintest', 'ci_lo', 'ci_hi', 'sem']
FILTERS = ['cn', 'ci', 'sem', 'ampdel']
NEEDS = {'cn': ['cn'], 'ampdel': ['cn'], 'ci': ['ci_lo', 'ci_hi'], 'sem': ['sem']}
Z196 = Fr(1.96)          # "1.96" as the double the text's literal denotes
KNOWN_SIG = 'c14-allele-split-non-cn-filter'


# ----------------------------------------------------------------------------
# tables: a case table is {'cols': [...], 'rows': [[...], ...], 'index': [...] or None}

def isnan(x):
    return x is None or (isinstance(x, float) and x != x)


def mk_array(tab):
    import pandas as pd
    from cnvlib.cnary import CopyNumArray as CNA
    rows = [[(float('nan') if v is None else v) for v in r] for r in tab['rows']]
    df = pd.DataFrame(rows, columns=tab['cols'])
    for c in ('start', 'end', 'probes'):
        if c in df:
            df[c] = df[c].astype('int64')
    for c in OPT + ['log2', 'weight']:
        if c in df and c != 'cn':
            df[c] = df[c].astype('float64')
    if 'cn' in df and tab.get('cn_int', True) and all(float(v).is_integer() for v in df['cn']):
        df['cn'] = df['cn'].astype('int64')
    if tab.get('index') is not None:
        df.index = tab['index']
    return CNA(df, {'sample_id': 'c14'})


def table_of(arr):
    """code output -> case table (python scalars; NaN -> None)"""
    df = arr.data
    cols = [c for c in COLS if c in df.columns]
    rows = []
    for rec in df[cols].itertuples(index=False, name=None):
        row = []
        for c, v in zip(cols, rec):
            if c in ('chromosome', 'gene'):
                row.append(str(v))
            elif c in ('start', 'end', 'probes'):
                row.append(int(v))
            else:
                v = float(v)
                row.append(None if v != v else v)
        rows.append(row)
    return {'cols': cols, 'rows': rows, 'index': [x if isinstance(x, str) else int(x) for x in df.index]}


def dicts(tab):
    return [dict(zip(tab['cols'], r)) for r in tab['rows']]


def enc_table(tab):
    """rows in the model's 16-field order; an absent column is None everywhere (cn: 0)"""
    out = []
    for d in dicts(tab):
        row = []
        for c in COLS:
            v = d.get(c)
            if c in ('chromosome', 'gene'):
                row.append(v)
            elif c in ('start', 'end', 'probes'):
                row.append(int(v))
            elif c in ('log2', 'weight'):
                row.append(Fr(v))
            elif c == 'cn':
                row.append(Fr(v) if v is not None else 0)
            else:
                row.append(None if v is None else Fr(v))
        out.append(row)
    return out


MODEL_OUT = ['chromosome', 'start', 'end', 'gene', 'log2', 'probes', 'weight', 'depth', 'baf', 'cn', 'cn1', 'cn2', 'p_bintest']


# ----------------------------------------------------------------------------
# the direct oracle

def F(x):
    return None if x is None else Fr(x)


def level_plain(f, d):
    """the filter's level of a row, from the property text"""
    if f == 'cn':
        return F(d['cn'])
    if f == 'ampdel':
        c = F(d['cn'])
        return -1 if c == 0 else (1 if c >= 5 else 0)
    if f == 'ci':
        lo, hi = F(d['ci_lo']), F(d['ci_hi'])
        if lo is not None and lo > 0 and not (hi is not None and hi < 0):
            return 1
        if hi is not None and hi < 0:
            return -1
        return 0
    if f == 'sem':
        s, l = F(d['sem']), F(d['log2'])
        if s is None:
            return 0
        if l + Z196 * s < 0:
            return -1
        if l - Z196 * s > 0:
            return 1
        return 0
    raise ValueError(f)


def sem_margin(d):
    s, l = F(d.get('sem')), F(d['log2'])
    if s is None:
        return None
    ms = [abs(l - Z196 * s), abs(l + Z196 * s)]
    ms = [m for m in ms if m != 0]
    return min(ms) / max(1, abs(l)) if ms else None


def runs_of(ds, key):
    out = []
    for d in ds:
        if out and key(out[-1][-1]) == key(d):
            out[-1].append(d)
        else:
            out.append([d])
    return out


def key_plain(f):
    return lambda d: (d['chromosome'], level_plain(f, d))


def key_full(f):
    return lambda d: (d['chromosome'], level_plain(f, d), F(d.get('cn1')), F(d.get('cn2')))


def expect_row(r):
    W = sum(Fr(d['weight']) for d in r)
    if W > 0:
        l2 = sum(Fr(d['weight']) * Fr(d['log2']) for d in r) / W
    else:
        l2 = sum(Fr(d['log2']) for d in r) / len(r)
    return {'chromosome': r[0]['chromosome'], 'start': r[0]['start'], 'end': r[-1]['end'],
            'probes': sum(d['probes'] for d in r), 'weight': W, 'log2': l2}


def rows_match(out_ds, runs):
    """does the code's output have exactly one row per run with the prescribed span, sums and log2?"""
    if len(out_ds) != len(runs):
        return 'row count %d, expected %d runs' % (len(out_ds), len(runs))
    for o, r in zip(out_ds, runs):
        e = expect_row(r)
        for k in ('chromosome', 'start', 'end', 'probes'):
            if o[k] != e[k]:
                return '%s of the row for run %s:%d-%d is %r, expected %r' % (k, e['chromosome'], e['start'], e['end'], o[k], e[k])
        for k in ('weight', 'log2'):
            if not vlib.close(o[k], e[k]):
                return '%s of the row for run %s:%d-%d is %r, expected %s' % (k, e['chromosome'], e['start'], e['end'], o[k], float(e[k]))
    return None


def first_occurrences(names):
    out = []
    for g in names:
        if g not in out:
            out.append(g)
    return out


def exact_median(vals):
    s = sorted(vals)
    n = len(s)
    return s[n // 2] if n % 2 else (s[n // 2 - 1] + s[n // 2]) / 2


def half_weight_ok(m, vals, ws):
    """at most half of the weight (+ the code's rounding allowance n*eps*W) strictly on either side of m"""
    W = sum(ws)
    slack = len(vals) * Fr(2) ** -52 * W
    tol = Fr(1, 10 ** 9) * max(1, abs(m))
    below = sum(w for v, w in zip(vals, ws) if v < m - tol)
    above = sum(w for v, w in zip(vals, ws) if v > m + tol)
    return below <= W / 2 + slack and above <= W / 2 + slack


def expect_fields(r, cols):
    """every remaining field of the row that replaces run r, from the run alone (exact arithmetic);
    a value None means NaN is expected, ('range', lo, hi, check) a constrained value"""
    ws = [Fr(d['weight']) for d in r]
    W = sum(ws)
    nonneg = all(w >= 0 for w in ws)
    e = {'gene': ','.join(first_occurrences([d['gene'] for d in r]))}
    for c in ('depth', 'baf'):
        if c in cols:
            xs = [F(d[c]) for d in r]
            if W > 0:
                e[c] = None if any(x is None for x in xs) else sum(w * x for w, x in zip(ws, xs)) / W
            else:
                ps = [x for x in xs if x is not None]
                e[c] = sum(ps) / len(ps) if ps else None
    if 'p_bintest' in cols:
        ps = [F(d['p_bintest']) for d in r if d['p_bintest'] is not None]
        e['p_bintest'] = max(ps) if ps else None
    if 'cn' in cols:
        vals = [F(d['cn']) for d in r]
        if W > 0:
            e['cn'] = ('wmedian', vals, ws, nonneg)
        else:
            e['cn'] = exact_median(vals)
    if 'cn1' in cols:
        pairs = [(F(d['cn1']), w) for d, w in zip(r, ws) if d['cn1'] is not None]
        if W > 0:
            e['cn1'] = ('wmedian', [p[0] for p in pairs], [p[1] for p in pairs], nonneg) if pairs else None
        else:
            e['cn1'] = exact_median([p[0] for p in pairs]) if len(pairs) == len(r) else None
    return e


def fields_match(o, r, cols):
    """the merged row o against expect_fields(r): -> message or None"""
    e = expect_fields(r, cols)
    where = 'run %s:%d-%d' % (r[0]['chromosome'], r[0]['start'], r[-1]['end'])
    for c, want in e.items():
        if c not in o:
            return 'column %s missing from the output' % c
        got = o[c]
        if c == 'gene':
            if got != want:
                return 'gene of the row for %s is %r, expected %r' % (where, got, want)
            continue
        if isinstance(want, tuple):
            _, vals, ws, nonneg = want
            if got is None:
                return '%s of the row for %s is NaN' % (c, where)
            g = Fr(got)
            tol = Fr(1, 10 ** 9) * max(1, abs(g))
            if not (min(vals) - tol <= g <= max(vals) + tol):
                return '%s of the row for %s is %r, outside the range %s..%s of the run' % (
                    c, where, got, float(min(vals)), float(max(vals)))
            if nonneg and not half_weight_ok(g, vals, ws):
                return '%s of the row for %s is %r: more than half of the weight lies on one side' % (c, where, got)
        elif want is None:
            if got is not None:
                return '%s of the row for %s is %r, expected NaN' % (c, where, got)
        elif not vlib.close(got, want):
            return '%s of the row for %s is %r, expected %s' % (c, where, got, float(want))
    if 'cn1' in cols:
        if o.get('cn1') is None:
            if o.get('cn2') is not None:
                return 'cn2 of the row for %s is %r while cn1 is NaN' % (where, o.get('cn2'))
        elif o.get('cn2') is None or not vlib.close(o['cn2'], Fr(o['cn']) - Fr(o['cn1'])):
            return 'cn2 of the row for %s is %r, cn - cn1 = %r' % (where, o.get('cn2'), o['cn'] - o['cn1'])
    for c in ('ci_lo', 'ci_hi', 'sem'):
        if c in o:
            return 'column %s survives the filter' % c
    return None


def spans(ds):
    sp = {}
    for d in ds:
        a, b = sp.get(d['chromosome'], (d['start'], d['end']))
        sp[d['chromosome']] = (min(a, d['start']), max(b, d['end']))
    return sp


def eqv(a, b):
    """equality of two cells, NaN being a value of its own"""
    if isnan(a) or isnan(b):
        return isnan(a) and isnan(b)
    return a == b


def oracle(f, tab_in, tab_out):
    """-> (verdict, message): verdict in 'ok', 'known' (the allele split of a non-cn filter), 'bad'"""
    ins, outs = dicts(tab_in), dicts(tab_out)
    has_alleles = 'cn1' in tab_in['cols']
    plain = runs_of(ins, key_plain(f))
    full = runs_of(ins, key_full(f)) if has_alleles else plain
    want = full if f == 'cn' else plain
    keep = (lambda r: level_plain(f, r[0]) != 0) if f == 'ampdel' else (lambda r: True)
    msg = rows_match(outs, [r for r in want if keep(r)])
    verdict = 'ok'
    if msg is not None:
        if f != 'cn' and has_alleles and len(full) != len(plain) and rows_match(outs, [r for r in full if keep(r)]) is None:
            verdict, want = 'known', full
            msg = ('%s keeps adjacent segments of one level apart because their allele-specific copy numbers differ: %d rows for %d runs'
                   % (f, len(outs), len([r for r in plain if keep(r)])))
        else:
            return 'bad', msg, 'C14_runs'
    kept = [r for r in want if keep(r)]
    # conservation, stated on the output as a whole
    kept_in = [d for r in kept for d in r]
    if sum(o['probes'] for o in outs) != sum(d['probes'] for d in kept_in):
        return 'bad', 'total probes not conserved', 'C14_conserve'
    if not vlib.close(sum(o['weight'] for o in outs), sum(Fr(d['weight']) for d in kept_in)):
        return 'bad', 'total weight not conserved', 'C14_conserve'
    if spans(outs) != spans(kept_in):
        return 'bad', 'covered span of a chromosome changed: %r vs %r' % (spans(outs), spans(kept_in)), 'C14_conserve'
    if f == 'ampdel':
        for o in outs:
            if not (o['cn'] == 0 or o['cn'] >= 5):
                return 'bad', 'ampdel kept a row with cn %r' % o['cn'], 'C14_ampdel_keep'
        if f == 'ampdel' and verdict == 'ok':
            for o, r in zip(outs, kept):
                lv = level_plain(f, r[0])
                if (lv == -1) != (o['cn'] == 0):
                    return 'bad', 'ampdel output cn %r for a run of level %d' % (o['cn'], lv), 'C14_ampdel_keep'
    if f == 'cn':
        for o, r in zip(outs, kept):
            if not vlib.close(o['cn'], F(r[0]['cn'])):
                return 'bad', 'cn of a merged run is %r, the common cn is %r' % (o['cn'], r[0]['cn']), 'C14_conserve'
            if has_alleles and not (vlib.close(o['cn1'], F(r[0]['cn1']))):
                return 'bad', 'cn1 of a merged run is %r, the common cn1 is %r' % (o['cn1'], r[0]['cn1']), 'C14_conserve'
        if tab_in.get('alleles_consistent', True):
            for a, b in zip(outs, outs[1:]):
                if a['chromosome'] == b['chromosome'] and eqv(a['cn'], b['cn']) and \
                        eqv(a.get('cn1'), b.get('cn1')) and eqv(a.get('cn2'), b.get('cn2')):
                    return 'bad', 'neighbouring outputs %s:%d and %s:%d carry the same cn/cn1/cn2' % (
                        a['chromosome'], a['start'], b['chromosome'], b['start']), 'C14_runs'
    elif verdict == 'ok':
        # neighbouring outputs on a chromosome differ in level (level of an output = level of its run)
        for r1, r2 in zip(want, want[1:]):
            if r1[0]['chromosome'] == r2[0]['chromosome'] and level_plain(f, r1[0]) == level_plain(f, r2[0]):
                return 'bad', 'neighbouring runs share a level', 'C14_runs'
    # every other field of each merged row (gene, depth, baf, cn, cn1, cn2, p_bintest; no ci/sem columns)
    for o, r in zip(outs, kept):
        m2 = fields_match(o, r, tab_in['cols'])
        if m2:
            return 'bad', m2, 'C14_merged_fields'
    if len(outs) > len(ins):
        return 'bad', 'more rows out (%d) than in (%d)' % (len(outs), len(ins)), 'C14_rows_monotone'
    if verdict == 'known':
        return 'known', msg, 'C14_runs'
    return 'ok', None, None


# ----------------------------------------------------------------------------
# float decisions whose exact counterpart may differ (DESIGN section 2)

def wmedian_ambiguous(vals, ws):
    """is the weighted median's branch decided within rounding error? (exact margins)"""
    ps = [(Fr(a), Fr(w)) for a, w in zip(vals, ws) if a is not None]
    if len(ps) < 2:
        return False
    ps.sort(key=lambda p: p[0])
    w = [p[1] for p in ps]
    tot = sum(w)
    if tot <= 0:
        return False
    mid = tot / 2
    n = len(w)
    tol = n * Fr(2) ** -52 * tot
    m = []
    m += [abs(x - mid) for x in w if x != mid]
    acc = 0
    for x in w:
        acc += x
        d = abs(acc - mid)
        if d != 0:
            m.append(abs(d - tol))
            m.append(d)
    return bool(m) and min(m) / tot < Fr(1, 10 ** 11)


def tie_sensitive(vals, ws):
    """equal values carrying a zero weight: the result may depend on how argsort orders ties"""
    seen = {}
    for a, w in zip(vals, ws):
        if a is None:
            continue
        seen.setdefault(a, []).append(w)
    return any(len(v) > 1 and any(x == 0 for x in v) for v in seen.values())


# ----------------------------------------------------------------------------
# one filter application: code, oracle, model

class Batch:
    """collects filter applications; the model is run once for all of them"""
    def __init__(self, ck):
        self.ck = ck
        self.items = []
        self.spec_runs = []
        self.p_twice = 0.06 if ck.tier == 'quick' else 0.1

    def add(self, f, tab_in, tab_out, cls, compare_oracle=True, note=None):
        # precondition of the property (tables as `call` writes them, C02): cn2 = cn - cn1 or both missing.
        # A table that breaks it is compared model-vs-code only, whatever stream it came from.
        if not alleles_ok(tab_in):
            tab_in['alleles_consistent'] = False
            compare_oracle = False
            cls = 'edge:inconsistent-alleles'
        self.items.append((f, tab_in, tab_out, cls, compare_oracle, note))

    def flush(self):
        ck = self.ck
        items, self.items = self.items, []
        if not items:
            return
        args = [[f, enc_table(ti)] for (f, ti, _, _, _, _) in items]
        model = vlib.model_batch_parallel('c14_filter', args)
        spec = vlib.model_batch_parallel('c14_spec_runs', args)
        for (f, ti, to, cls, use_oracle, note), m, sp in zip(items, model, spec):
            case = {'filter': f, 'table': ti}
            if note:
                case['note'] = note
            ins = dicts(ti)
            full = runs_of(ins, key_full(f))
            nontriv = any(len(r) > 1 for r in full) and len(full) > 1
            ck.count(case, nontrivial=nontriv, cls=cls)
            if isinstance(to, Err):
                ck.violation('%s raised %s' % (f, to.msg), case, code=to, clause='C14_runs')
                continue
            amb = False
            if f == 'sem':
                mg = [sem_margin(d) for d in ins]
                if any(x is not None and x < Fr(1, 10 ** 12) for x in mg):
                    amb = True
            if amb:
                ck.float_ambiguous += 1
                continue
            if isinstance(sp, Err) or isinstance(m, Err):
                raise RuntimeError('model error on %r: %r %r' % (case, m, sp))
            if sp != [len(r) for r in full]:
                raise RuntimeError('Coq level_runs disagrees with the python run oracle on %r: %r vs %r'
                                   % (case, sp, [len(r) for r in full]))
            if use_oracle:
                verdict, msg, clause = oracle(f, ti, to)
                if verdict == 'bad':
                    ck.violation('%s: %s' % (f, msg), case, code=to, clause=clause)
                    continue
                if verdict == 'known':
                    ck.cls('known:allele-split')
                    ck.violation('%s: %s' % (f, msg), case, sig=KNOWN_SIG, code=to, clause=clause)
            # model vs code, on the columns the code's output has
            diff = compare_model(f, ti, to, m, ck)
            if diff:
                ck.tie_break('model of %s differs from the code: %s' % (f, diff), case, code=to,
                             model=[[vlib.jsonable(x) for x in r] for r in m])
                continue
            if use_oracle and cls.split(':')[0] in ('rand', 'sorted', 'corpus'):
                for r in full[:4]:
                    self.spec_runs.append((r, ti['cols']))
            if cls.startswith('twice'):
                continue
            # applying the filter a second time (C14_idempotent_*, C14_consumes)
            if f in ('ci', 'sem'):
                left = [c for c in ('ci_lo', 'ci_hi', 'sem') if c in to['cols']]
                if left:
                    ck.violation('%s leaves the segmetrics column(s) %r in its output' % (f, left), case, code=to,
                                 clause='C14_consumes')
                elif ck.rng.random() < self.p_twice / 4:
                    again = run_filter(f, to)
                    ck.count({'twice': f, 'table': to}, nontrivial=False, cls='twice:' + f)
                    if not (isinstance(again, Err) and again.msg.startswith('ValueError')):
                        ck.violation('%s applied to its own output does not refuse the missing columns' % f, case,
                                     code=again, clause='C14_consumes')
            elif use_oracle and ck.rng.random() < self.p_twice and to['rows']:
                again = run_filter(f, to)
                self.add(f, to, again, 'twice:' + f, note='second application')
                if f == 'cn' and ti.get('alleles_consistent', True) and not isinstance(again, Err):
                    d = tables_close(again, to)
                    if d:
                        ck.violation('cn applied twice differs from cn applied once: %s' % d, case, code=again,
                                     expected=to, clause='C14_idempotent_cn')

    def flush_all(self):
        while self.items:
            self.flush()
        self.check_spec_fields()

    def check_spec_fields(self):
        """the python oracle of the merged fields against the Coq specification functions (Spec/Segfilters.v)"""
        runs, self.spec_runs = self.spec_runs, []
        if not runs:
            return
        out = vlib.model_batch_parallel('c14_spec_fields', [enc_table({'cols': cols, 'rows': [[d.get(c) for c in cols] for d in r]})
                                                            for r, cols in runs])
        for (r, cols), sp in zip(runs, out):
            if isinstance(sp, Err):
                raise RuntimeError('c14_spec_fields failed on %r: %r' % (r, sp))
            weighted, l2, dep, bf, genes, pmax = sp
            e = expect_fields(r, cols)
            x = expect_row(r)
            W = sum(Fr(d['weight']) for d in r)
            bad = []
            if weighted != (W > 0):
                bad.append(('weighted', weighted, W > 0))
            if l2 != x['log2']:
                bad.append(('log2', l2, x['log2']))
            if genes != e['gene']:
                bad.append(('gene', genes, e['gene']))
            for c, v in (('depth', dep), ('baf', bf), ('p_bintest', pmax)):
                if c in cols and v != e[c]:
                    bad.append((c, v, e[c]))
            if bad:
                raise RuntimeError('Coq specification functions disagree with the python oracle on %r: %r' % (r, bad))
            self.ck.cls('spec-fields')


def alleles_ok(tab):
    """allele-specific copy numbers as do_call writes them: both present with cn2 = cn - cn1, or both missing"""
    if 'cn1' not in tab['cols'] and 'cn2' not in tab['cols']:
        return True
    if not ('cn1' in tab['cols'] and 'cn2' in tab['cols'] and 'cn' in tab['cols']):
        return False
    for d in dicts(tab):
        a, b = d['cn1'], d['cn2']
        if (a is None) != (b is None):
            return False
        if a is not None and Fr(b) != Fr(d['cn']) - Fr(a):
            return False
    return True


def tables_close(a, b):
    """two code tables, cell by cell with the float tolerance -> message or None"""
    if a['cols'] != b['cols']:
        return 'columns %r vs %r' % (a['cols'], b['cols'])
    if len(a['rows']) != len(b['rows']):
        return 'row count %d vs %d' % (len(a['rows']), len(b['rows']))
    for i, (r1, r2) in enumerate(zip(a['rows'], b['rows'])):
        for c, x, y in zip(a['cols'], r1, r2):
            if isinstance(x, str) or isinstance(y, str):
                if x != y:
                    return 'row %d %s: %r vs %r' % (i, c, x, y)
            elif isnan(x) or isnan(y):
                if not (isnan(x) and isnan(y)):
                    return 'row %d %s: %r vs %r' % (i, c, x, y)
            elif not vlib.close(float(x), Fr(y)):
                return 'row %d %s: %r vs %r' % (i, c, x, y)
    return None


def compare_model(f, ti, to, m, ck):
    outs = dicts(to)
    if len(outs) != len(m):
        return 'row count %d vs model %d' % (len(outs), len(m))
    ins = dicts(ti)
    groups = None
    for i, (o, mr) in enumerate(zip(outs, m)):
        md = dict(zip(MODEL_OUT, mr))
        for c in MODEL_OUT:
            if c not in o:
                continue
            if c in ('chromosome', 'gene', 'start', 'end', 'probes'):
                if o[c] != md[c]:
                    return 'row %d %s: %r vs model %r' % (i, c, o[c], md[c])
            elif not vlib.close(o[c], md[c]):
                if c in ('cn', 'cn1', 'cn2'):
                    # float-decided branches of the weighted median / unstable tie order
                    if groups is None:
                        groups = [r for r in runs_of(ins, key_full(f))
                                  if not (f == 'ampdel' and level_plain(f, r[0]) == 0)]
                    if i < len(groups):
                        g = groups[i]
                        ws = [d['weight'] for d in g]
                        col = 'cn' if c == 'cn2' else c
                        cols = ['cn', 'cn1'] if c == 'cn2' else [col]
                        if any(wmedian_ambiguous([d.get(k) for d in g], ws) or tie_sensitive([d.get(k) for d in g], ws)
                               for k in cols):
                            ck.float_ambiguous += 1
                            continue
                return 'row %d %s: %r vs model %r' % (i, c, o[c], md[c] if md[c] is None else float(md[c]))
    return None


def run_filter(f, tab):
    from cnvlib import segfilters
    try:
        return table_of(getattr(segfilters, f)(mk_array(tab)))
    except Exception as e:     # noqa
        return Err(type(e).__name__ + ': ' + str(e)[:120])


# ----------------------------------------------------------------------------
# generators

CHROMS = ['chr1', 'chr2', 'chr3', 'chr10', 'chrX', 'chrY', '1', '2', 'X', 'chr1_alt', 'chrM', 'chr22']
GENES = ['A', 'B', 'C', '-', 'TP53', 'A,B', 'x y', 'MYC', '', 'Antitarget']


def gen_weight(rng, mode):
    if mode == 'zero':
        return 0.0
    if mode == 'grid':
        return rng.choice([0, 0, 1, 1, 2, 3, 4, 8, rng.randint(0, 64)]) / 16.0
    if mode == 'one':
        return 1.0
    return rng.choice([rng.random(), rng.random() * 100, 0.1, 0.2, 0.3, 1e-3, 0.0])


def gen_table(rng, need=(), nchrom=None, nseg=None, contiguous=True, level_bias=None):
    """a segment table sorted within chromosomes, chromosomes contiguous, with gaps"""
    nchrom = nchrom or rng.randint(1, 6)
    nseg = nseg or rng.choice([1, 2, 3, rng.randint(1, 12), rng.randint(1, 30)])
    nseg = max(nseg, 1)
    names = rng.sample(CHROMS, nchrom)
    # split nseg rows over the chromosomes (some may get none)
    cuts = sorted(rng.randint(0, nseg) for _ in range(nchrom - 1))
    sizes = [b - a for a, b in zip([0] + cuts, cuts + [nseg])]
    wmode = rng.choice(['grid', 'grid', 'grid', 'float', 'one', 'zero'])
    opt = set(need)
    for c, p in (('depth', .4), ('baf', .4), ('p_bintest', .3), ('cn', .5), ('ci_lo', .3), ('sem', .3)):
        if rng.random() < p:
            opt.add(c)
    if 'ci_lo' in opt or 'ci_hi' in opt:
        opt |= {'ci_lo', 'ci_hi'}
    if 'cn' in opt and rng.random() < 0.5:
        opt |= {'cn1', 'cn2'}
    if 'cn1' in opt or 'cn2' in opt:
        opt |= {'cn', 'cn1', 'cn2'}
    cols = BASE + [c for c in OPT if c in opt]
    rows = []
    stick = rng.choice([0.0, 0.5, 0.8])          # probability of repeating the previous row's level-defining cells
    prev = None
    for name, k in zip(names, sizes):
        pos = rng.choice([0, 1, rng.randint(0, 10 ** 6)])
        for _ in range(k):
            ln = rng.choice([1, 10, rng.randint(1, 10 ** 5)])
            d = {'chromosome': name, 'start': pos, 'end': pos + ln, 'gene': rng.choice(GENES),
                 'log2': rng.choice([0.0, -0.5, 0.5, 1.0, -1.0, round(rng.uniform(-3, 3), 3), rng.uniform(-6, 4)]),
                 'probes': rng.choice([1, 2, 5, rng.randint(0, 500)]),
                 'weight': gen_weight(rng, wmode if rng.random() < 0.9 else 'grid')}
            pos = pos + ln + rng.choice([0, 0, 1, 100, rng.randint(0, 10 ** 4)])
            if 'depth' in opt:
                d['depth'] = rng.choice([0.0, 1.0, rng.uniform(0, 500)])
            if 'baf' in opt:
                d['baf'] = rng.choice([None, 0.5, 0.0, 1.0, rng.random()])
            if 'p_bintest' in opt:
                d['p_bintest'] = rng.choice([None, 0.0, 1.0, rng.random()])
            if 'cn' in opt:
                d['cn'] = rng.choice([0, 0, 1, 2, 2, 3, 4, 5, 5, 6, rng.randint(0, 12)])
            if 'cn1' in opt:
                if d['cn'] > 0 and rng.random() < 0.25:
                    d['cn1'] = d['cn2'] = None
                else:
                    c1 = rng.randint((d['cn'] + 1) // 2, d['cn'])
                    d['cn1'], d['cn2'] = c1, d['cn'] - c1
            if 'ci_lo' in opt:
                lo = rng.choice([0.0, -0.1, 0.1, -1.0, 0.5, rng.uniform(-2, 2)])
                hi = lo + rng.choice([0.0, 0.1, 0.5, 1.0, -lo if lo < 0 else 0.2, rng.random() * 2])
                d['ci_lo'], d['ci_hi'] = lo, hi
                if rng.random() < 0.03:
                    d['ci_lo'] = None
                if rng.random() < 0.03:
                    d['ci_hi'] = None
            if 'sem' in opt:
                s = rng.choice([0.0, 0.25, 0.5, 1.0, rng.random(), None if rng.random() < 0.2 else 0.125])
                d['sem'] = s
                if s in (0.0, 0.125, 0.25, 0.5, 1.0) and rng.random() < 0.4:     # s * 1.96 is exact for these
                    d['log2'] = rng.choice([1, -1]) * s * 1.96       # exactly on the boundary
                    if rng.random() < 0.5:
                        d['log2'] = float.fromhex((d['log2']).hex()) + rng.choice([0.0, 1e-9, -1e-9, 0.25, -0.25])
            if prev is not None and rng.random() < stick:
                for c in ('cn', 'cn1', 'cn2', 'ci_lo', 'ci_hi', 'sem'):
                    if c in d:
                        d[c] = prev[c]
                if 'sem' in opt:
                    d['log2'] = prev['log2']
            prev = d
            rows.append([d.get(c) for c in cols])
    idx_mode = rng.choice(['default', 'default', 'shift', 'perm', 'sparse', 'str'])
    n = len(rows)
    if idx_mode == 'default':
        index = None
    elif idx_mode == 'shift':
        k = rng.randint(1, 40)
        index = list(range(k, k + n))
    elif idx_mode == 'perm':
        index = list(range(n))
        rng.shuffle(index)
    elif idx_mode == 'sparse':
        index = sorted(rng.sample(range(0, 3 * n + 3), n))
    else:
        index = ['r%d' % i for i in range(n)]
        rng.shuffle(index)
    return {'cols': cols, 'rows': rows, 'index': index}


def exhaustive_tables(L):
    """all level sequences of length <= L over 3 levels x 2 chromosome splits; one table serves the four
    filters: level k in {0,1,2} is cn (0, 2, 5), CI ((-1,-.5), (-.5,.5), (.5,1)) and sem .25 with log2 (-1, 0, 1)"""
    cnv = [0, 2, 5]
    civ = [(-1.0, -0.5), (-0.5, 0.5), (0.5, 1.0)]
    l2v = [-1.0, 0.0, 1.0]
    cols = BASE + ['cn', 'ci_lo', 'ci_hi', 'sem']
    for n in range(1, L + 1):
        for seq in itertools.product(range(3), repeat=n):
            for split in (0, 1):
                rows = []
                for i, k in enumerate(seq):
                    chrom = 'chr2' if (split and i >= (n + 1) // 2) else 'chr1'
                    rows.append([chrom, 100 * i, 100 * i + 90, 'g%d' % (i % 3), l2v[k], i + 1, [1.0, 0.5, 0.0, 2.0][i % 4],
                                 cnv[k], civ[k][0], civ[k][1], 0.25])
                yield seq, split, {'cols': cols, 'rows': rows, 'index': None}


# ----------------------------------------------------------------------------
# do_call: ordering of the filters

def admissible_filter_lists():
    out = []
    for k in range(0, 3):
        for post in itertools.permutations(['cn', 'ampdel'], k):
            out.append(list(post))
            for pre in ('ci', 'sem'):
                for p in range(len(post) + 1):
                    out.append(list(post[:p]) + [pre] + list(post[p:]))
    return out


def run_do_call(tab, filters, kw):
    from cnvlib import call
    try:
        return table_of(call.do_call(mk_array(tab), filters=list(filters) if filters is not None else None, **kw))
    except Exception as e:   # noqa
        return Err(type(e).__name__ + ': ' + str(e)[:120])


def same_table(a, b):
    if isinstance(a, Err) or isinstance(b, Err):
        return a == b
    if a['cols'] != b['cols'] or len(a['rows']) != len(b['rows']):
        return False
    for r1, r2 in zip(a['rows'], b['rows']):
        for x, y in zip(r1, r2):
            if not (x == y or (isnan(x) and isnan(y))):
                return False
    return True


def check_do_call(ck, batch, tab, filters, kw, cls):
    """do_call(filters) against (ci|sem) -> call -> the rest in order, each stage from the code itself;
    every filter application of the chain goes through the oracle and the model"""
    case = {'do_call': {'filters': filters, 'kw': kw}, 'table': tab}
    res = run_do_call(tab, filters, kw)
    # the same table under REPEATED row labels: do_call resets a non-unique index before the cn-based filters
    # (cnvlib/call.py, the second filter loop), so the answer must not depend on the labels.  (ci / sem act before that
    # reset and assert unique labels: lists holding them are not run this way.)
    if not isinstance(res, Err) and filters and not any(f in ('ci', 'sem') for f in filters) and len(tab['rows']) >= 2 \
            and (len(ck.hashes) + len(tab['rows'])) % 3 == 0:
        rep = dict(tab)
        rep['index'] = [i // 2 for i in range(len(tab['rows']))]
        res_rep = run_do_call(rep, filters, kw)
        ck.count({'do_call_repeated_labels': {'filters': filters, 'kw': kw}, 'table': rep}, nontrivial=True, cls=cls + ':repeated-labels')
        if not same_table(res, res_rep):
            ck.violation('do_call(filters=%r) answers differently when the row labels repeat' % (filters,),
                         {'do_call': {'filters': filters, 'kw': kw}, 'table': rep}, code=res_rep, expected=res,
                         clause='C14_do_call_labels')
    pre = [f for f in ('ci', 'sem') if f in filters]
    rest = [f for f in filters if f not in ('ci', 'sem')]
    stage = tab
    steps = []
    for f in pre:
        nxt = run_filter(f, stage)
        steps.append((f, stage, nxt))
        if isinstance(nxt, Err):
            break
        stage = nxt
    called = None
    if not (steps and isinstance(steps[-1][2], Err)):
        called = run_do_call(stage, None, kw)
        stage = called
        if not isinstance(stage, Err):
            for f in rest:
                nxt = run_filter(f, stage)
                steps.append((f, stage, nxt))
                if isinstance(nxt, Err):
                    break
                stage = nxt
    composed = steps[-1][2] if steps and isinstance(steps[-1][2], Err) else stage
    ck.count(case, nontrivial=len(filters) >= 2, cls=cls)
    if isinstance(res, Err) or isinstance(composed, Err):
        from cnvlib import params
        build = kw.get('diploid_parx_genome')
        unsupported = build is not None and build.lower() not in params.SUPPORTED_GENOMES_FOR_PAR_HANDLING
        if (unsupported and isinstance(res, Err) and isinstance(composed, Err)
                and res.msg.startswith('AssertionError') and composed.msg.startswith('AssertionError')):
            # an unsupported genome build on the purity path: both refuse; the model must refuse too
            return {'case': case, 'filters': filters, 'tab': tab, 'called': None, 'res': res, 'pre_tab': None, 'kw': kw}
        ck.violation('do_call with filters %r raised: %r / stagewise: %r' % (filters, res, composed), case, code=res,
                     expected=composed, clause='C14_order')
        return
    if not same_table(res, composed):
        ck.violation('do_call(filters=%r) differs from (ci|sem) -> call -> remaining filters in order' % (filters,), case,
                     code=res, expected=composed, clause='C14_order')
        return
    # the whole of do_call: never more rows; without ampdel total probes and total weight are conserved
    ins, outs = dicts(tab), dicts(res)
    if len(outs) > len(ins):
        ck.violation('do_call(filters=%r) returns more rows (%d) than it was given (%d)' % (filters, len(outs), len(ins)),
                     case, code=res, clause='C14_do_call_conserve')
        return
    if 'ampdel' not in filters:
        if sum(o['probes'] for o in outs) != sum(d['probes'] for d in ins) or \
                not vlib.close(sum(o['weight'] for o in outs), sum(Fr(d['weight']) for d in ins)):
            ck.violation('do_call(filters=%r) does not conserve total probes / total weight' % (filters,), case, code=res,
                         clause='C14_do_call_conserve')
            return
    for f, a, b in steps:
        batch.add(f, a, b, cls + ':stage-' + f)
    return {'case': case, 'filters': filters, 'tab': tab, 'called': called, 'res': res,
            'pre_tab': steps[0][2] if pre else tab, 'kw': kw}


def flush_chains(ck, chains):
    chains = [c for c in chains if c and not isinstance(c['res'], Err)]
    if not chains:
        return
    args = [[c['filters'], enc_table(c['tab']), enc_table(c['called'])] for c in chains]
    out = vlib.model_batch_parallel('c14_call_with_filters', args)
    pre = vlib.model_batch_parallel('c14_pre_call', [[c['filters'], enc_table(c['tab'])] for c in chains])
    for c, m, p in zip(chains, out, pre):
        case, fs, tab, called, res, pre_tab = c['case'], c['filters'], c['tab'], c['called'], c['res'], c['pre_tab']
        if isinstance(res, Err):
            continue
        if isinstance(m, Err) or isinstance(p, Err):
            raise RuntimeError('model error on %r' % (case,))
        if any(f == 'sem' and any((lambda x: x is not None and x < Fr(1, 10 ** 12))(sem_margin(d)) for d in dicts(tab))
               for f in fs):
            ck.float_ambiguous += 1
            continue
        d = compare_chain(res, m)
        if d:
            ck.tie_break('model call_with_filters %r differs from do_call: %s' % (fs, d), case, code=res,
                         model=[[vlib.jsonable(x) for x in r] for r in m])
            continue
        d = compare_chain(pre_tab, p)
        if d:
            ck.tie_break('model hands a different table to the calling step for %r: %s' % (fs, d), case, code=pre_tab,
                         model=[[vlib.jsonable(x) for x in r] for r in p])


DEFAULT_THRESHOLDS = (-1.1, -0.25, 0.2, 0.7)


def cfg_of(kw, tab):
    """do_call's keyword arguments -> the model's configuration record"""
    pur = kw.get('purity')
    return [kw.get('method', 'threshold'), int(kw.get('ploidy', 2)), None if pur is None else Fr(pur),
            bool(kw.get('is_haploid_x_reference', False)), bool(kw.get('is_sample_female', False)),
            kw.get('diploid_parx_genome'), [Fr(float(x)) for x in kw.get('thresholds', DEFAULT_THRESHOLDS)],
            'baf' in tab['cols']]


def model_do_call(jobs):
    """jobs: [(cfg, filters, table)] -> [(result rows | None, diag)] from the model of do_call as a whole
    (Model/Segfilters.v do_call_model).  2**x and log2 are oracles: the model names the arguments it
    needs, they are answered with the values the code's own libm gives, and the model is asked again."""
    import numpy as np
    e2 = [dict() for _ in jobs]
    l2 = [dict() for _ in jobs]
    done = [None] * len(jobs)
    encs = [enc_table(t) for (_, _, t) in jobs]
    for _round in range(6):
        todo = [i for i in range(len(jobs)) if done[i] is None]
        if not todo:
            break
        args = [[jobs[i][0], jobs[i][1], encs[i], [[k, v] for k, v in e2[i].items()], [[k, v] for k, v in l2[i].items()]]
                for i in todo]
        out = vlib.model_batch_parallel('c14_do_call', args)
        for i, o in zip(todo, out):
            if isinstance(o, Err):
                raise RuntimeError('c14_do_call failed on %r: %r' % (jobs[i][:2], o))
            if o[0] == 'need':
                for q in o[1]:
                    e2[i][q] = Fr(float(2.0 ** np.float64(float(q))))
                for q in o[2]:
                    l2[i][q] = Fr(float(np.log2(np.float64(float(q)))))
            else:
                done[i] = (o[1], o[2])
    if any(d is None for d in done):
        raise RuntimeError('c14_do_call: the oracle dialogue did not terminate')
    return done


def call_ambiguous(kw, diag, called, filters=()):
    """does a float decision of the calling step sit on a boundary? (rounding of the absolute copy number,
    a threshold comparison of a computed log2, rounding of the major-allele copy number)"""
    ths = [Fr(float(x)) for x in kw.get('thresholds', DEFAULT_THRESHOLDS)]
    computed = kw.get('purity') is not None or any(f in ('ci', 'sem') for f in filters)
    cd = dicts(called) if called is not None and not isinstance(called, Err) else None
    for i, (a, l2) in enumerate(diag):
        if a is not None:
            fracpart = a - math.floor(a)
            if abs(fracpart - Fr(1, 2)) < Fr(1, 10 ** 6):
                return True
            if cd is not None and i < len(cd) and 'baf' in cd[i]:
                b = cd[i]['baf']
                ub = Fr(1) if b is None else abs(Fr(b) - Fr(1, 2)) + Fr(1, 2)
                x = a * ub
                if abs(x - math.floor(x) - Fr(1, 2)) < Fr(1, 10 ** 6):
                    return True
        if kw.get('method', 'threshold') == 'threshold':
            for t in ths:
                d = abs(l2 - t)
                if d < Fr(1, 10 ** 9) and (d != 0 or computed):
                    return True
            # above the last threshold: ceil(ref * 2**log2) -- a product next to an integer is a float decision
            if l2 > ths[-1]:
                e = Fr(2.0 ** float(l2))
                k = int(kw.get('ploidy', 2))
                for r in (k, k // 2):
                    x = r * e
                    d = abs(x - round(x))
                    if d < Fr(1, 10 ** 9) and (d != 0 or computed):
                        return True
    return False


def flush_do_call_model(ck, chains):
    """do_call end to end against Model/Segfilters.v do_call_model (filters + the C01/C02 calling step)"""
    chains = [c for c in chains if c]
    if not chains:
        return
    jobs = [(cfg_of(c['kw'], c['tab']), c['filters'], c['tab']) for c in chains]
    res = model_do_call(jobs)
    for c, (mrows, diag) in zip(chains, res):
        case, code = c['case'], c['res']
        ck.count({'model': case}, nontrivial=len(c['filters']) >= 1, cls='do_call_model:%s' % c['kw'].get('method', 'threshold'))
        if any(f == 'sem' and any((lambda x: x is not None and x < Fr(1, 10 ** 12))(sem_margin(d)) for d in dicts(c['tab']))
               for f in c['filters']):
            ck.float_ambiguous += 1
            continue
        if mrows is None or isinstance(code, Err):
            if not (mrows is None and isinstance(code, Err) and code.msg.startswith('AssertionError')):
                ck.tie_break('model do_call and the code disagree about raising: model %s, code %r'
                             % ('AssertionError' if mrows is None else 'a table', code), case, code=code, model=mrows)
            continue
        if call_ambiguous(c['kw'], diag, c['called'], c['filters']):
            ck.float_ambiguous += 1
            continue
        d = compare_full(code, mrows)
        if d:
            ck.tie_break('model do_call(filters=%r, %r) differs from the code: %s' % (c['filters'], c['kw'], d), case,
                         code=code, model=[[vlib.jsonable(x) for x in r] for r in mrows])


def compare_full(to, m):
    """code table vs model rows on every column the model carries"""
    outs = dicts(to)
    if len(outs) != len(m):
        return 'row count %d vs model %d' % (len(outs), len(m))
    for i, (o, mr) in enumerate(zip(outs, m)):
        md = dict(zip(MODEL_OUT, mr))
        for c in MODEL_OUT:
            if c not in o:
                continue
            if c in ('chromosome', 'gene', 'start', 'end', 'probes'):
                if o[c] != md[c]:
                    return 'row %d %s: %r vs model %r' % (i, c, o[c], md[c])
            elif not vlib.close(o[c], md[c]):
                return 'row %d %s: %r vs model %r' % (i, c, o[c], None if md[c] is None else float(md[c]))
    return None


def compare_chain(to, m):
    outs = dicts(to)
    if len(outs) != len(m):
        return 'row count %d vs model %d' % (len(outs), len(m))
    for i, (o, mr) in enumerate(zip(outs, m)):
        md = dict(zip(MODEL_OUT, mr))
        for c in ('chromosome', 'start', 'end', 'gene', 'probes'):
            if o[c] != md[c]:
                return 'row %d %s: %r vs model %r' % (i, c, o[c], md[c])
        for c in ('log2', 'weight'):
            if not vlib.close(o[c], md[c]):
                return 'row %d %s: %r vs model %r' % (i, c, o[c], float(md[c]))
    return None


# ----------------------------------------------------------------------------
# corpus

def run_corpus(ck, batch):
    path = os.path.join(vlib.VERIF, 'corpus', 'c14.json')
    if not os.path.exists(path):
        return []
    chains = []
    for c in json.load(open(path)):
        tab = {'cols': c['cols'], 'rows': c['rows'], 'index': c.get('index')}
        if 'cn_int' in c:
            tab['cn_int'] = c['cn_int']
        if 'alleles_consistent' in c:
            tab['alleles_consistent'] = c['alleles_consistent']

        def expect_rows(out, want, what):
            if want is not None and not isinstance(out, Err) and len(out['rows']) != want:
                ck.violation('corpus case %r: %s has %d rows, the recorded behaviour is %d' % (c['name'], what, len(out['rows']), want),
                             {'corpus': c['name']}, code=out, clause='C14 corpus')
        if c['kind'] == 'filter':
            out = run_filter(c['filter'], tab)
            expect_rows(out, c.get('expect_rows'), 'the output')
            batch.add(c['filter'], tab, out, 'corpus', compare_oracle=c.get('oracle', True), note=c.get('name'))
        elif c['kind'] == 'twice':
            once = run_filter(c['filter'], tab)
            batch.add(c['filter'], tab, once, 'corpus', note=c.get('name'))
            if not isinstance(once, Err):
                again = run_filter(c['filter'], once)
                batch.add(c['filter'], once, again, 'twice:corpus', note=c.get('name'))
                want = c.get('expect_rows') or [None, None]
                expect_rows(once, want[0], 'the first pass')
                expect_rows(again, want[1], 'the second pass')
                if c['filter'] == 'cn' and c.get('alleles_consistent', True) and not isinstance(again, Err):
                    d = tables_close(again, once)
                    if d:
                        ck.violation('cn applied twice differs from cn applied once: %s' % d, {'corpus': c['name']}, code=again,
                                     expected=once, clause='C14_idempotent_cn')
        elif c['kind'] == 'do_call':
            chains.append(check_do_call(ck, batch, tab, c['filters'], c.get('kw', {}), 'corpus:do_call'))
    return chains


def check_small_functions(ck):
    """enumerate_changes and the weighted median against the code, directly"""
    import numpy as np, pandas as pd
    from cnvlib import segfilters
    from cnvlib.descriptives import weighted_median
    n = 300 if ck.tier == 'quick' else 4000
    cases = []
    for i in range(n):
        k = ck.rng.randint(1, 9)
        cases.append([ck.rng.choice([None, 0.0, 1.0, 2.0, 2.5, 3.0, -1.0]) for _ in range(k)])
    model = vlib.model_batch('c14_enum', [[F(x) for x in c] for c in cases])
    for c, m in zip(cases, model):
        code = [int(x) for x in segfilters.enumerate_changes(pd.Series(c, dtype=float))]
        exp, cnt = [], 0
        for j, x in enumerate(c):
            if j > 0 and not eqv(x, c[j - 1]):
                cnt += 1
            exp.append(cnt)
        ck.count(['enumerate_changes', c], nontrivial=len(set(exp)) > 1, cls='enumerate_changes')
        if code != exp:
            ck.violation('enumerate_changes does not count the level changes', {'levels': c}, code=code, expected=exp,
                         clause='C14_runs')
        elif code != m:
            ck.tie_break('model enumerate_changes differs from the code', {'levels': c}, code=code, model=m)
    cases = []
    for i in range(n):
        k = ck.rng.randint(1, 8)
        mode = ck.rng.choice(['grid', 'grid', 'float', 'one'])
        a = [ck.rng.choice([None, 0.0, 1.0, 2.0, 2.0, 3.0, 5.0, float(ck.rng.randint(0, 9))]) for _ in range(k)]
        w = [gen_weight(ck.rng, mode) for _ in range(k)]
        cases.append((a, w))
    model = vlib.model_batch('c14_wmedian', [[[F(x) for x in a], [Fr(x) for x in w]] for a, w in cases])
    for (a, w), m in zip(cases, model):
        code = float(weighted_median(np.array([float('nan') if x is None else x for x in a]), np.array(w)))
        vals = [x for x in a if x is not None]
        ck.count(['weighted_median', a, w], nontrivial=len(set(vals)) > 1, cls='weighted_median')
        if vals and len(set(vals)) == 1 and code != vals[0]:
            ck.violation('weighted median of equal values is not that value', {'a': a, 'w': w}, code=code, expected=vals[0],
                         clause='C14_conserve')
        elif not vlib.close(code, m):
            if wmedian_ambiguous(a, w) or tie_sensitive(a, w):
                ck.float_ambiguous += 1
            else:
                ck.tie_break('model weighted median differs from the code', {'a': a, 'w': w}, code=code, model=m)


# ----------------------------------------------------------------------------

def run(ck, scratch):
    ck.rule = ('precondition on every table that meets the direct oracle: rows grouped by chromosome, and allele-specific copy numbers as '
               '`call` writes them (cn2 = cn - cn1, or both missing; C02) -- tables breaking either are compared model-vs-code only. '
               'corpus (inputs of repaired defects, the canonical open finding, the witnesses of the _refuted theorems) first; exhaustive: all '
               'level sequences of length <= L over 3 levels x 2 chromosome splits, each table carrying cn, ci, sem columns encoding the same '
               'level sequence (quick: filters in rotation, thorough: all four); random: segment tables with 1..6 contiguous chromosomes, '
               '1..30 rows, gaps, sticky level cells, weights from a dyadic grid / arbitrary floats / all zero, missing '
               'baf/cn1/cn2/p_bintest/ci/sem cells, log2 exactly on the 1.96*sem boundary, default/shifted/permuted/sparse/string index, '
               'every applicable filter; sorted: the same tables with shuffled rows after GenomicArray.sort (contiguity checked, then '
               'filtered); every output row is checked field by field (gene, depth, baf, cn, cn1, cn2, p_bintest, dropped ci/sem columns) '
               'against an exact-arithmetic oracle that is itself cross-checked against the Coq specification functions; a sample of '
               'outputs is filtered a second time (cn: twice = once; ampdel: model vs code; ci/sem: must refuse); do_call: every '
               'admissible filter list (27) x method threshold/clonal/none + every list with purity < 1, random '
               'ploidy/sexes/PAR build/thresholds, against the stagewise composition by the code AND end to end against the model with '
               'the C01/C02 calling step (2**x and log2 supplied by the code\'s libm on the arguments the model asks for); edge: '
               'non-contiguous chromosomes, inverted CIs, inconsistent allele columns (model vs code only). non-trivial = the table has '
               'more than one run and at least one run of more than one row; distinct by case hash')
    ck.exhaustive = True
    ck.explanation = 'exhaustive: true refers to the enumerated level-sequence scope only (coverage.exhaustive_scope)'
    ck.unproved_remainder = [
        'pandas groupby / numpy float summation are outside the model; tied by the correspondence run only',
        'the calling step inside do_call is the C01/C02/C18 model composed with the filters (C14_do_call*); 2**x and np.log2 are oracles '
        'supplied by the harness; VCF-derived baf (variants=...) is C18\'s and not part of the C14 model (the baf column of the table is)',
        'the weighted-median clause of C14_merged_fields is exact up to the code\'s own rounding allowance n*2^-52*W and needs '
        'non-negative weights; range and constancy hold for all weights',
        'tables whose chromosomes are interleaved (possible only through the Python API, never after GenomicArray.sort with '
        'distinguishable names) are merged across chromosomes: C14_interleaved_refuted; the harness compares them model-vs-code only',
        'source ties (C14_source_*): the masked level assignments of ampdel / ci / sem are translated from the function bodies; '
        'squash_region, squash_by_groups, enumerate_changes and the filter loop of do_call are pandas code outside the '
        'function translator and stay tied by fingerprints (tools/genspecs/c14.py) + the correspondence run',
    ]
    if not ck.build_status.get('driver_ok'):
        raise RuntimeError('model driver unavailable')
    quick = ck.tier == 'quick'
    phases = ck.extra.setdefault('phase_s', {})
    t_last = [time.time()]

    def phase(name):
        now = time.time()
        phases[name] = round(phases.get(name, 0) + now - t_last[0], 1)
        t_last[0] = now

    batch = Batch(ck)
    chains = run_corpus(ck, batch)
    batch.flush_all()
    flush_chains(ck, chains)
    flush_do_call_model(ck, chains)
    phase('corpus')
    check_small_functions(ck)
    phase('small')

    # exhaustive scope
    L = 6 if quick else 7
    nex = 0
    for seq, split, tab in exhaustive_tables(L):
        fl = [FILTERS[nex % 4]] if quick else (FILTERS if len(seq) <= 6 else [FILTERS[nex % 4], FILTERS[(nex + 2) % 4]])
        for f in fl:
            batch.add(f, tab, run_filter(f, tab), 'exh:' + f)
        nex += 1
        if len(batch.items) >= 2000:
            batch.flush()
    batch.flush_all()
    phase('exhaustive')
    ck.extra['exhaustive_scope'] = ('all level sequences of length <= %d over 3 levels x 2 chromosome splits: %d tables, %s'
                                    % (L, nex, 'one filter each in rotation' if quick else 'all four filters each up to length 6, two in rotation at length 7'))

    # random valid stream: every applicable filter directly
    nrand = 260 if quick else 5000
    for i in range(nrand):
        need = ck.rng.choice([('cn',), ('cn', 'cn1', 'cn2'), ('ci_lo', 'ci_hi'), ('sem',), ('cn', 'ci_lo', 'ci_hi', 'sem')])
        tab = gen_table(ck.rng, need=need)
        fs = [f for f in FILTERS if all(c in tab['cols'] for c in NEEDS[f])]
        if quick:
            fs = ck.rng.sample(fs, min(2, len(fs)))
        for f in fs:
            batch.add(f, tab, run_filter(f, tab), 'rand:' + f)
        if len(batch.items) >= 2000:
            batch.flush()
    batch.flush_all()
    phase('random')

    # edge stream: model vs code only
    nedge = 60 if quick else 1200
    for i in range(nedge):
        kind = ck.rng.choice(['noncontig', 'inverted-ci', 'alleles-arbitrary', 'negative-sem', 'fractional-cn'])
        tab = gen_table(ck.rng, need=('cn', 'cn1', 'cn2', 'ci_lo', 'ci_hi', 'sem'))
        ci = {c: k for k, c in enumerate(tab['cols'])}
        use_oracle = False
        if kind == 'noncontig':
            ck.rng.shuffle(tab['rows'])
        elif kind == 'inverted-ci':
            for r in tab['rows']:
                if ck.rng.random() < 0.5 and r[ci['ci_lo']] is not None and r[ci['ci_hi']] is not None:
                    r[ci['ci_lo']], r[ci['ci_hi']] = abs(r[ci['ci_hi']]) + 0.1, -abs(r[ci['ci_lo']]) - 0.1
        elif kind == 'alleles-arbitrary':
            for r in tab['rows']:
                r[ci['cn1']] = ck.rng.choice([None, 0.0, 1.0, 2.0, 3.0])
                r[ci['cn2']] = ck.rng.choice([None, 0.0, 1.0, 2.0])
            tab['alleles_consistent'] = False
        elif kind == 'negative-sem':
            for r in tab['rows']:
                if r[ci['sem']] is not None and ck.rng.random() < 0.5:
                    r[ci['sem']] = -r[ci['sem']]
        else:
            for r in tab['rows']:
                r[ci['cn']] = ck.rng.choice([0, 0.5, 1, 1.5, 2, 2.5, 4.5, 5, 5.5, 6, 6.5, 7])
                r[ci['cn1']] = r[ci['cn2']] = None
            tab['cn_int'] = False
            use_oracle = True
        for f in ck.rng.sample(FILTERS, 2):
            batch.add(f, tab, run_filter(f, tab), 'edge:' + kind, compare_oracle=use_oracle)
    batch.flush_all()
    phase('edge')

    # tables as GenomicArray.sort leaves them (C14_sorted_contig): shuffled rows, sorted by the code
    nsort = 50 if quick else 1500
    sort_jobs = []
    for i in range(nsort):
        tab = gen_table(ck.rng, need=ck.rng.choice([('cn',), ('cn', 'cn1', 'cn2'), ('ci_lo', 'ci_hi'), ('sem',)]))
        tab['index'] = None
        ck.rng.shuffle(tab['rows'])
        arr = mk_array(tab)
        arr.sort()
        st = table_of(arr)
        st = {'cols': [c for c in tab['cols']], 'rows': [[d[c] for c in tab['cols']] for d in dicts(st)], 'index': None}
        sort_jobs.append((tab, st))
    sort_model = vlib.model_batch_parallel('c14_sort', [enc_table(t) for t, _ in sort_jobs])
    for (tab, st), sm in zip(sort_jobs, sort_model):
        if isinstance(sm, Err):
            raise RuntimeError('c14_sort failed: %r' % (sm,))
        order, separable = sm
        names = [r[0] for r in st['rows']]
        contig = all(names[i] == names[i - 1] or names[i] not in names[:i] for i in range(1, len(names)))
        case = {'sorted': st}
        ck.count(case, nontrivial=len(set(names)) > 1, cls='sorted:separable' if separable else 'sorted:shared-key')
        if separable and not contig:
            ck.violation('GenomicArray.sort leaves the rows of one chromosome apart although the chromosome names have distinct sort keys',
                         case, code=st, clause='C14_sorted_contig')
            continue
        if [[r[0], r[1], r[2]] for r in st['rows']] != order:
            ck.tie_break('model sort order differs from GenomicArray.sort', case, code=st, model=order)
            continue
        fs = [f for f in FILTERS if all(c in st['cols'] for c in NEEDS[f])]
        for f in ck.rng.sample(fs, 1):
            batch.add(f, st, run_filter(f, st), 'sorted:' + f if contig else 'edge:sorted-interleaved', compare_oracle=contig)
    batch.flush_all()
    phase('sorted')

    # do_call: ordering of the filters, and do_call as a whole against the model with the real calling step
    lists = admissible_filter_lists()
    ck.extra['admissible_filter_lists'] = len(lists)
    chains = []
    combos = [(fs, m, False) for fs in lists for m in ('threshold', 'clonal', 'none')]
    combos += [(fs, ck.rng.choice(['threshold', 'clonal', 'none']), True) for fs in lists]
    reps = 1 if quick else 8
    ck.extra['do_call_combinations'] = ('every admissible filter list (27) x method threshold / clonal / none, plus every list once with '
                                        'purity < 1 (rescaled log2): %d combinations x %d table(s) each' % (len(combos), reps))
    for rep in range(reps):
        for fs, method, with_purity in combos:
            need = set()
            if 'ci' in fs:
                need |= {'ci_lo', 'ci_hi'}
            if 'sem' in fs:
                need.add('sem')
            with_cn = method == 'none' or ck.rng.random() < 0.2
            if with_cn:
                need.add('cn')
            tab = gen_table(ck.rng, need=sorted(need), nchrom=ck.rng.randint(1, 3), nseg=ck.rng.randint(3, 14 if quick else 30))
            if not with_cn:
                for c in ('cn', 'cn1', 'cn2'):
                    if c in tab['cols']:
                        k = tab['cols'].index(c)
                        tab['cols'].pop(k)
                        for r in tab['rows']:
                            r.pop(k)
            if method != 'none' and 'baf' not in tab['cols']:
                # without a baf column do_call rewrites cn but leaves cn1/cn2 as they were: stale alleles are
                # outside the precondition (cn2 = cn - cn1), so such tables carry none
                for c in ('cn1', 'cn2'):
                    if c in tab['cols']:
                        k = tab['cols'].index(c)
                        tab['cols'].pop(k)
                        for r in tab['rows']:
                            r.pop(k)
            kw = {'method': method}
            if with_purity:
                kw['purity'] = ck.rng.choice([0.5, 0.7, 0.9, 0.3])
            elif ck.rng.random() < 0.1:
                kw['purity'] = ck.rng.choice([1.0, 1.5])
            if ck.rng.random() < 0.25:
                kw['ploidy'] = ck.rng.choice([2, 3, 4])
            if ck.rng.random() < 0.25:
                kw['is_haploid_x_reference'] = True
            if ck.rng.random() < 0.25:
                kw['is_sample_female'] = True
            if ck.rng.random() < 0.15:
                kw['diploid_parx_genome'] = ck.rng.choice(['grch38', 'GRCh37', 'grch38', 'hg19'])
            if method == 'threshold' and ck.rng.random() < 0.2:
                kw['thresholds'] = ck.rng.choice([(-1.0, -0.4, 0.3, 0.8), (-2.0, -1.0, -0.3, 0.3, 0.7, 1.1), (0.0,)])
            # make amplifications/deletions likely
            k = tab['cols'].index('log2')
            for r in tab['rows']:
                if ck.rng.random() < 0.4:
                    r[k] = ck.rng.choice([-5.0, -2.0, 1.4, 1.6, 2.0, 1.33] + [float(x) for x in kw.get('thresholds', DEFAULT_THRESHOLDS)])
            # ... and plant like runs separated only by an unlike one (amplified / neutral / amplified, deleted / gain /
            # deleted): the pattern on which the ORDER of ampdel and cn shows
            rows = tab['rows']
            spots = [i for i in range(len(rows) - 2) if rows[i][0] == rows[i + 1][0] == rows[i + 2][0]]
            if spots and ck.rng.random() < 0.8:
                i = ck.rng.choice(spots)
                outer, inner, cno, cni = ck.rng.choice([(2.0, 0.0, 8, 2), (-5.0, 0.4, 0, 3), (1.6, 0.5, 6, 3), (-5.0, 0.0, 0, 2)])
                for j, (l2v, cnv) in zip((i, i + 1, i + 2), ((outer, cno), (inner, cni), (outer, cno))):
                    rows[j][k] = l2v
                    if 'cn' in tab['cols']:
                        rows[j][tab['cols'].index('cn')] = cnv
                        if 'cn1' in tab['cols']:
                            rows[j][tab['cols'].index('cn1')] = float(cnv - cnv // 2)
                            rows[j][tab['cols'].index('cn2')] = float(cnv // 2)
                    for c, v in (('baf', 0.5), ('sem', 0.05), ('ci_lo', l2v - 0.1), ('ci_hi', l2v + 0.1)):
                        if c in tab['cols']:
                            rows[j][tab['cols'].index(c)] = v
            chains.append(check_do_call(ck, batch, tab, fs, kw, 'do_call:%s' % method))
            if len(batch.items) >= 1500:
                batch.flush_all()
                flush_chains(ck, chains)
                flush_do_call_model(ck, chains)
                chains = []
    batch.flush_all()
    flush_chains(ck, chains)
    flush_do_call_model(ck, chains)
    phase('do_call')


def replay(ck, body):
    """re-run a saved case: prints the code's output and the oracle's verdict"""
    case = body.get('case') or {}
    tab = case.get('table')
    if tab is None:
        print(json.dumps(body, indent=1)[:2000])
        return 0
    for r in tab['rows']:
        for i, v in enumerate(r):
            if v == 'NaN':
                r[i] = None
    if 'filter' in case:
        out = run_filter(case['filter'], tab)
        print('code output:', out)
        if isinstance(out, Err):
            return 1
        v, msg, clause = oracle(case['filter'], tab, out)
        print('oracle:', v, msg, clause)
        return 0 if v == 'ok' else 1
    if 'do_call' in case:
        dc = case['do_call']
        out = run_do_call(tab, dc['filters'], dc['kw'])
        print('code output:', out)
        return 0
    return 0
