"""C10 -- results depend only on arguments (not workers, RNG, history); inputs
untouched; output writers that promise not to overwrite keep old files.

Level `other`: (a) Props/C10.v proves the ensure_path discipline completely and
the frame theorems of the pure model (Model/World.v); (b) the refinement "the
Python objects and the global generators behave like that pure model" is runtime
state, validated here by traces: histories of API calls on SHARED argument
objects, with the global numpy/python generators set to arbitrary states
before every call; after every call the result is compared with the same call
computed in a fresh interpreter on pristine objects, and every argument object
is deep-compared with its snapshot (meta cache keys excepted)."""
import os, sys, json, random, subprocess, itertools, copy, time
import vlib
from vlib import Err

LEVEL = 'other'
WORLD_SEED = 77001


# ----------------------------------------------------------------------------
# world of caller-owned argument objects

def build_world(seed=WORLD_SEED):
    import numpy as np, pandas as pd
    from cnvlib.cnary import CopyNumArray as CNA
    from skgenome import GenomicArray as GA
    rng = random.Random(seed)
    w = {}
    # --- bin-level ratios (.cnr): chr1 with a step and a centromere-sized gap, chr2, chrX
    rows = []
    genes = ['GA', 'GA', 'GA', 'GB', 'GB', '-', 'GC', 'GC', 'GC', 'GC', 'Antitarget', 'GD', 'GD']
    def add_chrom(ch, n, level_fn, gap_at=None):
        pos = 10000
        for i in range(n):
            if gap_at is not None and i == gap_at:
                pos += 3000000
            size = rng.choice([200, 250, 300])
            g = genes[(i // 3) % len(genes)]
            log2 = level_fn(i) + rng.gauss(0, 0.05)
            wt = rng.choice([0.5, 0.75, 1.0, 0.9])
            rows.append((ch, pos, pos + size, g + ('' if g in ('-', 'Antitarget') else ch[-1]), round(log2, 6), 2.0 ** log2 * 100, wt))
            pos += size + rng.choice([0, 50, 400])
    add_chrom('chr1', 160, lambda i: 0.0 if i < 70 else -0.9, gap_at=110)
    add_chrom('chr2', 90, lambda i: 0.55 if 30 <= i < 60 else 0.0)
    add_chrom('chrX', 50, lambda i: -1.0)
    cnr = CNA(pd.DataFrame(rows, columns=['chromosome', 'start', 'end', 'gene', 'log2', 'depth', 'weight']),
              {'sample_id': 'S1'})
    w['cnr'] = cnr
    # --- segments (.cns), built by hand over the same bins
    segs = []
    d = cnr.data
    for ch, cuts in (('chr1', [0, 70, 110, 160]), ('chr2', [0, 30, 60, 90]), ('chrX', [0, 50])):
        sub = d[d.chromosome == ch].reset_index(drop=True)
        for a, b in zip(cuts[:-1], cuts[1:]):
            part = sub.iloc[a:b]
            segs.append((ch, int(part.start.iloc[0]), int(part.end.iloc[-1]), ','.join(dict.fromkeys(part.gene)),
                         float(np.average(part.log2, weights=part.weight)), float(part.depth.mean()), b - a,
                         float(part.weight.sum())))
    cns = CNA(pd.DataFrame(segs, columns=['chromosome', 'start', 'end', 'gene', 'log2', 'depth', 'probes', 'weight']),
              {'sample_id': 'S1'})
    w['cns'] = cns
    sm = cns.data.copy()
    sm['ci_lo'] = sm['log2'] - 0.1
    sm['ci_hi'] = sm['log2'] + 0.1
    sm['sem'] = 0.03
    w['cns_sm'] = CNA(sm, {'sample_id': 'S1'})
    # --- coverage tables + reference for fix
    tgt = d[d.gene != 'Antitarget'].reset_index(drop=True)
    anti = d[d.gene == 'Antitarget'].reset_index(drop=True)
    def cov(df, scale):
        out = df[['chromosome', 'start', 'end', 'gene']].copy()
        out['depth'] = [max(0.0, scale * (1 + 0.3 * rng.random())) for _ in range(len(df))]
        out['log2'] = np.log2(out['depth'].clip(lower=2 ** -20))
        return out
    w['tgt_cov'] = CNA(cov(tgt, 120.0), {'sample_id': 'S1'})
    w['anti_cov'] = CNA(cov(anti, 3.0), {'sample_id': 'S1'})
    ref = pd.concat([tgt, anti])[['chromosome', 'start', 'end', 'gene']].copy()
    ref['log2'] = [rng.gauss(0, 0.3) for _ in range(len(ref))]
    ref['depth'] = [50 + 10 * rng.random() for _ in range(len(ref))]
    ref['gc'] = [min(0.69, max(0.31, rng.gauss(0.5, 0.08))) for _ in range(len(ref))]
    ref['rmask'] = [rng.random() * 0.5 for _ in range(len(ref))]
    ref['spread'] = [0.05 + 0.2 * rng.random() for _ in range(len(ref))]
    refarr = CNA(ref.reset_index(drop=True), {'sample_id': 'ref'})
    refarr.sort()
    w['ref'] = refarr
    # --- interval tables
    baits = []
    for ch in ('chr1', 'chr2', 'chrX'):
        pos = 5000
        for i in range(12):
            ln = rng.choice([120, 300, 800, 2500])
            baits.append((ch, pos, pos + ln, 'G%d,%s|x%d' % (i // 2, 'NM_%d' % i, i)))
            pos += ln + rng.choice([-60, 0, 100, 5000, 90000])
    w['baits'] = GA(pd.DataFrame(baits, columns=['chromosome', 'start', 'end', 'gene']))
    w['baits'].sort()
    w['access'] = GA(pd.DataFrame([('chr1', 1000, 4000000), ('chr1', 4200000, 9000000), ('chr2', 0, 5000000),
                                   ('chrX', 2000, 3000000), ('chr9', 0, 700000)], columns=['chromosome', 'start', 'end']))
    a = [(ch, s, s + l, 'a%d' % i) for i, (ch, s, l) in enumerate(
        [('chr1', 0, 50), ('chr1', 20, 100), ('chr1', 30, 10), ('chr1', 200, 50), ('chr2', 5, 10), ('chr2', 15, 10)])]
    b = [(ch, s, s + l) for (ch, s, l) in [('chr1', 10, 15), ('chr1', 12, 5), ('chr1', 90, 200), ('chr3', 0, 10), ('chr2', 0, 7)]]
    w['ga_a'] = GA(pd.DataFrame(a, columns=['chromosome', 'start', 'end', 'gene']))
    w['ga_b'] = GA(pd.DataFrame(b, columns=['chromosome', 'start', 'end']))
    # --- caller-owned plain containers
    w['filters_ci_cn'] = ['ci', 'cn']
    w['filters_sem_ampdel'] = ['sem', 'ampdel', 'cn']
    w['ignore'] = ['-', '.', 'CGH']
    w['thresholds'] = [-1.1, -0.25, 0.2, 0.7]
    w['loc_stats'] = ['mean', 'median', 'mode']
    w['spread_stats'] = ['stdev', 'mad', 'iqr', 'bivar', 'sem', 'mse']
    w['interval_stats'] = ['ci', 'pi']
    # --- heterozygous variants (VariantArray) over the same bins: one SNV in every third bin
    from cnvlib.vary import VariantArray as VA
    vr = []
    for i, r in enumerate(d.itertuples(index=False)):
        if i % 3 == 0:
            f = rng.choice([0.25, 0.3, 0.4, 0.5, 0.6, 0.75])
            dp = rng.choice([30, 40, 60])
            vr.append((r.chromosome, int(r.start) + 5, int(r.start) + 6, 'A', 'G', False, 0.5, dp, int(round(f * dp)), f))
    w['varr'] = VA(pd.DataFrame(vr, columns=['chromosome', 'start', 'end', 'ref', 'alt', 'somatic', 'zygosity', 'depth',
                                             'alt_count', 'alt_freq']), {'sample_id': 'S1'})
    w['chrom_sizes'] = {'chr1': 9000000, 'chr2': 5000000, 'chrX': 3000000}
    w['chrom_sizes_partial'] = {'chr1': 9000000}            # chr2 of ga_a is not listed
    # --- eight chromosomes of two arms each (a centromere-sized gap in the middle), one level per arm
    many = []
    for ci in range(1, 9):
        pos = 10000
        for i in range(110):
            if i == 55:
                pos += 2000000
            many.append(('chr%d' % ci, pos, pos + 200, 'G%d_%d' % (ci, i // 5), (0.4 if i < 55 else -0.3) + rng.gauss(0, 0.02), 50.0, 1.0))
            pos += 250
    w['cnr_many'] = CNA(pd.DataFrame(many, columns=['chromosome', 'start', 'end', 'gene', 'log2', 'depth', 'weight']),
                        {'sample_id': 'S1'})
    # --- the same bins with chrX at the autosomal level: the inferred sex of this sample DIFFERS between a diploid-X and a
    #     haploid-X reference (round-4 seed C10-m11: an answer memoised under one reference setting must not be reused)
    x0 = cnr.data.copy()
    x0.loc[x0.chromosome == 'chrX', 'log2'] += 1.0
    w['cnr_x0'] = CNA(x0, {'sample_id': 'S2'})
    # --- a caller-owned LIST holding one segmentation, for two samples (round-4 seed C10-m12: the list must keep its length)
    w['cnr_pair'] = [w['cnr'], w['cnr_x0']]
    w['cns_list1'] = [w['cns']]
    return w


def make_ops():
    from cnvlib import (target, antitarget, fix, segmentation, segmetrics, call, reports, bintest, metrics, export)

    def seg(method):
        return lambda w, p: segmentation.do_segmentation(w['cnr'], method, processes=p)

    def byarm(w, p):
        return [(k, sub.data) for k, sub in w['cnr'].by_arm()]

    def bygene(w, p):
        return [(k, sub.data) for k, sub in w['cnr'].by_gene(w['ignore'])]

    def center(w, p):
        c = w['cnr'].copy()
        c.center_all()
        return c

    ops = {
        'target': lambda w, p: target.do_target(w['baits'], do_short_names=True, do_split=True, avg_size=400),
        'antitarget': lambda w, p: antitarget.do_antitarget(w['baits'], w['access'], 50000, 2000),
        'antitarget_noaccess': lambda w, p: antitarget.do_antitarget(w['baits'], None, 60000),
        'fix': lambda w, p: fix.do_fix(w['tgt_cov'], w['anti_cov'], w['ref']),
        'fix_nocorr': lambda w, p: fix.do_fix(w['tgt_cov'], w['anti_cov'], w['ref'], do_gc=False, do_edge=False, do_rmask=False),
        'segment_none': seg('none'),
        'segment_haar': seg('haar'),
        'segment_hmm_germline': seg('hmm-germline'),
        'segmetrics': lambda w, p: segmetrics.do_segmetrics(w['cnr'], w['cns'], w['loc_stats'], w['spread_stats'],
                                                           w['interval_stats'], alpha=0.1, bootstraps=50),
        'segmetrics_smoothed': lambda w, p: segmetrics.do_segmetrics(w['cnr'], w['cns'], (), (), ['ci'], alpha=0.2,
                                                                    bootstraps=30, smoothed=True),
        'call_threshold': lambda w, p: call.do_call(w['cns'], method='threshold', thresholds=w['thresholds']),
        'call_clonal_purity': lambda w, p: call.do_call(w['cns'], method='clonal', purity=0.7, ploidy=2),
        'call_filters_ci_cn': lambda w, p: call.do_call(w['cns_sm'], method='threshold', filters=w['filters_ci_cn']),
        'call_filters_sem_ampdel': lambda w, p: call.do_call(w['cns_sm'], method='clonal', filters=w['filters_sem_ampdel']),
        'call_none': lambda w, p: call.do_call(w['cns'], method='none', purity=0.8),
        'genemetrics': lambda w, p: reports.do_genemetrics(w['cnr'], None, 0.2, 2, is_sample_female=True),
        'genemetrics_seg': lambda w, p: reports.do_genemetrics(w['cnr'], w['cns'], 0.2, 2, is_sample_female=True),
        # segments that carry extra columns (segmetrics / call output): gene_metrics_by_segment adds those columns to ITS
        # bin table -- which must be a private copy also in the sex combinations where shift_xx has nothing to shift
        'genemetrics_seg_extra_female': lambda w, p: reports.do_genemetrics(w['cnr'], w['cns_sm'], 0.2, 2, is_sample_female=True),
        'genemetrics_seg_extra_male_hapx': lambda w, p: reports.do_genemetrics(w['cnr'], w['cns_sm'], 0.2, 2,
                                                                              is_haploid_x_reference=True, is_sample_female=False),
        'genemetrics_seg_extra_male': lambda w, p: reports.do_genemetrics(w['cnr'], w['cns_sm'], 0.2, 2, is_sample_female=False),
        'breaks': lambda w, p: reports.do_breaks(w['cnr'], w['cns'], 1),
        'bintest': lambda w, p: bintest.do_bintest(w['cnr'], w['cns'], alpha=0.5),
        'bintest_noseg': lambda w, p: bintest.do_bintest(w['cnr'], None, alpha=0.5, target_only=True),
        'metrics': lambda w, p: metrics.do_metrics(w['cnr'], w['cns']),
        'export_bed': lambda w, p: export.export_bed(w['cns'], 2, False, None, True, 'S1', 'all'),
        'export_vcf': lambda w, p: list(export.export_vcf(w['cns'], 2, False, None, True))[1],
        'export_theta': lambda w, p: export.export_theta(w['cns'], w['ref']),
        'export_nexus': lambda w, p: export.export_nexus_basic(w['cnr']),
        'export_nexus_ogt_minweight': lambda w, p: export.export_nexus_ogt(w['cnr'], w['varr'], 0.8),
        'call_variants_purity': lambda w, p: call.do_call(w['cns'], w['varr'], method='threshold', purity=0.7),
        'baf_by_ranges': lambda w, p: w['varr'].baf_by_ranges(w['cns'], above_half=True),
        'segment_none_variants': lambda w, p: segmentation.do_segmentation(w['cnr'], 'none', variants=w['varr'], processes=p),
        'center_all_copy': center,
        'merge': lambda w, p: w['ga_a'].merge(),
        'merge_custom_combine': lambda w, p: w['ga_a'].merge(combine={'gene': lambda ser: 'LAST:' + str(list(ser)[-1])}),
        'flatten_custom_combine': lambda w, p: w['ga_a'].flatten(combine={'gene': lambda ser: '|'.join(sorted(set(ser)))}),
        'resize_partial_sizes': lambda w, p: w['ga_a'].resize_ranges(7, w['chrom_sizes_partial']),
        'segment_none_many': lambda w, p: segmentation.do_segmentation(w['cnr_many'], 'none', processes=p),
        'flatten': lambda w, p: w['ga_a'].flatten(),
        'subtract': lambda w, p: w['ga_a'].subtract(w['ga_b']),
        'intersection': lambda w, p: w['ga_a'].intersection(w['ga_b'], mode='trim'),
        'subdivide': lambda w, p: w['ga_a'].subdivide(30, 5),
        'resize': lambda w, p: w['ga_a'].resize_ranges(7, w['chrom_sizes']),
        'by_arm': byarm,
        'by_gene': bygene,
        'squash_genes': lambda w, p: w['cnr'].squash_genes(),
        'guess_xx': lambda w, p: w['cnr'].guess_xx(),
        'residuals': lambda w, p: w['cnr'].residuals(w['cns']),
        'smooth_shuffle': lambda w, p: _shuffle_sorted(w),
        # every bin filter off: nothing re-slices the caller's table before the method runs (round-4 seed C10-m10)
        'segment_hmm_nofilter': lambda w, p: segmentation.do_segmentation(w['cnr'], 'hmm', skip_low=False, skip_outliers=0),
        'segment_haar_nofilter': lambda w, p: segmentation.do_segmentation(w['cnr'], 'haar', skip_low=False, skip_outliers=0,
                                                                             processes=p),
        'segment_none_nofilter': lambda w, p: segmentation.do_segmentation(w['cnr'], 'none', skip_low=False, skip_outliers=0,
                                                                             processes=p),
        'guess_xx_x0': lambda w, p: w['cnr_x0'].guess_xx(is_haploid_x_reference=False),
        'guess_xx_x0_hapx': lambda w, p: w['cnr_x0'].guess_xx(is_haploid_x_reference=True),
        'genemetrics_x0': lambda w, p: reports.do_genemetrics(w['cnr_x0'], None, 0.2, 2, is_haploid_x_reference=False),
        'genemetrics_x0_hapx': lambda w, p: reports.do_genemetrics(w['cnr_x0'], None, 0.2, 2, is_haploid_x_reference=True),
        'metrics_pair_list1': lambda w, p: metrics.do_metrics(w['cnr_pair'], w['cns_list1']),
    }
    return ops


def _shuffle_sorted(w):
    c = w['cnr'].copy()
    c.shuffle()
    c.sort()
    return c


PARALLEL_OPS = ('segment_none', 'segment_haar', 'segment_none_many')
CACHE_KEYS = ('chr_x', 'chr_y')


def canon(obj):
    import numpy as np, pandas as pd
    if hasattr(obj, 'data') and isinstance(getattr(obj, 'data'), pd.DataFrame):
        return {'__arr__': type(obj).__name__, 'data': canon(obj.data)}
    if isinstance(obj, pd.DataFrame):
        return {'cols': [str(c) for c in obj.columns],
                'rows': [[canon(x) for x in row] for row in obj.itertuples(index=False, name=None)]}
    if isinstance(obj, pd.Series):
        return [canon(x) for x in obj.tolist()]
    if isinstance(obj, np.ndarray):
        return [canon(x) for x in obj.tolist()]
    if isinstance(obj, (float, np.floating)):
        f = float(obj)
        if f != f:
            return 'NaN'
        return f.hex()
    if isinstance(obj, (bool, np.bool_)):
        return bool(obj)
    if isinstance(obj, (int, np.integer)):
        return int(obj)
    if obj is None or isinstance(obj, str):
        return obj
    if isinstance(obj, dict):
        return {str(k): canon(v) for k, v in sorted(obj.items(), key=lambda kv: str(kv[0]))}
    if isinstance(obj, (list, tuple)) or hasattr(obj, '__iter__'):
        return [canon(x) for x in obj]
    return repr(obj)


def snapshot(w):
    """deep value of every caller-owned object: values, index, dtypes, meta minus cache keys"""
    import pandas as pd
    snap = {}
    for k, v in w.items():
        if hasattr(v, 'data') and isinstance(v.data, pd.DataFrame):
            snap[k] = {'data': canon(v.data), 'index': [canon(i) for i in v.data.index],
                       'dtypes': [str(t) for t in v.data.dtypes],
                       'meta': canon({mk: mv for mk, mv in v.meta.items() if mk not in CACHE_KEYS})}
        else:
            snap[k] = {'value': canon(v), 'type': type(v).__name__}
    return snap


def diff_snap(a, b):
    return [k for k in a if a[k] != b.get(k)]


DERIVED = ('copy', 'as_dataframe', 'subset')


def derive_world(w, variant):
    """A world whose array arguments are DERIVED from those of `w` the way a program derives tables: `copy()` then
    edit, `as_dataframe()` of an edited frame, or a boolean-mask subset.  All three copy `meta` shallowly, so anything
    an earlier call cached on the original object (or in its meta) is shared with the derived one; the values differ
    (log2 moved by 0.25 on every second row; the subset drops every 7th row of the bin / segment tables)."""
    import numpy as np, pandas as pd
    out = dict(w)
    for k, v in w.items():
        if not (hasattr(v, 'data') and isinstance(v.data, pd.DataFrame)):
            continue
        df = v.data.copy()
        if 'log2' in df.columns:
            df['log2'] = df['log2'] + np.where(np.arange(len(df)) % 2 == 0, 0.25, 0.0)
        if variant == 'copy':
            o = v.copy()
            o.data = df
        elif variant == 'as_dataframe':
            o = v.as_dataframe(df)
        else:
            if k in ('cnr', 'cns', 'cns_sm', 'varr'):
                o = v[np.arange(len(v)) % 7 != 3]
            else:
                o = v[np.ones(len(v), dtype=bool)]
        out[k] = o
    return out


def reference_main(out_path):
    """fresh interpreter: every op on its own pristine world"""
    import warnings, logging
    warnings.filterwarnings('ignore')
    logging.disable(logging.CRITICAL)
    ops = make_ops()
    res = {}
    for name, f in ops.items():
        w = build_world()
        try:
            res[name] = canon(f(w, 1))
        except Exception as e:   # noqa
            res[name] = {'__exc__': type(e).__name__ + ': ' + str(e)[:200]}
    # the same ops on worlds derived from a pristine world nothing has been called on
    for variant in DERIVED:
        for name, f in ops.items():
            w = derive_world(build_world(), variant)
            try:
                res['%s@%s' % (name, variant)] = canon(f(w, 1))
            except Exception as e:   # noqa
                res['%s@%s' % (name, variant)] = {'__exc__': type(e).__name__ + ': ' + str(e)[:120]}
    json.dump(res, open(out_path, 'w'))


def first_diff(a, b, path=''):
    if type(a) != type(b):
        return '%s: type %s vs %s' % (path, type(a).__name__, type(b).__name__)
    if isinstance(a, dict):
        for k in a:
            if k not in b:
                return '%s: key %s missing' % (path, k)
            d = first_diff(a[k], b[k], path + '/' + str(k))
            if d:
                return d
        return None if len(a) == len(b) else '%s: extra keys' % path
    if isinstance(a, list):
        if len(a) != len(b):
            return '%s: length %d vs %d' % (path, len(a), len(b))
        for i, (x, y) in enumerate(zip(a, b)):
            d = first_diff(x, y, path + '/%d' % i)
            if d:
                return d
        return None
    return None if a == b else '%s: %r vs %r' % (path, a, b)


def run(ck, scratch):
    import numpy as np
    ck.rule = ('histories of API calls (length <= 4, drawn from %d operations) on shared argument objects; numpy and python '
               'global generators set to an arbitrary state before every call; processes in {1,2,3,16} for the arm-parallel '
               'segmenters; after every call: result == same call in a fresh interpreter on pristine objects, every argument '
               'object deep-equal to its snapshot (values, index, dtypes, meta minus chr_x/chr_y); plus 1..5 repeated '
               'ensure_path+write rounds incl. pre-existing numbered files vs the Coq model. non-trivial = call whose result '
               'is a non-empty table/list; distinct by (history prefix, op, processes). Then every operation once more on '
               'arguments DERIVED (copy()+edit / as_dataframe() / boolean-mask subset, all sharing meta) from the objects the '
               'histories used, compared with the same derivation of pristine objects in the fresh interpreter')
    ck.explanation = ('Props/C10.v: ensure_path discipline proved for every directory state and every number of rounds; frame '
                      'theorems (history independence, argument frame) proved for the pure model. The refinement of the real '
                      'Python objects / global generators / process pools to that model is runtime state and is validated by '
                      'the traces counted in traces_validated_against_impl, not proved.')
    ck.unproved_remainder = ['refinement of Python object state, global RNG state and process scheduling to Model/World.v '
                             '(validated by traces only)', 'os.rename / os.path.isfile semantics (ensure_path is modelled on '
                             'an abstract finite directory)']
    # ---- reference results from a fresh interpreter
    ref_path = os.path.join(scratch, 'ref.json')
    env = vlib.repo_env()
    env['PYTHONPATH'] = vlib.REPO + ':' + os.path.dirname(os.path.abspath(__file__))
    p = subprocess.run([vlib.PY, os.path.abspath(__file__), '--ref', ref_path], env=env, stdout=subprocess.PIPE,
                       stderr=subprocess.STDOUT, timeout=1800)
    if p.returncode != 0:
        raise RuntimeError('reference interpreter failed: ' + p.stdout.decode()[-1500:])
    ref = json.load(open(ref_path))
    bad_ref = {k: v for k, v in ref.items() if '@' not in k and isinstance(v, dict) and '__exc__' in v}
    if bad_ref:
        raise RuntimeError('operations fail on pristine objects (harness/world problem): %r' % bad_ref)
    ops = make_ops()
    names = sorted(ops)
    world = build_world()
    snap0 = snapshot(world)
    traces = 0
    # ---- histories
    histories = []
    # every op at least twice in a row (repeatability), then random histories
    for n in names:
        histories.append([(n, 1), (n, 1)])
    nrand = 60 if ck.tier == 'quick' else 1500
    heavy = {'segment_hmm_germline', 'segment_hmm_nofilter', 'fix', 'segmetrics'}
    for _ in range(nrand):
        L = ck.rng.randint(2, 4)
        h = []
        for _ in range(L):
            n = ck.rng.choice(names)
            if n in heavy and ck.tier == 'quick' and ck.rng.random() < 0.6:
                n = ck.rng.choice(names)
            pr = ck.rng.choice([1, 2, 3, 16] if ck.tier == 'thorough' else [1, 2, 3]) if n in PARALLEL_OPS else 1
            h.append((n, pr))
        histories.append(h)
    if ck.tier == 'thorough':
        for a, b in itertools.product(names, repeat=2):
            histories.append([(a, 1), (b, 1)])
    # make sure 16 processes is exercised at least once in quick as well
    histories.append([('segment_none', 16), ('segment_haar', 2)])
    # sex inferred under one reference setting, then under the other, on the same object (both orders)
    histories.append([('guess_xx_x0', 1), ('guess_xx_x0_hapx', 1), ('genemetrics_x0', 1), ('genemetrics_x0_hapx', 1), ('genemetrics_x0', 1)])
    histories.append([('genemetrics_x0_hapx', 1), ('genemetrics_x0', 1), ('guess_xx_x0_hapx', 1), ('guess_xx_x0', 1)])
    histories.append([('segment_none_many', 2), ('segment_none_many', 3), ('merge_custom_combine', 1), ('merge', 1), ('flatten_custom_combine', 1), ('flatten', 1)])
    for h in histories:
        done = []
        for (n, pr) in h:
            np.random.seed(ck.rng.randrange(2 ** 32))
            random.seed(ck.rng.randrange(2 ** 32))
            case = {'history': done + [[n, pr]]}
            try:
                res = canon(ops[n](world, pr))
            except Exception as e:   # noqa
                res = {'__exc__': type(e).__name__ + ': ' + str(e)[:200]}
            traces += 1
            nontrivial = bool(res) and not (isinstance(res, dict) and '__exc__' in res)
            ck.count(case, nontrivial=nontrivial, cls='op:' + n)
            if res != ref[n]:
                ck.violation('%s returns a different result after history %s (processes=%d) than on pristine arguments in a '
                             'fresh interpreter: %s' % (n, done, pr, first_diff(ref[n], res)), case,
                             clause='C10_history_independent')
            s = snapshot(world)
            if s != snap0:
                changed = diff_snap(snap0, s)
                ck.violation('%s modified its caller-owned argument(s) %s: %s' % (
                    n, changed, first_diff(snap0[changed[0]], s[changed[0]])), case, clause='C10_args_frame')
                world = build_world()     # restore so later steps are judged on their own
            done.append([n, pr])
    # ---- derived arguments: every op was just run (several times) on `world`; now run it on tables derived from
    #      those very objects and compare with the same derivation of a pristine world in the fresh interpreter
    for variant in DERIVED:
        dw = derive_world(world, variant)
        dsnap = snapshot(dw)
        for n in names:
            if ck.tier == 'quick' and n in ('segment_hmm_germline', 'segment_hmm_nofilter') and variant != 'copy':
                continue
            np.random.seed(ck.rng.randrange(2 ** 32))
            random.seed(ck.rng.randrange(2 ** 32))
            case = {'history': 'every operation on the original objects, then %s on arguments derived by %s' % (n, variant)}
            try:
                res = canon(ops[n](dw, 1))
            except Exception as e:   # noqa
                res = {'__exc__': type(e).__name__ + ': ' + str(e)[:120]}
            traces += 1
            ck.count(case, nontrivial=bool(res) and not (isinstance(res, dict) and '__exc__' in res), cls='derived:' + variant)
            want = ref['%s@%s' % (n, variant)]
            if res != want:
                ck.violation('%s on arguments derived (%s) from objects used by earlier calls differs from the same '
                             'derivation of pristine objects in a fresh interpreter: %s' % (n, variant, first_diff(want, res)),
                             case, clause='C10_history_independent')
            s2 = snapshot(dw)
            if s2 != dsnap:
                changed = diff_snap(dsnap, s2)
                ck.violation('%s modified its (derived) caller-owned argument(s) %s' % (n, changed), case, clause='C10_args_frame')
                dw = derive_world(world, variant)
                dsnap = snapshot(dw)
    ck.extra['traces_validated_against_impl'] = traces
    ck.extra['operations'] = names
    ck.rule = ck.rule.replace('%d operations', '%d operations' % len(names))
    # ---- ensure_path rounds
    check_ensure_path(ck, scratch)


def check_ensure_path(ck, scratch):
    import pandas as pd
    from cnvlib import core
    from skgenome import tabio, GenomicArray as GA
    cases = []
    n = 25 if ck.tier == 'quick' else 400
    for i in range(n):
        k = ck.rng.randint(1, 5)
        pre = {}
        if ck.rng.random() < 0.5:
            for j in ck.rng.sample(range(0, 5), ck.rng.randint(1, 3)):
                pre[j] = 'pre%d' % j
        cases.append((pre, ['c%d_%d' % (i, r) for r in range(k)]))
    cases.append(({}, ['a', 'b', 'c']))
    cases.append(({0: 'old', 1: 'x'}, ['new']))
    model = vlib.model_batch('c10_rounds', [[[[j, c] for j, c in sorted(pre.items())], cs] for pre, cs in cases])
    for idx, ((pre, cs), m) in enumerate(zip(cases, model)):
        d = os.path.join(scratch, 'ep%d' % idx, 'sub')     # directory does not exist yet: ensure_path must create it
        p = os.path.join(d, 'out.cnr')
        if pre:
            os.makedirs(d)
            for j, c in pre.items():
                open(p if j == 0 else '%s.%d' % (p, j), 'w').write(c)
        other = os.path.join(os.path.dirname(d), 'bystander.txt')
        os.makedirs(os.path.dirname(d), exist_ok=True)
        open(other, 'w').write('bystander')
        # how the caller spells the path: absolute; a bare file name / "./name" in the working directory; a relative
        # path with a directory part -- the discipline is the same for all of them
        style = ('abs', 'bare', 'dot', 'rel')[idx % 4]
        cwd = os.getcwd()
        try:
            if style in ('bare', 'dot'):
                os.makedirs(d, exist_ok=True)
                os.chdir(d)
                pw = 'out.cnr' if style == 'bare' else './out.cnr'
            elif style == 'rel':
                os.chdir(os.path.dirname(d))
                pw = os.path.join('sub', 'out.cnr')
            else:
                pw = p
            for c in cs:
                core.ensure_path(pw)
                # the real writer: a one-row table whose gene column carries the content marker
                tabio.write(GA(pd.DataFrame([('chr1', 0, 1, c)], columns=['chromosome', 'start', 'end', 'gene'])), pw)
        finally:
            os.chdir(cwd)
        got = {}
        for fn in os.listdir(d):
            body = open(os.path.join(d, fn)).read()
            key = 0 if fn == 'out.cnr' else int(fn.rsplit('.', 1)[1])
            # content marker: either the raw pre-existing text or the gene field of the written table
            got[key] = body if body.startswith('pre') or body in ('old', 'x') else body.strip().split('\n')[-1].split('\t')[3]
        ck.count(['ensure_path', style, pre, cs], nontrivial=len(cs) > 1 or bool(pre), cls='ensure_path')
        # direct oracle: nothing lost, k new files, newest at p, bystander intact
        contents_expected = sorted(list(pre.values()) + cs)
        ok = (sorted(got.values()) == contents_expected and got.get(0) == cs[-1]
              and all(got.get(j) == c for j, c in pre.items() if j != 0)
              and open(other).read() == 'bystander')
        if not ok:
            ck.violation('ensure_path + write lost or overwrote a file (path spelled %s)' % style, {'pre': pre, 'writes': cs, 'style': style}, code=got,
                         clause='C10_no_overwrite')
        elif isinstance(m, Err) or got != {int(j): c for j, c in m}:
            ck.tie_break('model write_rounds differs from the real directory', {'pre': pre, 'writes': cs}, code=got, model=m)


def replay(ck, body):
    print(json.dumps(body, indent=1)[:3000])
    return 0


if __name__ == '__main__':
    if len(sys.argv) == 3 and sys.argv[1] == '--ref':
        reference_main(sys.argv[2])
