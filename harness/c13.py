"""C13 -- access lists exactly the non-N runs, joined and excluded as asked.
Correspondence: cnvlib.access.get_regions / join_regions / do_access and
antitarget.is_canonical_contig_name against the extracted Coq model
(Model/Access.v) and the specification function `runs` (Spec/Runs.v); the
direct oracle for the pipeline is an independent per-base bitmap computation."""
import os, itertools, random
import vlib
from vlib import Err

LEVEL = 'proof'


def py_runs(seq):
    out, start = [], None
    for i, c in enumerate(seq):
        if c == 'N':
            if start is not None:
                out.append((start, i))
                start = None
        elif start is None:
            start = i
    if start is not None:
        out.append((start, len(seq)))
    return out


def wrap(seq, width):
    return [seq[i:i + width] for i in range(0, len(seq), width)]


def write_fasta(path, records, eol='\n'):
    with open(path, 'w', newline='') as fh:
        for name, lines in records:
            fh.write('>' + name + eol)
            for l in lines:
                fh.write(l + eol)


def code_regions(path):
    from cnvlib import access
    res = {}
    order = []
    for chrom, s, e in access.get_regions(path):
        if chrom not in res:
            res[chrom] = []
            order.append(chrom)
        res[chrom].append((int(s), int(e)))
    return res


def rand_seq(rng, maxruns=8, maxlen=200):
    parts = []
    for _ in range(rng.randint(0, maxruns)):
        kind = rng.choice(['N', 'N', 'n', 'ACGT', 'acgt', 'ACGT'])
        k = rng.choice([0, 1, 2, 3, rng.randint(0, 12), rng.randint(0, maxlen)])
        if kind in ('N', 'n'):
            parts.append(kind * k)
        else:
            parts.append(''.join(rng.choice(kind) for _ in range(k)))
    return ''.join(parts)


def scanner_cases(ck, scratch):
    """exhaustive + random scanner cases: (name, lines) records"""
    recs = []
    L = 8 if ck.tier == 'quick' else 12
    widths = range(1, 6)
    n = 0
    for length in range(0, L + 1):
        for tup in itertools.product('NA', repeat=length):
            seq = ''.join(tup)
            for w in widths:
                if w > max(1, length) and w != 1:
                    continue  # same cut as a smaller width
                recs.append(('x%d' % n, wrap(seq, w)))
                n += 1
    # blank lines (skipped by the scanner since fix 784419a): one blank line at every position of every cut
    LB = 5 if ck.tier == 'quick' else 7
    nb = 0
    for length in range(0, LB + 1):
        for tup in itertools.product('NA', repeat=length):
            seq = ''.join(tup)
            for w in (1, 2, 3):
                if w > max(1, length) and w != 1:
                    continue
                lines = wrap(seq, w)
                for p in range(len(lines) + 1):
                    recs.append(('xb%d' % nb, lines[:p] + [''] + lines[p:]))
                    nb += 1
    ck.extra['exhaustive_scope'] = ('all sequences over {N,A} of length <= %d x line widths 1..5: %d records; plus all of length <= %d x '
                                    'widths 1..3 x one blank line at every position: %d records' % (L, n, LB, nb))
    nrand = 400 if ck.tier == 'quick' else 20000
    for i in range(nrand):
        seq = rand_seq(ck.rng)
        w = ck.rng.choice([1, 2, 3, 5, 7, 10, 50, 60, 70, 80, ck.rng.randint(1, 80)])
        # place a line break at/around run boundaries on purpose
        if seq and ck.rng.random() < 0.5:
            rs = py_runs(seq)
            if rs:
                a, b = ck.rng.choice(rs)
                w = max(1, min(80, ck.rng.choice([a, b, b - a, a + 1, b + 1, max(1, b - 1)]) or 1))
        lines = wrap(seq, w)
        if ck.rng.random() < 0.3:     # blank lines anywhere, also several in a row
            for _ in range(ck.rng.randint(1, 3)):
                lines.insert(ck.rng.randint(0, len(lines)), '')
        recs.append(('r%d' % i, lines))
    return recs


def check_scanner(ck, scratch):
    recs = scanner_cases(ck, scratch)
    path = os.path.join(scratch, 'scan.fa')
    write_fasta(path, recs)
    got = code_regions(path)
    model = vlib.model_batch_parallel('c13_regions', [lines for _, lines in recs])
    spec = vlib.model_batch_parallel('c13_runs', [''.join(lines) for _, lines in recs])
    for (name, lines), m, s in zip(recs, model, spec):
        seq = ''.join(lines)
        c = got.get(name, [])
        m = [tuple(x) for x in m]
        s = [tuple(x) for x in s]
        exp = py_runs(seq)
        ck.count(['scan', lines], nontrivial=('N' in seq and len(exp) > 0), cls='scan:%s' % ('exh' if name[0] == 'x' else 'rand'))
        if s != exp:
            raise RuntimeError('Coq spec runs disagrees with the python oracle on %r: %r vs %r' % (seq, s, exp))
        if c != exp:
            ck.violation('get_regions does not return the maximal non-N runs', {'lines': lines},
                         code=c, expected=exp, clause='C13_scan')
        elif c != m:
            ck.tie_break('model regions_of_record differs from get_regions', {'lines': lines}, code=c, model=m)
    # edge stream: CRLF, trailing blanks, blank lines inside a record, lowercase n, header with description
    edge = []
    for i in range(60 if ck.tier == 'quick' else 600):
        seq = rand_seq(ck.rng, 5, 30)
        w = ck.rng.randint(1, 12)
        lines = wrap(seq, w)
        if lines and ck.rng.random() < 0.6:
            lines.insert(ck.rng.randint(0, len(lines)), '')
        edge.append(('e%d some description' % i, lines))
    pth = os.path.join(scratch, 'edge.fa')
    write_fasta(pth, edge, eol='\r\n')
    got = code_regions(pth)
    model = vlib.model_batch('c13_regions', [lines for _, lines in edge])
    for (name, lines), m in zip(edge, model):
        c = got.get(name.split()[0], [])
        m = [tuple(x) for x in m]
        exp = py_runs(''.join(lines))
        ck.count(['scan-crlf', lines], nontrivial=('' in lines and len(exp) > 0), cls='scan:crlf+blank')
        if c != exp:
            ck.violation('get_regions wrong with CRLF line ends / blank lines / a header description',
                         {'lines': lines, 'eol': 'CRLF'}, code=c, expected=exp, clause='C13_scan')
        elif c != m:
            ck.tie_break('model differs from get_regions on the CRLF / blank-line stream', {'lines': lines}, code=c, model=m)


def check_join(ck):
    from cnvlib import access
    from skgenome import GenomicArray as GA
    cases = []
    n = 300 if ck.tier == 'quick' else 6000
    for i in range(n):
        k = ck.rng.randint(1, 8)
        g = ck.rng.choice([0, 1, 2, 3, 5, 10, 50, 300, ck.rng.randint(0, 300)])
        pos = ck.rng.randint(0, 20)
        rows = []
        for _ in range(k):
            ln = ck.rng.randint(1, 40)
            rows.append((pos, pos + ln))
            gap = ck.rng.choice([1, 2, g - 1, g, g + 1, ck.rng.randint(1, 320)])
            if i % 25 == 0 and ck.rng.random() < 0.3:
                gap = ck.rng.choice([0, -1])      # malformed: trips the assertion
            pos = pos + ln + max(gap, -ln + 1) if gap > 0 else pos + ln + gap
        cases.append((g, rows))
    model = vlib.model_batch('c13_join', [[g, [list(r) for r in rows]] for g, rows in cases])
    for (g, rows), m in zip(cases, model):
        ga = GA.from_rows([('chr1', s, e) for s, e in rows])
        try:
            c = [(int(s), int(e)) for _, s, e in access.join_regions(ga, g)]
        except AssertionError:
            c = Err('assert gap > 0')
        mm = m if isinstance(m, Err) else [tuple(x) for x in m]
        wellformed = all(rows[i + 1][0] - rows[i][1] > 0 for i in range(len(rows) - 1))
        ck.count(['join', g, rows], nontrivial=wellformed and len(rows) > 1, cls='join:%s' % ('ok' if wellformed else 'malformed'))
        if wellformed:
            exp = py_join(rows, g)
            if c != exp:
                ck.violation('join_regions does not bridge exactly the gaps smaller than the minimum',
                             {'gap': g, 'rows': rows}, code=c, expected=exp, clause='C13_join')
                continue
        if c != mm:
            ck.tie_break('model join_regions differs from the code', {'gap': g, 'rows': rows}, code=c, model=mm)


def py_join(rows, g):
    out = [list(rows[0])]
    for s, e in rows[1:]:
        if s - out[-1][1] < g:
            out[-1][1] = e
        else:
            out.append([s, e])
    return [tuple(x) for x in out]


NAMES = ['chr1', '1', 'chrX', 'X', 'chrY', 'chrM', 'MT', 'chrMT', 'M', 'chrEBV', 'EBV', 'chrEBV2', 'NC_007605', 'xNC', 'NC',
         'chr1_gl000191_random', 'chr1_random', 'random', '_random', 'chr1_random_x', 'chrUn_gl000211', 'Un_', 'chrUn', 'Un',
         'HLA-A*01:01', 'HLA', 'xHLA-', 'HLA-', 'chr6_GL000250v2_alt', '_alt', 'chr1_alt_x', 'chr6_apd_hap1', 'hap1', 'hapx', 'hap12',
         'chr6_hap', 'chrMx', 'xchrM', 'xMTx', 'Mt', 'mt', 'chrm', 'chr10', 'chr22_KI270879v1_alt', 'GL000192.1', 'KI270728.1',
         'chr11_KI270721v1_random', 'scaffold_1', '', 'N', 'chrN', 'c', 'hap1x', 'xhap9', 'hs37d5', 'NC_random', 'chrEBV_alt']


def check_names(ck):
    from cnvlib.antitarget import is_canonical_contig_name
    names = list(NAMES)
    alphabet = 'chrMTUn_altHLA-EBVNCrandomhap0123456789XYxy.'
    for i in range(300 if ck.tier == 'quick' else 5000):
        base = ck.rng.choice(NAMES)
        s = list(base)
        for _ in range(ck.rng.randint(1, 2)):
            op = ck.rng.randint(0, 2)
            p = ck.rng.randint(0, len(s))
            if op == 0:
                s.insert(p, ck.rng.choice(alphabet))
            elif op == 1 and s:
                del s[min(p, len(s) - 1)]
            elif s:
                s[min(p, len(s) - 1)] = ck.rng.choice(alphabet)
        names.append(''.join(s))
    model = vlib.model_batch('c13_canonical', names)
    for nm, m in zip(names, model):
        c = bool(is_canonical_contig_name(nm))
        ck.count(['name', nm], nontrivial=not c, cls='name:%s' % ('canonical' if c else 'noncanonical'))
        exp = not py_noncanonical(nm)
        if c != exp:
            ck.violation('contig-name rule: %r classified %s' % (nm, c), {'name': nm}, code=c, expected=exp, clause='C13_contigs')
        elif c != m:
            ck.tie_break('model contig-name rule differs from the code', {'name': nm}, code=c, model=m)


def py_noncanonical(nm):
    """the rule of the property text: alt, random, Un, HLA, EBV, mitochondrial (as the package's pattern spells them)"""
    return (nm == 'chrEBV' or nm.startswith('NC') or nm.endswith('_random') or 'Un_' in nm or nm.startswith('HLA-')
            or nm.endswith('_alt') or (len(nm) >= 4 and nm[-4:-1] == 'hap' and nm[-1] in '0123456789') or 'chrM' in nm or 'MT' in nm)


WS_TRAIL = ['', '', '', ' ', '\t', ' \t ', '\x0c', '\x1f']
EOLS = ['\n', '\n', '\r\n', '\r']
SEQ_NAMES = ['chr1', 'chr2', 'chrX', 'chrM', 'chr1_KI270706v1_random', 'chrUn_x', 'chr3_alt', 'chr9', 'chr10', '2', 'MT', 'HLA-A*01:01',
             'chrEBV', 'scaffold>7', 'c']


def cut(rng, seq):
    """cut a sequence into non-empty lines of varying widths (the FASTA line width is not fixed by the property)"""
    if not seq:
        return []
    if rng.random() < 0.5:
        return wrap(seq, rng.choice([1, 2, 3, 5, 7, 10, 50, 60, 70, 80, rng.randint(1, 80)]))
    out, i = [], 0
    while i < len(seq):
        w = rng.choice([1, 2, 3, rng.randint(1, 12), rng.randint(1, 80)])
        out.append(seq[i:i + w])
        i += w
    return out


BLANK_LINES = ['', '', '', ' ', '\t', '  \t', '\x0c']


def render_fasta(rng, recs, eol='\n', final_newline=True, trail=False, mixed_eol=False, blank=False):
    """recs: (name, desc, lines) -> the file's text (well-formed).  blank=True sprinkles blank / white-space-only lines
    anywhere: before the first header, inside sequences, between records, at the end of the file."""
    parts = []

    def blanks(p):
        while blank and rng.random() < p:
            parts.append(rng.choice(BLANK_LINES) + (rng.choice(EOLS) if mixed_eol else eol))

    blanks(0.3)
    for name, desc, lines in recs:
        parts.append('>' + name + desc + (rng.choice(EOLS) if mixed_eol else eol))
        blanks(0.15)
        for l in lines:
            parts.append(l + (rng.choice(WS_TRAIL) if trail else '') + (rng.choice(EOLS) if mixed_eol else eol))
            blanks(0.15)
        blanks(0.3)
    txt = ''.join(parts)
    if not final_newline and txt:
        # drop the last line terminator (a file not ending in a newline)
        txt = txt[:-2] if txt.endswith('\r\n') else txt[:-1]
    return txt


def write_text(path, txt):
    with open(path, 'w', newline='', encoding='ascii') as fh:
        fh.write(txt)


def code_regions_flat(path):
    from cnvlib import access
    try:
        return [(str(c), int(s), int(e)) for c, s, e in access.get_regions(path)]
    except TypeError:      # a sequence line before the first header: cursor is None
        return Err('sequence line before the first header')


def rand_desc(rng):
    return rng.choice(['', '', ' desc', '\tdesc here', ' dna:chromosome  chromosome:GRCh37', '  ', ' >x'])


def py_lines(path):
    """the lines the code iterates over (text mode, universal newlines), terminator removed"""
    with open(path) as fh:
        return [l[:-1] if l.endswith('\n') else l for l in fh]


def mutate_text(rng, txt):
    """malformed / edge FASTA text: blank lines, leading blanks, '>' inside, sequence before the first header ..."""
    for _ in range(rng.randint(1, 3)):
        p = rng.randint(0, len(txt))
        ins = rng.choice(['\n', '\n\n', '\r\n\r\n', ' ', '  \n', '\n ', '>', '\n>', '\n>\n', '\r', '\x0c', 'N', 'n', '\n> chrZ\n', '\nN\n',
                          '\t\n'])
        op = rng.random()
        if op < 0.7:
            txt = txt[:p] + ins + txt[p:]
        elif op < 0.85 and txt:
            q = min(len(txt), p + rng.randint(1, 8))
            txt = txt[:p] + txt[q:]
        else:
            txt = txt.lstrip('>')
    return txt


# blank lines: the failing inputs of the defect fixed in 784419a (an empty region after `N <blank line> N` / `N <blank line> EOF`)
# and blank lines inside a run, before the first header, between records -- with the regions the property demands
CORPUS_VALID_TEXTS = [('>chr1\nNN\n\n', []), ('>chr1\nACN\n\nNGT\n', [('chr1', 0, 2), ('chr1', 4, 6)]),
                      ('>chr1\nACN\n\n>chr2\nNN\n\n', [('chr1', 0, 2)]), ('>chr1\nAC\n\nGT\n', [('chr1', 0, 4)]),
                      ('\n>chr1\nAC\n', [('chr1', 0, 2)]), ('\r\n  \n>chr1\n\nA\n \nCN\n\t\n\n>chr2\n\n', [('chr1', 0, 2)]),
                      ('>chr1\n\n', []), ('\n', []), ('>chr1\nNA\n\nAN\n\n\nNA\n\n', [('chr1', 1, 3), ('chr1', 5, 6)])]
CORPUS_TEXTS = ['', '>chr1', '>chr1\n', 'ACGT\n', '\nACGT\n>chr1\nAC\n',
                '>\nACNGT\n', '> chr1\nACNGT\n', '>chr1\n  ACNGT\nNNA\n', '>chr1\nAC GT\nNNA\n', '>chr1\rACNGT\rNNA\r',
                '>chr1\nAC\x0cNGT\n', '>chr1\nACGT\n>chr2\nAC\n>chr1\nNNAC\n', '>chr1\nA>C\n>\n>chr2 x\nN\n', '>chr1\nACnnGT\nnnNN\nA']


def check_text(ck, scratch):
    """the FASTA text layer: line splitting, header parsing, rstrip, the scanner on the file's text."""
    rng = ck.rng
    # (1) the model's text primitives against the Python built-ins the code calls (infrastructure consistency)
    alphabet = 'ANnac> \t\n\r\x0b\x0c\x1c\x1f\n\r'
    texts = ['', '\n', '\r', '\r\n', '\n\r', 'A', 'A\n', 'A\r\nB', 'A\rB\n', 'A\n\nB', '\r\r\n\n', '>x\r', '>x y\nAN\n']
    for _ in range(300 if ck.tier == 'quick' else 4000):
        texts.append(''.join(rng.choice(alphabet) for _ in range(rng.randint(0, 24))))
    pth = os.path.join(scratch, 'prim.txt')
    for t, m in zip(texts, vlib.model_batch('c13_lines', texts)):
        write_text(pth, t)
        if py_lines(pth) != m:
            raise RuntimeError('Model lines_of differs from text-mode file iteration on %r: %r vs %r' % (t, m, py_lines(pth)))
    singles = [t.replace('\n', '').replace('\r', '') for t in texts]
    for t, m in zip(singles, vlib.model_batch('c13_rstrip', singles)):
        if t.rstrip() != m:
            raise RuntimeError('Model rstrip differs from str.rstrip on %r' % t)
    heads = ['>' + t for t in singles]
    for t, m in zip(heads, vlib.model_batch('c13_header_name', heads)):
        if t.split(None, 1)[0][1:] != m:
            raise RuntimeError('Model header_name differs from line.split(None, 1)[0][1:] on %r' % t)
    ck.extra['text_primitives_checked'] = 3 * len(texts)
    # (2) well-formed FASTA texts: every cut into lines, LF / CRLF / CR, trailing blanks, descriptions, no final newline
    cases = []
    n = 250 if ck.tier == 'quick' else 6000
    for i in range(n):
        recs, exp = [], []
        for j in range(rng.choice([1, 1, 2, 3, 4])):
            name = rng.choice(SEQ_NAMES) if rng.random() < 0.8 else 's%d' % j
            seq = rand_seq(rng, 6, 60 if ck.tier == 'quick' else 200)
            recs.append((name, rand_desc(rng), cut(rng, seq)))
            exp.extend((name, a, b) for a, b in py_runs(seq))
        txt = render_fasta(rng, recs, eol=rng.choice(EOLS), final_newline=rng.random() < 0.7, trail=rng.random() < 0.3,
                           mixed_eol=rng.random() < 0.15, blank=rng.random() < 0.4)
        cases.append((txt, exp, True))
    for t, exp in CORPUS_VALID_TEXTS:
        cases.append((t, exp, True))
    # (3) edge / malformed texts: the model mirrors the code, no oracle
    for i in range(150 if ck.tier == 'quick' else 3000):
        base = cases[rng.randrange(n)][0] if rng.random() < 0.8 else ''.join(rng.choice('ANn> \n\r\t') for _ in range(rng.randint(0, 20)))
        cases.append((mutate_text(rng, base), None, False))
    for t in CORPUS_TEXTS:
        cases.append((t, None, False))
    model = vlib.model_batch_parallel('c13_regions_text', [c[0] for c in cases])
    pth = os.path.join(scratch, 'text.fa')
    for (txt, exp, valid), m in zip(cases, model):
        write_text(pth, txt)
        c = code_regions_flat(pth)
        mm = m if isinstance(m, Err) else [tuple(x) for x in m]
        ck.count(['text', txt], nontrivial=valid and len(exp) > 0, cls='text:%s' % ('wellformed' if valid else 'edge'))
        if valid and c != exp:
            ck.violation('get_regions on a well-formed FASTA text does not return the maximal non-N runs per sequence',
                         {'text': txt}, code=c, expected=exp, clause='C13_text')
        elif c != mm:
            ck.tie_break('model get_regions_text differs from get_regions', {'text': txt}, code=c, model=mm)


def bitmap_expect(seqs, exrows_all, gap, skip):
    """independent per-base oracle: non-N bases not excluded, maximal runs, gaps < gap bridged; sequences in file order"""
    exp = []
    for nm, seq in seqs:
        if skip and py_noncanonical(nm):
            continue
        ok = [c != 'N' for c in seq]
        for rows in exrows_all:
            for (c, lo, hi) in rows:
                if c == nm:
                    for x in range(max(lo, 0), min(hi, len(ok))):
                        ok[x] = False
        rs = py_runs(''.join('A' if b else 'N' for b in ok))
        if rs:
            exp.extend((nm, a, b) for a, b in py_join(rs, gap or 0))
    return exp


def run_access(scratch, txt, exrows_all, gap, skip, tag='p'):
    from cnvlib import access
    fa = os.path.join(scratch, tag + '.fa')
    write_text(fa, txt)
    exfiles = []
    for j, rows in enumerate(exrows_all):
        ex = os.path.join(scratch, '%s_ex%d.bed' % (tag, j))
        with open(ex, 'w') as fh:
            for r in rows:
                fh.write('%s\t%d\t%d\n' % tuple(r))
        exfiles.append(ex)
    try:
        out = access.do_access(fa, exfiles, gap, skip)
        code = [(str(row.chromosome), int(row.start), int(row.end)) for row in out]
    except AssertionError:
        code = Err('assert gap > 0')
    except TypeError:
        code = Err('sequence line before the first header')
    finally:
        os.remove(fa)
        for ex in exfiles:
            os.remove(ex)
    return code


def gen_excludes(rng, names, seqs, extra_names=()):
    exrows_all = []
    for j in range(rng.choice([0, 1, 1, 2, 3])):
        rows = []
        for _ in range(rng.randint(1, 5)):
            nm = rng.choice(names + list(extra_names))
            seq = seqs.get(nm, 'A' * 50)
            L = max(1, len(seq))
            rs = py_runs(seq)
            lo, hi = rng.randint(0, L), None
            if rs and rng.random() < 0.6:
                a, b = rng.choice(rs)
                lo = rng.choice([a, b, max(0, a - 1), a + 1, max(0, b - 1)])
                r = rng.random()
                if r < 0.25:      # removes a whole run
                    lo, hi = rng.choice([(a, b), (max(0, a - 1), b + 1), (a, b + 1), (max(0, a - 2), b)])
                elif r < 0.35:    # leaves nothing
                    lo, hi = 0, L + rng.randint(0, 3)
            if hi is None:
                hi = lo + rng.randint(1, max(1, L // 2))
            rows.append((nm, lo, hi))
            if rng.random() < 0.3:     # nested / overlapping
                lo2 = lo + rng.randint(0, 3)
                rows.append((nm, lo2, max(lo2 + 1, hi - rng.randint(0, 3))))
            if rng.random() < 0.15:    # touching the previous row's end
                rows.append((nm, hi, hi + rng.randint(1, 4)))
        exrows_all.append(rows)
    return exrows_all


def load_corpus():
    import json
    p = os.path.join(vlib.VERIF, 'corpus', 'c13.json')
    return json.load(open(p)) if os.path.exists(p) else []


def check_pipeline(ck, scratch):
    """do_access end to end: against the per-base bitmap oracle and against the model (FASTA text in, table out)."""
    rng = ck.rng
    n = 220 if ck.tier == 'quick' else 3000
    cases = [dict(c, corpus=True) for c in load_corpus()]
    ck.extra['corpus_cases'] = len(cases)
    for i in range(n):
        names = rng.sample(SEQ_NAMES, rng.randint(1, 4))
        recs, seqs = [], {}
        for nm in names:
            seq = rand_seq(rng, 8, 120)
            if rng.random() < 0.1:
                seq = rng.choice(['', 'N' * rng.randint(1, 9), 'A' * rng.randint(1, 9)])
            seqs[nm] = seq
            recs.append((nm, rand_desc(rng), cut(rng, seq)))
        txt = render_fasta(rng, recs, eol=rng.choice(EOLS), final_newline=rng.random() < 0.8, trail=rng.random() < 0.2,
                           blank=rng.random() < 0.3)
        exrows_all = gen_excludes(rng, names, seqs, extra_names=['chr7', 'chrZ'] if rng.random() < 0.3 else ())
        gap = rng.choice([0, 0, 1, 2, 5, 10, 50, 300, None, rng.randint(0, 300)])
        skip = rng.random() < 0.5
        valid = True
        if i % 10 == 9:
            # edge stream: duplicate sequence names / zero-width exclude rows / malformed text -- the model mirrors the code
            valid = False
            r = rng.random()
            if r < 0.4 and len(recs) > 1:
                recs[-1] = (recs[0][0],) + recs[-1][1:]
                txt = render_fasta(rng, recs)
            elif r < 0.7 and exrows_all and exrows_all[0]:
                nm, lo, hi = exrows_all[0][0]
                exrows_all[0].append((nm, lo + 1, lo + 1))
            else:
                txt = mutate_text(rng, txt)
        cases.append({'text': txt, 'seqs': [(nm, seqs[nm]) for nm in names], 'excludes': exrows_all, 'min_gap': gap,
                      'skip_noncanonical': skip, 'valid': valid})
    model = vlib.model_batch_parallel('c13_access_text', [[c['min_gap'], c['skip_noncanonical'], c['text'],
                                                          [[list(r) for r in rows] for rows in c['excludes']]] for c in cases])
    for case, m in zip(cases, model):
        exrows_all = [[tuple(r) for r in rows] for rows in case['excludes']]
        gap, skip, valid = case['min_gap'], case['skip_noncanonical'], case['valid']
        code = run_access(scratch, case['text'], exrows_all, gap, skip)
        mm = m if isinstance(m, Err) else [tuple(x) for x in m]
        exp = bitmap_expect([tuple(x) for x in case['seqs']], exrows_all, gap, skip) if valid else None
        ck.count(['access', case], nontrivial=bool(exp) and bool(exrows_all),
                 cls='pipeline:%s' % ('corpus' if case.get('corpus') else ('%d-excl' % len(exrows_all)) if valid else 'edge'))
        rec = {k: case[k] for k in ('text', 'seqs', 'excludes', 'min_gap', 'skip_noncanonical', 'valid')}
        if valid and isinstance(code, Err):
            ck.violation('do_access raised (%s) on a well-formed input' % code.msg, rec, code=code, expected=exp, clause='C13_pipeline')
        elif valid and code != exp:
            ck.violation('do_access differs from (non-N minus excluded), joined over gaps below the minimum, per sequence in file order',
                         rec, code=code, expected=exp, clause='C13_pipeline/C13_genome')
        elif code != mm:
            ck.tie_break('model do_access_text differs from do_access', rec, code=code, model=mm)


def check_sequence(ck):
    """the model's per-sequence pipeline (access_sequence) against subtract + join_regions of the code on one chromosome."""
    from cnvlib import access
    from skgenome import GenomicArray as GA
    rng = ck.rng
    cases = []
    for i in range(250 if ck.tier == 'quick' else 5000):
        pos, runs = rng.randint(0, 5), []
        for _ in range(rng.randint(0, 6)):
            ln = rng.randint(1, 30)
            runs.append((pos, pos + ln))
            pos += ln + rng.choice([1, 1, 2, 3, rng.randint(1, 40)])
        excls = []
        for _ in range(rng.choice([0, 1, 1, 2, 3])):
            ex = []
            for _ in range(rng.randint(1, 5)):
                if runs and rng.random() < 0.7:
                    a, b = rng.choice(runs)
                    lo = rng.choice([a, a, a - 1, a + 1, b - 1, b, rng.randint(a, b)])
                    hi = rng.choice([b, b, b + 1, b - 1, lo + 1, lo + rng.randint(1, 50)])
                else:
                    lo = rng.randint(0, pos + 2)
                    hi = lo + rng.randint(1, 60)
                lo = max(lo, 0)
                ex.append((lo, max(hi, lo + 1)))
            excls.append(sorted(ex))
        g = rng.choice([0, 1, 2, 3, 5, 10, 50, rng.randint(0, 60)])
        cases.append((g, runs, excls))
    model = vlib.model_batch('c13_sequence', [[g, [list(r) for r in runs], [[list(r) for r in ex] for ex in excls]]
                                              for g, runs, excls in cases])
    for (g, runs, excls), m in zip(cases, model):
        mm = m if isinstance(m, Err) else [tuple(x) for x in m]
        try:
            ga = GA.from_rows([('chr1', s, e) for s, e in runs])
            for ex in excls:
                ga = ga.subtract(GA.from_rows([('chr1', s, e) for s, e in ex]))
            c = [(int(s), int(e)) for _, s, e in access.join_regions(ga, g)]
        except AssertionError:
            c = Err('assert gap > 0')
        L = (runs[-1][1] if runs else 0) + 2
        ok = [False] * L
        for a, b in runs:
            for x in range(a, b):
                ok[x] = True
        for ex in excls:
            for a, b in ex:
                for x in range(a, min(b, L)):
                    ok[x] = False
        rs = py_runs(''.join('A' if b else 'N' for b in ok))
        exp = py_join(rs, g) if rs else []
        ck.count(['sequence', g, runs, excls], nontrivial=bool(excls) and bool(exp), cls='sequence')
        if c != exp:
            ck.violation('subtract + join_regions on one sequence differ from the per-base expectation',
                         {'gap': g, 'runs': runs, 'excls': excls}, code=c, expected=exp, clause='C13_pipeline')
        elif c != mm:
            ck.tie_break('model access_sequence differs from subtract + join_regions', {'gap': g, 'runs': runs, 'excls': excls},
                         code=c, model=mm)


def run(ck, scratch):
    ck.rule = ('scanner: exhaustive {N,A}-sequences x line widths (plus one blank line at every position of the smaller scope) plus '
               'random N/n/ACGT/acgt run sequences with line breaks placed at run boundaries and blank lines sprinkled in; '
               'join_regions: random sorted region lists x gap sizes around the minimum; contig rule: '
               'curated + mutated names; text layer: well-formed FASTA texts (1..4 records, descriptions, sequences cut into lines '
               'of varying widths, LF/CRLF/CR per file or per line, trailing blanks, blank and white-space-only lines before the '
               'first header / inside sequences / between records / at EOF, with/without final newline) against the '
               'per-record maximal-run oracle, plus an edge stream of mutated texts (leading blanks, stray ">", '
               'sequence before the first header) model-vs-code; per-sequence pipeline: random separated runs x 0..3 sorted exclude '
               'tables (touching run edges, removing whole runs, nested) x gap; do_access end to end: random FASTA texts x '
               'exclude BEDs (nested/overlapping/touching/whole-run/everything, chromosomes absent from the FASTA, unsorted file '
               'order) x min_gap in {0, None, 1..300} x skip flag against the per-base bitmap oracle AND the model, every 10th '
               'case from the edge stream (duplicate names, zero-width exclude rows, malformed text) model-vs-code only. '
               'non-trivial = sequence has both N and non-N / >1 region / non-canonical name / excludes present and a non-empty '
               'result; distinct by case hash')
    ck.exhaustive = True
    ck.explanation = 'exhaustive: true refers to the enumerated scanner scope only (coverage.exhaustive_scope)'
    ck.unproved_remainder = [
        'faithfulness of the models to the Python code (generators, pandas groupby/from_records, by_ranges selection of '
        'overlapping exclude rows, tabio.read sorting, text-mode universal newlines, str.rstrip/split): correspondence-checked on '
        'every generated case, tied by the pinned source lines (C13_source_*), not proved',
        'BED parsing of the exclude files (tabio.read "bed3": track/comment lines, extra columns) is outside the model: exclude '
        'tables enter as (chromosome, start, end) rows in file order',
        'FASTA texts outside the well-formed class of C13_text (leading or inner white space in a sequence line, a sequence line '
        'starting with ">", a non-blank sequence line before the first header, duplicate sequence names, non-ASCII bytes): the '
        'model mirrors the code (edge stream), no theorem beyond C13_text_records; blank lines anywhere are inside the class '
        '(skipped since fix 784419a; C13_scan holds for every list of lines)',
        'exclude rows with end <= start: outside the precondition (a zero-width row inside a run trips `assert gap > 0`), '
        'model mirrors the code',
    ]
    if not ck.build_status.get('driver_ok'):
        raise RuntimeError('model driver unavailable')
    check_scanner(ck, scratch)
    check_join(ck)
    check_names(ck)
    check_text(ck, scratch)
    check_sequence(ck)
    check_pipeline(ck, scratch)


def replay(ck, body):
    """re-run one saved case against the current code; exit 1 if it still fails its oracle"""
    import tempfile, json
    case = body.get('case') or {}
    d = tempfile.mkdtemp(prefix='c13replay', dir=vlib.BUILD)
    try:
        if 'lines' in case:
            pth = os.path.join(d, 'r.fa')
            write_fasta(pth, [('r', case['lines'])], eol='\r\n' if case.get('eol') == 'CRLF' else '\n')
            got = code_regions(pth).get('r', [])
            exp = py_runs(''.join(case['lines']))
            print('get_regions ->', got, 'expected', exp)
            bad = got != exp
        elif 'rows' in case:
            from cnvlib import access
            from skgenome import GenomicArray as GA
            rows = [tuple(r) for r in case['rows']]
            got = [(int(s), int(e)) for _, s, e in access.join_regions(GA.from_rows([('chr1', s, e) for s, e in rows]), case['gap'])]
            exp = py_join(rows, case['gap'])
            print('join_regions ->', got, 'expected', exp)
            bad = got != exp
        elif 'name' in case:
            from cnvlib.antitarget import is_canonical_contig_name
            got = bool(is_canonical_contig_name(case['name']))
            exp = not py_noncanonical(case['name'])
            print('is_canonical_contig_name(%r) ->' % case['name'], got, 'expected', exp)
            bad = got != exp
        elif 'text' in case and 'excludes' in case:
            exrows_all = [[tuple(r) for r in rows] for rows in case['excludes']]
            got = run_access(d, case['text'], exrows_all, case['min_gap'], case['skip_noncanonical'])
            if case.get('valid', True) and case.get('seqs') is not None:
                exp = bitmap_expect([tuple(x) for x in case['seqs']], exrows_all, case['min_gap'], case['skip_noncanonical'])
            else:
                m = vlib.model_call('c13_access_text', [case['min_gap'], case['skip_noncanonical'], case['text'],
                                                        [[list(r) for r in rows] for rows in exrows_all]])
                exp = m if isinstance(m, Err) else [tuple(x) for x in m]
            print('do_access ->', got, 'expected', exp)
            bad = got != exp
        elif 'text' in case:
            pth = os.path.join(d, 'r.fa')
            write_text(pth, case['text'])
            got = code_regions_flat(pth)
            exp = body.get('expected')
            if exp is None:
                m = vlib.model_call('c13_regions_text', case['text'])
                exp = m if isinstance(m, Err) else [list(x) for x in m]
            print('get_regions ->', got, 'expected', exp)
            bad = isinstance(got, Err) or json.loads(json.dumps(got)) != json.loads(json.dumps(exp))
        elif 'runs' in case:
            from cnvlib import access
            from skgenome import GenomicArray as GA
            ga = GA.from_rows([('chr1', s, e) for s, e in case['runs']])
            for ex in case['excls']:
                ga = ga.subtract(GA.from_rows([('chr1', s, e) for s, e in ex]))
            got = [[int(s), int(e)] for _, s, e in access.join_regions(ga, case['gap'])]
            exp = body.get('expected')
            print('subtract + join_regions ->', got, 'expected', exp)
            bad = got != json.loads(json.dumps(exp))
        elif 'records' in case:
            from cnvlib import access
            fa = os.path.join(d, 'p.fa')
            write_fasta(fa, [(n, l) for n, l in case['records']])
            exf = []
            for j, rows in enumerate(case['excludes']):
                ex = os.path.join(d, 'ex%d.bed' % j)
                with open(ex, 'w') as fh:
                    for r in rows:
                        fh.write('%s\t%d\t%d\n' % tuple(r))
                exf.append(ex)
            out = access.do_access(fa, exf, case['min_gap'], case['skip_noncanonical'])
            got = {}
            for row in out:
                got.setdefault(row.chromosome, []).append([int(row.start), int(row.end)])
            exp = body.get('expected')
            print('do_access ->', got, 'expected', exp)
            bad = json.loads(json.dumps(got)) != exp
        else:
            print('tie-break / obligation replay (no input case):', body.get('what'))
            bad = True
    finally:
        vlib.rm_scratch(d)
    if bad:
        print('VIOLATION property=C13 replay=(replayed case still fails)')
        return 1
    print('replayed case passes on the current tree')
    return 0
