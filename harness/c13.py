"""C13 -- access lists exactly the non-N runs, joined and excluded as asked.
Correspondence: cnvlib.access.get_regions / join_regions / do_access and
antitarget.is_canonical_contig_name against the extracted Coq model
(Model/Access.v) and the specification function `runs` (Spec/Runs.v); the
direct oracle for the pipeline is an independent per-base bitmap computation."""
import os, itertools, random
import vlib
from vlib import Err

LEVEL = 'proof'


def py_runs(seq):
    out, start = [], None
    for i, c in enumerate(seq):
        if c == 'N':
            if start is not None:
                out.append((start, i))
                start = None
        elif start is None:
            start = i
    if start is not None:
        out.append((start, len(seq)))
    return out


def wrap(seq, width):
    return [seq[i:i + width] for i in range(0, len(seq), width)]


def write_fasta(path, records, eol='\n'):
    with open(path, 'w', newline='') as fh:
        for name, lines in records:
            fh.write('>' + name + eol)
            for l in lines:
                fh.write(l + eol)


def code_regions(path):
    from cnvlib import access
    res = {}
    order = []
    for chrom, s, e in access.get_regions(path):
        if chrom not in res:
            res[chrom] = []
            order.append(chrom)
        res[chrom].append((int(s), int(e)))
    return res


def rand_seq(rng, maxruns=8, maxlen=200):
    parts = []
    for _ in range(rng.randint(0, maxruns)):
        kind = rng.choice(['N', 'N', 'n', 'ACGT', 'acgt', 'ACGT'])
        k = rng.choice([0, 1, 2, 3, rng.randint(0, 12), rng.randint(0, maxlen)])
        if kind in ('N', 'n'):
            parts.append(kind * k)
        else:
            parts.append(''.join(rng.choice(kind) for _ in range(k)))
    return ''.join(parts)


def scanner_cases(ck, scratch):
    """exhaustive + random scanner cases: (name, lines) records"""
    recs = []
    L = 8 if ck.tier == 'quick' else 12
    widths = range(1, 6)
    n = 0
    for length in range(0, L + 1):
        for tup in itertools.product('NA', repeat=length):
            seq = ''.join(tup)
            for w in widths:
                if w > max(1, length) and w != 1:
                    continue  # same cut as a smaller width
                recs.append(('x%d' % n, wrap(seq, w)))
                n += 1
    ck.extra['exhaustive_scope'] = 'all sequences over {N,A} of length <= %d x line widths 1..5: %d records' % (L, n)
    nrand = 400 if ck.tier == 'quick' else 20000
    for i in range(nrand):
        seq = rand_seq(ck.rng)
        w = ck.rng.choice([1, 2, 3, 5, 7, 10, 50, 60, 70, 80, ck.rng.randint(1, 80)])
        # place a line break at/around run boundaries on purpose
        if seq and ck.rng.random() < 0.5:
            rs = py_runs(seq)
            if rs:
                a, b = ck.rng.choice(rs)
                w = max(1, min(80, ck.rng.choice([a, b, b - a, a + 1, b + 1, max(1, b - 1)]) or 1))
        recs.append(('r%d' % i, wrap(seq, w)))
    return recs


def check_scanner(ck, scratch):
    recs = scanner_cases(ck, scratch)
    path = os.path.join(scratch, 'scan.fa')
    write_fasta(path, recs)
    got = code_regions(path)
    model = vlib.model_batch_parallel('c13_regions', [lines for _, lines in recs])
    spec = vlib.model_batch_parallel('c13_runs', [''.join(lines) for _, lines in recs])
    for (name, lines), m, s in zip(recs, model, spec):
        seq = ''.join(lines)
        c = got.get(name, [])
        m = [tuple(x) for x in m]
        s = [tuple(x) for x in s]
        exp = py_runs(seq)
        ck.count(['scan', lines], nontrivial=('N' in seq and len(exp) > 0), cls='scan:%s' % ('exh' if name[0] == 'x' else 'rand'))
        if s != exp:
            raise RuntimeError('Coq spec runs disagrees with the python oracle on %r: %r vs %r' % (seq, s, exp))
        if c != exp:
            ck.violation('get_regions does not return the maximal non-N runs', {'lines': lines},
                         code=c, expected=exp, clause='C13_scan')
        elif c != m:
            ck.tie_break('model regions_of_record differs from get_regions', {'lines': lines}, code=c, model=m)
    # edge stream: CRLF, trailing blanks, blank lines inside a record, lowercase n, header with description
    edge = []
    for i in range(60 if ck.tier == 'quick' else 600):
        seq = rand_seq(ck.rng, 5, 30)
        w = ck.rng.randint(1, 12)
        lines = wrap(seq, w)
        if lines and ck.rng.random() < 0.6:
            lines.insert(ck.rng.randint(0, len(lines)), '')
        edge.append(('e%d some description' % i, lines))
    pth = os.path.join(scratch, 'edge.fa')
    write_fasta(pth, edge, eol='\r\n')
    got = code_regions(pth)
    model = vlib.model_batch('c13_regions', [lines for _, lines in edge])
    for (name, lines), m in zip(edge, model):
        c = got.get(name.split()[0], [])
        m = [tuple(x) for x in m]
        ck.count(['scan-edge', lines], nontrivial=False, cls='scan:edge')
        blank_inside = '' in lines
        exp = py_runs(''.join(lines))
        if not blank_inside and c != exp:
            ck.violation('get_regions wrong with CRLF line ends', {'lines': lines, 'eol': 'CRLF'}, code=c, expected=exp,
                         clause='C13_scan')
        elif c != m:
            ck.tie_break('model differs from get_regions on the edge stream', {'lines': lines}, code=c, model=m)


def check_join(ck):
    from cnvlib import access
    from skgenome import GenomicArray as GA
    cases = []
    n = 300 if ck.tier == 'quick' else 6000
    for i in range(n):
        k = ck.rng.randint(1, 8)
        g = ck.rng.choice([0, 1, 2, 3, 5, 10, 50, 300, ck.rng.randint(0, 300)])
        pos = ck.rng.randint(0, 20)
        rows = []
        for _ in range(k):
            ln = ck.rng.randint(1, 40)
            rows.append((pos, pos + ln))
            gap = ck.rng.choice([1, 2, g - 1, g, g + 1, ck.rng.randint(1, 320)])
            if i % 25 == 0 and ck.rng.random() < 0.3:
                gap = ck.rng.choice([0, -1])      # malformed: trips the assertion
            pos = pos + ln + max(gap, -ln + 1) if gap > 0 else pos + ln + gap
        cases.append((g, rows))
    model = vlib.model_batch('c13_join', [[g, [list(r) for r in rows]] for g, rows in cases])
    for (g, rows), m in zip(cases, model):
        ga = GA.from_rows([('chr1', s, e) for s, e in rows])
        try:
            c = [(int(s), int(e)) for _, s, e in access.join_regions(ga, g)]
        except AssertionError:
            c = Err('assert gap > 0')
        mm = m if isinstance(m, Err) else [tuple(x) for x in m]
        wellformed = all(rows[i + 1][0] - rows[i][1] > 0 for i in range(len(rows) - 1))
        ck.count(['join', g, rows], nontrivial=wellformed and len(rows) > 1, cls='join:%s' % ('ok' if wellformed else 'malformed'))
        if wellformed:
            exp = py_join(rows, g)
            if c != exp:
                ck.violation('join_regions does not bridge exactly the gaps smaller than the minimum',
                             {'gap': g, 'rows': rows}, code=c, expected=exp, clause='C13_join')
                continue
        if c != mm:
            ck.tie_break('model join_regions differs from the code', {'gap': g, 'rows': rows}, code=c, model=mm)


def py_join(rows, g):
    out = [list(rows[0])]
    for s, e in rows[1:]:
        if s - out[-1][1] < g:
            out[-1][1] = e
        else:
            out.append([s, e])
    return [tuple(x) for x in out]


NAMES = ['chr1', '1', 'chrX', 'X', 'chrY', 'chrM', 'MT', 'chrMT', 'M', 'chrEBV', 'EBV', 'chrEBV2', 'NC_007605', 'xNC', 'NC',
         'chr1_gl000191_random', 'chr1_random', 'random', '_random', 'chr1_random_x', 'chrUn_gl000211', 'Un_', 'chrUn', 'Un',
         'HLA-A*01:01', 'HLA', 'xHLA-', 'HLA-', 'chr6_GL000250v2_alt', '_alt', 'chr1_alt_x', 'chr6_apd_hap1', 'hap1', 'hapx', 'hap12',
         'chr6_hap', 'chrMx', 'xchrM', 'xMTx', 'Mt', 'mt', 'chrm', 'chr10', 'chr22_KI270879v1_alt', 'GL000192.1', 'KI270728.1',
         'chr11_KI270721v1_random', 'scaffold_1', '', 'N', 'chrN', 'c', 'hap1x', 'xhap9', 'hs37d5', 'NC_random', 'chrEBV_alt']


def check_names(ck):
    from cnvlib.antitarget import is_canonical_contig_name
    names = list(NAMES)
    alphabet = 'chrMTUn_altHLA-EBVNCrandomhap0123456789XYxy.'
    for i in range(300 if ck.tier == 'quick' else 5000):
        base = ck.rng.choice(NAMES)
        s = list(base)
        for _ in range(ck.rng.randint(1, 2)):
            op = ck.rng.randint(0, 2)
            p = ck.rng.randint(0, len(s))
            if op == 0:
                s.insert(p, ck.rng.choice(alphabet))
            elif op == 1 and s:
                del s[min(p, len(s) - 1)]
            elif s:
                s[min(p, len(s) - 1)] = ck.rng.choice(alphabet)
        names.append(''.join(s))
    model = vlib.model_batch('c13_canonical', names)
    for nm, m in zip(names, model):
        c = bool(is_canonical_contig_name(nm))
        ck.count(['name', nm], nontrivial=not c, cls='name:%s' % ('canonical' if c else 'noncanonical'))
        exp = not py_noncanonical(nm)
        if c != exp:
            ck.violation('contig-name rule: %r classified %s' % (nm, c), {'name': nm}, code=c, expected=exp, clause='C13_contigs')
        elif c != m:
            ck.tie_break('model contig-name rule differs from the code', {'name': nm}, code=c, model=m)


def py_noncanonical(nm):
    """the rule of the property text: alt, random, Un, HLA, EBV, mitochondrial (as the package's pattern spells them)"""
    return (nm == 'chrEBV' or nm.startswith('NC') or nm.endswith('_random') or 'Un_' in nm or nm.startswith('HLA-')
            or nm.endswith('_alt') or (len(nm) >= 4 and nm[-4:-1] == 'hap' and nm[-1] in '0123456789') or 'chrM' in nm or 'MT' in nm)


def check_pipeline(ck, scratch):
    """do_access end to end against the per-base bitmap oracle."""
    from cnvlib import access
    n = 60 if ck.tier == 'quick' else 1500
    for i in range(n):
        nseq = ck.rng.randint(1, 4)
        names = ck.rng.sample(['chr1', 'chr2', 'chrX', 'chrM', 'chr1_KI270706v1_random', 'chrUn_x', 'chr3_alt', 'chr9'], nseq)
        recs, seqs = [], {}
        for nm in names:
            seq = rand_seq(ck.rng, 8, 120)
            seqs[nm] = seq
            recs.append((nm, wrap(seq, ck.rng.randint(1, 80))))
        fa = os.path.join(scratch, 'p%d.fa' % i)
        write_fasta(fa, recs)
        exfiles, exrows_all = [], []
        for j in range(ck.rng.randint(0, 3)):
            rows = []
            for _ in range(ck.rng.randint(1, 5)):
                nm = ck.rng.choice(names)
                L = max(1, len(seqs[nm]))
                rs = py_runs(seqs[nm])
                lo = ck.rng.randint(0, L)
                if rs and ck.rng.random() < 0.5:
                    a, b = ck.rng.choice(rs)
                    lo = ck.rng.choice([a, b, max(0, a - 1), a + 1, max(0, b - 1)])
                hi = lo + ck.rng.randint(1, max(1, L // 2))
                rows.append((nm, lo, hi))
                if ck.rng.random() < 0.3:     # nested / overlapping
                    lo2 = lo + ck.rng.randint(0, 3)
                    rows.append((nm, lo2, max(lo2 + 1, hi - ck.rng.randint(0, 3))))
            ex = os.path.join(scratch, 'p%d_ex%d.bed' % (i, j))
            with open(ex, 'w') as fh:
                for r in rows:
                    fh.write('%s\t%d\t%d\n' % r)
            exfiles.append(ex)
            exrows_all.append(rows)
        gap = ck.rng.choice([0, 1, 2, 5, 10, 50, 300, ck.rng.randint(0, 300)])
        skip = ck.rng.random() < 0.5
        case = {'records': recs, 'excludes': exrows_all, 'min_gap': gap, 'skip_noncanonical': skip}
        # expectation from bitmaps
        exp = {}
        for nm in names:
            if skip and py_noncanonical(nm):
                continue
            seq = seqs[nm]
            ok = [c != 'N' for c in seq]
            for rows in exrows_all:
                for (c, lo, hi) in rows:
                    if c == nm:
                        for x in range(lo, min(hi, len(ok))):
                            ok[x] = False
            rs = py_runs(''.join('A' if b else 'N' for b in ok))
            if rs:
                exp[nm] = py_join(rs, gap)
        try:
            out = access.do_access(fa, exfiles, gap, skip)
            code = {}
            for row in out:
                code.setdefault(row.chromosome, []).append((int(row.start), int(row.end)))
        except Exception as e:   # noqa
            code = Err(type(e).__name__ + ': ' + str(e)[:100])
        nontriv = bool(exp) and bool(exrows_all)
        ck.count(['access', case], nontrivial=nontriv, cls='pipeline:%d-excl' % len(exfiles))
        if isinstance(code, Err):
            if not exp and not any(py_runs(s) for nm, s in seqs.items() if not (skip and py_noncanonical(nm))):
                ck.cls('pipeline:no-regions-error')
                continue   # nothing accessible at all: outside the claim (empty table)
            ck.violation('do_access raised %s' % code.msg, case, code=code, expected=exp, clause='C13_exclude')
        elif code != exp:
            ck.violation('do_access regions differ from non-N minus excluded, joined', case, code=code, expected=exp,
                         clause='C13_exclude/C13_join')
        os.remove(fa)
        for ex in exfiles:
            os.remove(ex)


def run(ck, scratch):
    ck.rule = ('scanner: exhaustive {N,A}-sequences x line widths plus random N/n/ACGT/acgt run sequences with line breaks '
               'placed at run boundaries; join_regions: random sorted region lists x gap sizes around the minimum; contig rule: '
               'curated + mutated names; pipeline: random FASTA x exclude BEDs (nested/overlapping/touching) x gap x skip flag. '
               'non-trivial = sequence has both N and non-N / >1 region / non-canonical name / excludes present; distinct by case hash')
    ck.exhaustive = True
    ck.explanation = 'exhaustive: true refers to the enumerated scanner scope only (coverage.exhaustive_scope)'
    if not ck.build_status.get('driver_ok'):
        raise RuntimeError('model driver unavailable')
    check_scanner(ck, scratch)
    check_join(ck)
    check_names(ck)
    check_pipeline(ck, scratch)


def replay(ck, body):
    """re-run one saved case against the current code; exit 1 if it still fails its oracle"""
    import tempfile, json
    case = body.get('case') or {}
    d = tempfile.mkdtemp(prefix='c13replay', dir=vlib.BUILD)
    try:
        if 'lines' in case:
            pth = os.path.join(d, 'r.fa')
            write_fasta(pth, [('r', case['lines'])], eol='\r\n' if case.get('eol') == 'CRLF' else '\n')
            got = code_regions(pth).get('r', [])
            exp = py_runs(''.join(case['lines']))
            print('get_regions ->', got, 'expected', exp)
            bad = got != exp
        elif 'rows' in case:
            from cnvlib import access
            from skgenome import GenomicArray as GA
            rows = [tuple(r) for r in case['rows']]
            got = [(int(s), int(e)) for _, s, e in access.join_regions(GA.from_rows([('chr1', s, e) for s, e in rows]), case['gap'])]
            exp = py_join(rows, case['gap'])
            print('join_regions ->', got, 'expected', exp)
            bad = got != exp
        elif 'name' in case:
            from cnvlib.antitarget import is_canonical_contig_name
            got = bool(is_canonical_contig_name(case['name']))
            exp = not py_noncanonical(case['name'])
            print('is_canonical_contig_name(%r) ->' % case['name'], got, 'expected', exp)
            bad = got != exp
        elif 'records' in case:
            from cnvlib import access
            fa = os.path.join(d, 'p.fa')
            write_fasta(fa, [(n, l) for n, l in case['records']])
            exf = []
            for j, rows in enumerate(case['excludes']):
                ex = os.path.join(d, 'ex%d.bed' % j)
                with open(ex, 'w') as fh:
                    for r in rows:
                        fh.write('%s\t%d\t%d\n' % tuple(r))
                exf.append(ex)
            out = access.do_access(fa, exf, case['min_gap'], case['skip_noncanonical'])
            got = {}
            for row in out:
                got.setdefault(row.chromosome, []).append([int(row.start), int(row.end)])
            exp = body.get('expected')
            print('do_access ->', got, 'expected', exp)
            bad = json.loads(json.dumps(got)) != exp
        else:
            print('tie-break / obligation replay (no input case):', body.get('what'))
            bad = True
    finally:
        vlib.rm_scratch(d)
    if bad:
        print('VIOLATION property=C13 replay=(replayed case still fails)')
        return 1
    print('replayed case passes on the current tree')
    return 0
