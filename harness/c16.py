"""C16 -- gene-level grouping yields each gene's own bins, each bin exactly once.

Correspondence: CopyNumArray.by_gene / squash_genes, reports.do_genemetrics (with and
without segments) and reports.do_breaks against the extracted Coq model
(Model/Genes.v).  The direct oracle is computed here, independently of both, from
the property text: per chromosome every non-ignored gene owns the bins from its
first to its last bin, all other bins form maximal 'Antitarget' stretches, and the
report rows are the textbook weighted statistics (fractions.Fraction) of exactly
those bins."""
import os, json, itertools
from fractions import Fraction
import numpy as np
import pandas as pd
import vlib
from vlib import Err

LEVEL = 'proof'

# bin tuple layout shared with the model: (chromosome, start, end, gene, log2, weight, depth, probes)
COLS = ['chromosome', 'start', 'end', 'gene', 'log2', 'depth', 'weight', 'probes']
ORDER = [0, 1, 2, 3, 4, 6, 5, 7]          # bin tuple -> COLS order

# literals of the property text (never imported from the package)
IGNORED = ('-', '.', 'CGH')
ANTITARGET = 'Antitarget'
ALIASES = ('Antitarget', 'Background')
LOW_LOG2 = Fraction(-15)                   # "very low coverage": log2 < -20 - (-5), or depth 0


# ----------------------------------------------------------------------------
# building the implementation's objects


def make_cna(bins, index='default'):
    from cnvlib.cnary import CopyNumArray as CNA
    if index == 'filtered':
        # interleave junk rows and filter them out again: the surviving rows keep a holey index
        rows, keep = [], []
        for i, b in enumerate(bins):
            if i % 2 == 0 or i % 5 == 3:
                rows.append((b[0], b[1], b[2], 'JUNK%d' % i, 0.0, 1.0, 1.0, 1))
                keep.append(False)
            rows.append(b)
            keep.append(True)
        rows.append(('chrJ', 0, 10, 'JUNKEND', 0.0, 1.0, 1.0, 1))
        keep.append(False)
        df = pd.DataFrame.from_records([[r[k] for k in ORDER] for r in rows], columns=COLS)
        full = CNA(df, {'sample_id': 's'})
        return full[np.array(keep, dtype=bool)]
    df = pd.DataFrame.from_records([[b[k] for k in ORDER] for b in bins], columns=COLS)
    if not len(bins):
        df = df.astype({'chromosome': str, 'start': int, 'end': int, 'gene': str, 'log2': float, 'depth': float,
                        'weight': float, 'probes': int})
    if index == 'shifted':
        df.index = df.index + 7
    elif index == 'reversed':
        df.index = df.index[::-1]
    return CNA(df, {'sample_id': 's'})


def mrows(bins):
    return [list(b) for b in bins]


# ----------------------------------------------------------------------------
# the direct oracle (property text)


def chrom_blocks(bins):
    """rows per chromosome, chromosomes in order of first appearance"""
    order, d = [], {}
    for b in bins:
        if b[0] not in d:
            d[b[0]] = []
            order.append(b[0])
        d[b[0]].append(b)
    return [(c, d[c]) for c in order]


def gene_spans(crows, ignore):
    """non-ignored gene -> [first, last] position within the chromosome, in order of first occurrence"""
    sp = {}
    for i, b in enumerate(crows):
        for g in b[3].split(','):
            if g in ignore:
                continue
            if g not in sp:
                sp[g] = [i, i]
            else:
                sp[g][1] = i
    return sp


def precondition(crows, ignore):
    """every named gene's bins are consecutive (interrupted only by ignored-name bins): spans pairwise disjoint"""
    prev = -1
    for g, (f, l) in gene_spans(crows, ignore).items():
        if f <= prev:
            return False
        prev = l
    return True


def expected_groups(crows, ignore):
    """each gene exactly its bins first..last; every other bin in a maximal Antitarget stretch (needs precondition)"""
    owner = [None] * len(crows)
    for g, (f, l) in gene_spans(crows, ignore).items():
        for i in range(f, l + 1):
            assert owner[i] is None
            owner[i] = g
    out = []
    for i, b in enumerate(crows):
        if i > 0 and owner[i] == owner[i - 1]:
            out[-1][1].append(b)
        else:
            out.append([ANTITARGET if owner[i] is None else owner[i], [b]])
    return out


def key(b):
    return (b[0], int(b[1]), int(b[2]), b[3])


def x_shift(bins, haploid_x_ref, female):
    """log2 adjustment of the X chromosome: -1 for a female sample on a male (haploid X) reference,
    +1 for a male sample on a female reference"""
    if not bins:
        return bins
    xl = 'chrX' if bins[0][0].startswith('chr') else 'X'
    if female and haploid_x_ref:
        d = -1.0
    elif not female and not haploid_x_ref:
        d = 1.0
    else:
        return bins
    return [(b[0], b[1], b[2], b[3], b[4] + d if b[0] == xl else b[4]) + tuple(b[5:]) for b in bins]


def fr(x):
    return Fraction(x)


def wmean(vals, ws):
    sw = sum(ws)
    return sum(v * w for v, w in zip(vals, ws)) / sw


def group_stats(g, grp, skip_low):
    """the row the property promises for gene g owning bins grp (None for log2 = no usable bin)"""
    ws = [fr(b[5]) for b in grp]
    use = [b for b in grp if not (fr(b[4]) < LOW_LOG2 or b[6] == 0)] if skip_low else grp
    if not use:
        mean = None
    else:
        uw = [fr(b[5]) for b in use]
        if any(w != 0 for w in uw):
            mean = wmean([fr(b[4]) for b in use], uw)
        else:
            mean = sum(fr(b[4]) for b in use) / len(use)
    return {'gene': g, 'chromosome': grp[0][0], 'start': int(grp[0][1]), 'end': int(grp[-1][2]), 'log2': mean,
            'probes': len(grp), 'weight': sum(ws), 'depth': wmean([fr(b[6]) for b in grp], ws) if sum(ws) != 0 else None}


def gene_rows(bins, skip_low):
    """per chromosome, per named gene (not ignored, not empty): its statistics over its own bins first..last"""
    out = []
    ign = IGNORED + ALIASES
    for c, crows in chrom_blocks(bins):
        for g, (f, l) in gene_spans(crows, ign).items():
            if g == '':
                continue
            out.append(group_stats(g, crows[f:l + 1], skip_low))
    return out


def expected_genemetrics(case):
    bins = x_shift(case['bins'], case['haploid_x_ref'], case['female'])
    th, mp, skip_low = fr(case['threshold']), case['min_probes'], case['skip_low']
    if not case.get('segments'):
        rows = [r for r in gene_rows(bins, skip_low)
                if r['log2'] is not None and abs(r['log2']) >= th and r['probes'] >= mp]
        return rows
    segs = x_shift(case['segments'], case['haploid_x_ref'], case['female'])
    out = []
    for c, srows in chrom_blocks(segs):
        crows = [b for b in bins if b[0] == c]
        for s in srows:
            if not (abs(fr(s[4])) >= th):
                continue
            if mp and s[7] < mp:
                continue
            inside = [b for b in crows if b[1] < s[2] and b[2] > s[1]]
            for r in gene_rows(inside, skip_low):
                r['log2'] = fr(s[4])
                r['segment_weight'] = fr(s[5])
                r['segment_probes'] = int(s[7])
                out.append(r)
    return out


def expected_squash(bins, ignore, squash_antitarget):
    out = []
    for c, crows in chrom_blocks(bins):
        for label, grp in expected_groups(crows, tuple(ignore) + ALIASES):
            if label in ALIASES and not squash_antitarget:
                out.extend((b[0], int(b[1]), int(b[2]), b[3], int(b[7])) for b in grp)
            elif len(grp) == 1:
                b = grp[0]
                out.append((b[0], int(b[1]), int(b[2]), b[3], int(b[7])))
            else:
                out.append((c, int(grp[0][1]), int(grp[-1][2]), label, sum(int(b[7]) for b in grp)))
    return out


def expected_breaks(bins, segs, min_probes):
    """(gene, chromosome, boundary, left, right, change) for every gene with >= min_probes bin starts on each side of
    the boundary between two consecutive segments of one chromosome"""
    ign = IGNORED + ALIASES
    out = []
    for i in range(len(segs) - 1):
        cur, nxt = segs[i], segs[i + 1]
        if cur[0] != nxt[0]:
            continue
        e = cur[2]
        starts = {}
        for b in bins:
            if b[0] == cur[0] and b[3] not in ign:
                starts.setdefault(b[3], []).append(b[1])
        for g, ss in starts.items():
            left = sum(1 for s in ss if s < e)
            right = sum(1 for s in ss if s >= e)
            if left >= min_probes and right >= min_probes:
                out.append((g, cur[0], int(e), left, right, fr(nxt[4]) - fr(cur[4])))
    return out


# ----------------------------------------------------------------------------
# running the implementation


def code_by_gene(cna, ignore):
    out = []
    it = cna.by_gene() if ignore is None else cna.by_gene(ignore)
    for label, sub in it:
        out.append([label, [(r.chromosome, int(r.start), int(r.end), r.gene) for r in sub]])
    return out


def code_genemetrics(case):
    from cnvlib import reports
    cna = make_cna(case['bins'], case['index'])
    kw = {}
    for k_case, k_code in (('threshold', 'threshold'), ('min_probes', 'min_probes'), ('skip_low', 'skip_low')):
        if not case.get('defaults'):
            kw[k_code] = case[k_case]
    segs = make_cna(case['segments'], 'default') if case.get('segments') is not None else None
    try:
        t = reports.do_genemetrics(cna, segs, is_haploid_x_reference=case['haploid_x_ref'],
                                   is_sample_female=case['female'], **kw)
    except ZeroDivisionError:
        return Err('ZeroDivisionError')
    rows = []
    for r in t.itertuples(index=False):
        d = {'gene': r.gene, 'chromosome': r.chromosome, 'start': int(r.start), 'end': int(r.end), 'log2': float(r.log2),
             'probes': int(r.probes), 'weight': float(r.weight), 'depth': float(r.depth)}
        if hasattr(r, 'segment_probes'):
            d['segment_weight'] = float(r.segment_weight)
            d['segment_probes'] = int(r.segment_probes)
        rows.append(d)
    return rows


def code_squash(cna, ignore, squash_antitarget):
    kw = {}
    if ignore is not None:
        kw['ignore'] = ignore
    if squash_antitarget is not None:
        kw['squash_antitarget'] = squash_antitarget
    out = cna.squash_genes(**kw)
    return [(r.chromosome, int(r.start), int(r.end), r.gene, int(r.probes)) for r in out]


def code_breaks(case):
    from cnvlib import reports
    cna = make_cna(case['bins'], case['index'])
    segs = make_cna(case['segments'], 'default')
    if case.get('defaults'):
        t = reports.do_breaks(cna, segs)
    else:
        t = reports.do_breaks(cna, segs, case['min_probes'])
    return [(r.gene, r.chromosome, int(r.location), int(r.probes_left), int(r.probes_right), float(r.change))
            for r in t.itertuples(index=False)]


def run_by_gene(case):
    try:
        return code_by_gene(make_cna(case['bins'], case['index']), case['ignore'])
    except Exception as e:      # noqa
        return Err(type(e).__name__ + ': ' + str(e)[:80])


def run_squash(case):
    try:
        return code_squash(make_cna(case['bins'], case['index']), case['ignore'], case['squash_antitarget'])
    except Exception as e:      # noqa
        return Err(type(e).__name__ + ': ' + str(e)[:80])


def run_genemetrics(case):
    try:
        return code_genemetrics(case)
    except Exception as e:      # noqa
        return Err(type(e).__name__ + ': ' + str(e)[:80])


def run_breaks(case):
    try:
        return code_breaks(case)
    except Exception as e:      # noqa
        return Err(type(e).__name__ + ': ' + str(e)[:80])


def run_gene_map(case):
    gm = make_cna(case['bins'], 'default')._get_gene_map()
    return [(g, int(ix[0]), int(ix[-1])) for g, ix in gm.items()]


def pmap(fn, items, workers=6):
    """run the implementation on every case, in order, over forked worker processes (the code is pure here)"""
    if len(items) < 48 or os.environ.get('VERIF_SERIAL'):
        return [fn(x) for x in items]
    import multiprocessing as mp
    with mp.get_context('fork').Pool(workers) as pool:
        return pool.map(fn, items, chunksize=max(1, len(items) // (workers * 8)))


# ----------------------------------------------------------------------------
# generators


def dy(rng, lo, hi, den):
    return rng.randint(int(lo * den), int(hi * den)) / den


GAPNAMES = ['Antitarget', 'Antitarget', '-', '.', 'CGH', 'Background']


def gen_values(rng, th, low=True):
    """log2 (dyadic, biased to +-threshold and the low-coverage cut), weight, depth"""
    r = rng.random()
    # boundary values are kept exactly representable with few bits (k/64) so that the code's float sums are exact and
    # a mean landing exactly on a dyadic threshold is decided alike in float and in Q; for 0.2 the nearest k/64 are used
    # (and, rarely, the float 0.2 itself: such cases are float-ambiguous when a mean lands within 1e-7 of it)
    thd = th if th * 64 == int(th * 64) or rng.random() < 0.03 else round(th * 64) / 64
    if r < 0.25:
        l = rng.choice([thd, -thd])
    elif r < 0.35:
        l = rng.choice([thd, -thd]) + rng.choice([-1, 1]) / 64
    elif low and r < 0.45:
        l = rng.choice([-15.0, -15.015625, -14.984375, -20.0, -16.5])
    else:
        l = dy(rng, -2, 2, 64)
    w = rng.choice([1.0, 0.5, 0.25, dy(rng, 0.0625, 1.5, 16)])
    d = rng.choice([0.0, dy(rng, 0.25, 60, 4), dy(rng, 0.25, 60, 4), dy(rng, 0.25, 60, 4)]) if low else dy(rng, 0.25, 60, 4)
    return l, w, d


def gen_table(rng, th=0.25, nchrom=None, maxgenes=12, names_style=None, low=True, edge=False):
    """bins of 1..5 chromosomes, 0..12 genes of 1..10 bins, interleaved Antitarget/-/./CGH bins anywhere incl.
    chromosome ends and single trailing bins; edge=True additionally breaks the precondition on purpose
    (comma names shared by two genes, interleaved genes, repeated names, empty names)"""
    style = names_style or rng.choice(['chr', 'plain'])
    chroms = ['chr1', 'chr2', 'chrX', 'chr7', 'chrY'] if style == 'chr' else ['1', '2', 'X', '7', 'Y']
    if rng.random() < 0.3:
        rng.shuffle(chroms)
    k = nchrom or rng.choice([1, 1, 2, 2, 3, 4, 5])
    chroms = chroms[:k]
    ngenes = rng.choice([0, 1, 2, 3, rng.randint(0, maxgenes), rng.randint(0, maxgenes)])
    per = [0] * k
    for _ in range(ngenes):
        per[rng.randrange(k)] += 1
    bins, gid = [], 0
    for c, ng in zip(chroms, per):
        names = []

        def gap(maxn):
            n = rng.choice([0, 0, 1, 1, 2, rng.randint(0, maxn)])
            nm = rng.choice(GAPNAMES)
            for _ in range(n):
                names.append(nm if rng.random() < 0.7 else rng.choice(GAPNAMES))
        gap(4)
        for _ in range(ng):
            g = 'G%d' % gid
            gid += 1
            nb = rng.choice([1, 1, 2, 3, rng.randint(1, 10)])
            for j in range(nb):
                nm = g
                if rng.random() < 0.06:
                    nm = rng.choice([g + ',-', '-,' + g, g + ',Antitarget', g + ',' + g])
                names.append(nm)
                if j < nb - 1 and rng.random() < 0.15:      # ignored-name bins inside a gene
                    for _ in range(rng.randint(1, 2)):
                        names.append(rng.choice(GAPNAMES))
            gap(3)
        if not names and rng.random() < 0.7:
            names.append(rng.choice(GAPNAMES))
        if edge and names:
            for _ in range(rng.randint(1, 3)):
                op = rng.randint(0, 4)
                p = rng.randrange(len(names))
                q = rng.randrange(len(names))
                if op == 0:
                    names[p] = names[p] + ',' + names[q]
                elif op == 1:
                    names[p], names[q] = names[q], names[p]
                elif op == 2:
                    names[p] = rng.choice(['', 'G0', 'G1', ',', 'G0,G1', 'X,', ',-'])
                elif op == 3:
                    names.insert(p, names[q])
                else:
                    names[p] = names[q]
        pos = rng.choice([0, 0, rng.randint(0, 5000)])
        for nm in names:
            ln = rng.randint(20, 300)
            l, w, d = gen_values(rng, th, low)
            bins.append((c, pos, pos + ln, nm, l, w, d, rng.choice([1, 1, 1, rng.randint(0, 9)])))
            pos += ln + rng.choice([0, 0, rng.randint(1, 400)])
    return bins


def gen_segments(rng, bins, th):
    """segments tiling each chromosome (mostly): boundaries on bin ends / in the gaps between bins, sometimes inside
    a bin (breaks only), a chromosome sometimes left out or added"""
    segs = []
    blocks = chrom_blocks(bins)
    for c, crows in blocks:
        if rng.random() < 0.08:
            continue
        n = len(crows)
        nseg = rng.choice([1, 1, 2, 2, 3, rng.randint(1, max(1, min(6, n)))])
        cuts = sorted(set(rng.sample(range(1, n), min(nseg - 1, n - 1)))) if n > 1 else []
        idx = [0] + cuts + [n]
        for a, b in zip(idx[:-1], idx[1:]):
            s = crows[a][1]
            e = crows[b - 1][2]
            if b < n and rng.random() < 0.3:
                e = rng.randint(crows[b - 1][2], crows[b][1])       # anywhere in the gap up to the next bin's start
            if a > 0 and rng.random() < 0.3:
                s = rng.randint(segs[-1][2], crows[a][1]) if segs and segs[-1][0] == c else s
            r = rng.random()
            l = rng.choice([th, -th]) if r < 0.3 else (rng.choice([th, -th]) + rng.choice([-1, 1]) / 64 if r < 0.4 else dy(rng, -2, 2, 64))
            segs.append((c, s, e, rng.choice(['-', 'G0', 'x,y']), l, dy(rng, 0.0625, 20, 16), dy(rng, 0, 60, 4),
                         rng.choice([b - a, b - a, rng.randint(0, 12)])))
    if rng.random() < 0.06:
        segs.append(('chr9' if blocks and blocks[0][0].startswith('chr') else '9', 0, 1000, '-', 1.0, 1.0, 1.0, 5))
    return segs


def gen_break_segments(rng, bins):
    """segments whose boundaries fall anywhere: bin starts / ends, inside bins, in gaps"""
    segs = []
    for c, crows in chrom_blocks(bins):
        lo, hi = crows[0][1], crows[-1][2]
        pts = set()
        for _ in range(rng.choice([0, 1, 1, 2, 3, 5])):
            b = rng.choice(crows)
            pts.add(rng.choice([b[1], b[2], b[1] + 1, b[2] - 1, rng.randint(b[1], b[2]), rng.randint(lo, hi)]))
        pts = sorted(p for p in pts if lo < p < hi)
        edges = [lo] + pts + [hi]
        for s, e in zip(edges[:-1], edges[1:]):
            if rng.random() < 0.1 and e - s > 2:
                e2 = rng.randint(s + 1, e)       # a gap between consecutive segments
            else:
                e2 = e
            segs.append((c, s, e2, '-', dy(rng, -2, 2, 64) if rng.random() < 0.8 else rng.choice([0.5, -0.5]),
                         1.0, 1.0, rng.randint(1, 9)))
    return segs


# ----------------------------------------------------------------------------
# checks


def names_table(chroms, th=0.25, vary=0):
    """bins from [(chromosome, [names])] with deterministic values"""
    bins = []
    for c, names in chroms:
        pos = 100
        for i, nm in enumerate(names):
            l = [0.5, -0.5, 0.25, 0.75, -1.0][(i + vary) % 5]
            w = [1.0, 0.5, 0.75][(i + vary) % 3]
            bins.append((c, pos, pos + 50, nm, l, w, 10.0 + i, 1))
            pos += 60
    return bins


def check_by_gene(ck, cases, cls):
    """cases: dicts with bins, index, ignore (None = default)"""
    minputs = [[c['ignore'], mrows(c['bins'])] for c in cases]
    model = vlib.model_batch_parallel('c16_by_gene', minputs)
    codes = pmap(run_by_gene, cases)
    for case, m, code in zip(cases, model, codes):
        bins = case['bins']
        ign = tuple(IGNORED if case['ignore'] is None else case['ignore']) + ALIASES
        blocks = chrom_blocks(bins)
        pre = all(precondition(crows, ign) for _, crows in blocks)
        ngenes = sum(len(gene_spans(crows, ign)) for _, crows in blocks)
        ck.count(['by_gene', case], nontrivial=pre and ngenes > 0, cls='%s:by_gene:%s' % (cls, 'pre' if pre else 'nopre'))
        mm = m if isinstance(m, Err) else [[g, [tuple(k) for k in ks]] for g, ks in m]
        if pre:
            exp = []
            for c, crows in blocks:
                exp.extend([lab, [key(b) for b in grp]] for lab, grp in expected_groups(crows, ign))
            if code != exp:
                ck.violation('by_gene does not yield each gene\'s bins first..last and the maximal Antitarget stretches, '
                             'each bin exactly once', case, code=code, expected=exp, clause='C16_partition')
                continue
        if code != mm:
            ck.tie_break('model by_gene differs from the code', case, code=code, model=mm)


def cmp_rows(code, exp, exact_keys, float_keys):
    """'' when equal, else a description"""
    if isinstance(code, Err):
        return 'code raised %s' % code.msg
    if len(code) != len(exp):
        return 'row count %d, expected %d' % (len(code), len(exp))
    for i, (c, e) in enumerate(zip(code, exp)):
        for k in exact_keys:
            if k in e or k in c:
                if c.get(k) != e.get(k):
                    return 'row %d: %s = %r, expected %r' % (i, k, c.get(k), e.get(k))
        for k in float_keys:
            if k in e or k in c:
                if e.get(k) is None and k == 'depth':
                    continue
                if not vlib.close(c.get(k), e.get(k)):
                    return 'row %d: %s = %r, expected %r' % (i, k, c.get(k), e.get(k))
    return ''


GM_EXACT = ('gene', 'chromosome', 'start', 'end', 'probes', 'segment_probes')
GM_FLOAT = ('log2', 'weight', 'depth', 'segment_weight')


def grow_to_dict(r, with_seg):
    d = {'gene': r[0], 'chromosome': r[1], 'start': r[2], 'end': r[3], 'log2': r[4], 'depth': r[5], 'weight': r[6],
         'probes': r[7]}
    if with_seg:
        d['segment_weight'] = r[8]
        d['segment_probes'] = r[9]
    return d


def check_genemetrics(ck, cases, cls):
    def minput(c, th, mp):
        return [mrows(c['bins']), None if c.get('segments') is None else mrows(c['segments']),
                th, mp, None if c.get('defaults') else c['skip_low'], c['haploid_x_ref'], c['female']]
    model = vlib.model_batch_parallel('c16_genemetrics', [
        minput(c, None if c.get('defaults') else c['threshold'], None if c.get('defaults') else c['min_probes']) for c in cases])
    allrows = vlib.model_batch_parallel('c16_genemetrics', [minput(c, 0, 0) for c in cases])
    codes = pmap(run_genemetrics, cases)
    for case, m, ungated, code in zip(cases, model, allrows, codes):
        bins = case['bins']
        with_seg = bool(case.get('segments'))
        ign = IGNORED + ALIASES
        blocks = chrom_blocks(bins)
        pre = all(precondition(crows, ign) for _, crows in blocks)
        sorted_ok = all(crows[i][2] <= crows[i + 1][1] for _, crows in blocks for i in range(len(crows) - 1))
        zero_w = any(r['depth'] is None for r in gene_rows(bins, False))
        exp = expected_genemetrics(case)
        ck.count(['genemetrics', case], nontrivial=pre and len(exp) > 0,
                 cls='%s:genemetrics:%s:%s' % (cls, 'seg' if with_seg else 'gene', 'pre' if pre else 'nopre'))
        if isinstance(m, Err) or isinstance(ungated, Err):
            raise RuntimeError('model genemetrics failed: %r' % (m,))
        mm = [grow_to_dict(r, with_seg) for r in m]
        # decisions taken on a rounded mean within 1e-7 of the threshold are not compared (DESIGN 2)
        th = fr(case['threshold'])
        # (a mean exactly on the threshold is compared only when every float operation of the code is exact: threshold
        # and all log2 are multiples of 1/64, weights are multiples of 1/16 by construction)
        exact_ok = (th * 64).denominator == 1 and all((fr(b[4]) * 64).denominator == 1 for b in bins)
        if not with_seg and any(r[4] is not None and abs(abs(r[4]) - th) < Fraction(1, 10 ** 7)
                                and not (exact_ok and abs(r[4]) == th) for r in ungated):
            ck.float_ambiguous += 1
            ck.cls('%s:genemetrics:float-ambiguous' % cls)
            continue
        if isinstance(code, Err):
            if zero_w and code.msg.startswith('ZeroDivisionError'):
                ck.cls('%s:genemetrics:zero-weight-gene-raises' % cls)
                continue        # weight-averaged depth of an all-zero-weight gene is undefined: outside the claim
            ck.violation('do_genemetrics raised ' + code.msg, case, code=code, expected=exp, clause='C16_genemetrics')
            continue
        if pre and (sorted_ok or not with_seg):
            why = cmp_rows(code, exp, GM_EXACT, GM_FLOAT)
            if why:
                ck.violation('genemetrics rows are not the statistics of each reported gene\'s own bins: ' + why, case,
                             code=code, expected=exp, clause='C16_genemetrics')
                continue
        why = cmp_rows(code, mm, GM_EXACT, GM_FLOAT)
        if why:
            ck.tie_break('model do_genemetrics differs from the code: ' + why, case, code=code, model=mm)


def check_squash(ck, cases, cls):
    model = vlib.model_batch_parallel('c16_squash', [[c['ignore'], c['squash_antitarget'], mrows(c['bins'])] for c in cases])
    codes = pmap(run_squash, cases)
    for case, m, code in zip(cases, model, codes):
        bins = case['bins']
        ign = tuple(IGNORED if case['ignore'] is None else case['ignore']) + ALIASES
        blocks = chrom_blocks(bins)
        pre = all(precondition(crows, ign) for _, crows in blocks)
        ngenes = sum(len(gene_spans(crows, ign)) for _, crows in blocks)
        ck.count(['squash', case], nontrivial=pre and ngenes > 0, cls='%s:squash:%s' % (cls, 'pre' if pre else 'nopre'))
        mm = m if isinstance(m, Err) else [tuple(r) for r in m]
        if pre:
            exp = expected_squash(bins, IGNORED if case['ignore'] is None else case['ignore'], bool(case['squash_antitarget']))
            if code != exp:
                ck.violation('squash_genes does not return one row per gene spanning its first to last bin', case,
                             code=code, expected=exp, clause='C16_squash')
                continue
        if code != mm:
            ck.tie_break('model squash_genes differs from the code', case, code=code, model=mm)


def check_breaks(ck, cases, cls):
    model = vlib.model_batch_parallel('c16_breaks', [[mrows(c['bins']), mrows(c['segments']),
                                                      None if c.get('defaults') else c['min_probes']] for c in cases])
    codes = pmap(run_breaks, cases)
    for case, m, code in zip(cases, model, codes):
        bins, segs, mp = case['bins'], case['segments'], case['min_probes']
        exp = expected_breaks(bins, segs, mp)
        ck.count(['breaks', case], nontrivial=len(exp) > 0, cls='%s:breaks:mp%s' % (cls, 'ge1' if mp >= 1 else '0'))
        if isinstance(m, Err):
            raise RuntimeError('model breaks failed: %r' % (m,))
        mm = [(r[0], r[1], r[2], r[4], r[5], r[3]) for r in m]
        if mp >= 1:
            bad = isinstance(code, Err)
            if not bad:
                a = sorted((r[:5], fr(r[5])) for r in code)
                b = sorted((r[:5], r[5]) for r in exp)
                bad = a != b
            if bad:
                ck.violation('breaks does not list exactly the genes with >= min_probes bins on each side of a segment '
                             'boundary', case, code=code, expected=exp, clause='C16_breaks')
                continue
        if isinstance(code, Err) or [(r[:5], fr(r[5])) for r in code] != [(r[:5], r[5]) for r in mm]:
            ck.tie_break('model do_breaks differs from the code', case, code=code, model=mm)


def check_gene_map(ck, cases, cls):
    """_get_gene_map of one chromosome (index reset): first / last position per gene, in order of first occurrence"""
    model = vlib.model_batch('c16_gene_map', [mrows(c['bins']) for c in cases])
    codes = pmap(run_gene_map, cases)
    for case, m, code in zip(cases, model, codes):
        exp = [(g, f, l) for g, (f, l) in gene_spans(case['bins'], ()).items()]
        ck.count(['gene_map', case], nontrivial=len(exp) > 1, cls='%s:gene_map' % cls)
        if code != exp:
            ck.violation('_get_gene_map does not map each gene to its first and last bin', case, code=code, expected=exp,
                         clause='C16_partition')
        elif code != [tuple(r) for r in m]:
            ck.tie_break('model gene_map differs from the code', case, code=code, model=m)


# ----------------------------------------------------------------------------
# streams


def seq_ok(seq):
    return precondition([(None, 0, 0, s) for s in seq], IGNORED + ALIASES)


def exhaustive_cases(maxlen, all_layouts):
    """every admissible sequence x {default, shifted index}; the chromosome layout (alone / as second chromosome /
    followed by a second chromosome) rotates with the sequence number in the quick tier, all three in the thorough tier"""
    out = []
    n = 0
    for length in range(0, maxlen + 1):
        for seq in itertools.product(['A', 'B', 'Antitarget'], repeat=length):
            if not seq_ok(seq):
                continue
            n += 1
            seq = list(seq)
            layouts = [[('chr1', seq)] if seq else [('chr1', ['Z', 'Antitarget']), ('chr2', seq)],
                       [('chr1', ['Z', 'Antitarget']), ('chr2', seq)],
                       [('chr1', seq), ('chr2', ['Antitarget', 'Z', 'Z', '-'])] if seq else [('chr1', ['Antitarget'])]]
            for k, index in enumerate(('default', 'shifted')):
                for j, lay in enumerate(layouts):
                    if all_layouts or (n + k) % 3 == j:
                        out.append({'bins': names_table(lay, vary=n), 'index': index, 'ignore': None})
    return out, n


def load_corpus():
    path = os.path.join(vlib.VERIF, 'corpus', 'c16.json')
    if not os.path.exists(path):
        return []
    return json.load(open(path))


def corpus_cases():
    out = []
    for ent in load_corpus():
        bins = names_table([(c, names) for c, names in ent['chromosomes']])
        for index in ent.get('index', ['default', 'shifted', 'filtered']):
            out.append({'bins': bins, 'index': index, 'ignore': None, 'corpus': ent['name']})
    return out


def gm_case(bins, index, rng=None, th=0.25, segments=None, **kw):
    c = {'bins': bins, 'index': index, 'threshold': th, 'min_probes': 1, 'skip_low': False, 'haploid_x_ref': False,
         'female': True, 'segments': segments}
    c.update(kw)
    return c


def run(ck, scratch):
    ck.rule = ('corpus (inputs of the repaired by_gene defect) first; exhaustive: every name sequence over {A,B,Antitarget} '
               'whose gene spans are disjoint x {default, shifted index} x {alone, as 2nd chromosome, followed by a 2nd '
               'chromosome} through by_gene (+ squash/genemetrics on the single-chromosome variant); random: tables of 1..5 '
               'chromosomes, 0..12 genes of 1..10 bins with Antitarget/-/./CGH/Background bins anywhere incl. inside genes, '
               'chromosome ends, single trailing bins, default/shifted/reversed/filtered index, custom ignore lists; '
               'genemetrics with dyadic log2/weights biased to +-threshold and the low-coverage cut, thresholds, '
               'min_probes 0..5, skip_low, both sex flags, segments tiling the chromosomes with boundaries on bin ends and '
               'in gaps; breaks with boundaries anywhere; edge stream breaks the precondition (shared comma names, '
               'interleaved/repeated/empty names, zero weights) and is compared code-vs-model only. non-trivial = '
               'precondition holds and at least one gene / one expected row; distinct by case hash')
    ck.exhaustive = True
    ck.explanation = 'exhaustive: true refers to the enumerated by_gene scope only (coverage.exhaustive_scope)'
    ck.unproved_remainder = UNPROVED
    if not ck.build_status.get('driver_ok'):
        raise RuntimeError('model driver unavailable')
    rng = ck.rng
    quick = ck.tier == 'quick'

    # 1. corpus
    cc = corpus_cases()
    check_by_gene(ck, cc, 'corpus')
    check_squash(ck, [dict(c, squash_antitarget=sa) for c in cc for sa in (None, True)], 'corpus')
    check_genemetrics(ck, [gm_case(c['bins'], c['index'], th=0.25, min_probes=mp) for c in cc for mp in (1, 3)], 'corpus')

    # 2. exhaustive scope
    L = 7 if quick else 9
    ex, nseq = exhaustive_cases(L, not quick)
    ck.extra['exhaustive_scope'] = ('all name sequences of length <= %d over {A,B,Antitarget} with disjoint gene spans (%d '
                                    'sequences) x {default, shifted index} x {1 chromosome | as second chromosome | followed '
                                    'by a second chromosome%s}: %d by_gene cases' % (L, nseq, '' if not quick else ' (layout rotates with the sequence number)', len(ex)))
    check_by_gene(ck, ex, 'exh')
    sub = [c for c in ex if len(chrom_blocks(c['bins'])) == 1 and c['index'] == 'shifted']
    if quick:
        sub = sub[::3]
    check_squash(ck, [dict(c, squash_antitarget=sa) for c in sub for sa in (False, True)], 'exh')
    check_genemetrics(ck, [gm_case(c['bins'], c['index'], th=0.5, min_probes=2) for c in sub], 'exh')

    # 3. random valid stream
    n = 400 if quick else 10000
    bg, sq, gm, bk, gmap = [], [], [], [], []
    for i in range(n):
        th = rng.choice([0.2, 0.25, 0.5, 0.0, 1.0, 0.25, 0.2])
        bins = gen_table(rng, th if th else 0.25)
        index = rng.choice(['default', 'shifted', 'filtered', 'reversed'])
        ign = rng.choice([None, None, None, ['-'], [], ['G0', '.'], ['-', '.', 'CGH', 'G1']])
        if bins:
            bg.append({'bins': bins, 'index': index, 'ignore': ign})
            sq.append({'bins': bins, 'index': index, 'ignore': ign, 'squash_antitarget': rng.choice([None, False, True])})
        else:
            bg.append({'bins': bins, 'index': 'default', 'ignore': ign})
        if not bins:
            continue
        opts = dict(th=th, min_probes=rng.choice([0, 1, 1, 2, 3, 3, 5]), skip_low=rng.random() < 0.4,
                    haploid_x_ref=rng.random() < 0.5, female=rng.random() < 0.5)
        gm.append(gm_case(bins, index, **opts))
        if i % 9 == 0:
            gm.append(gm_case(bins, index, defaults=True, th=0.2, min_probes=3, skip_low=False,
                              haploid_x_ref=opts['haploid_x_ref'], female=opts['female']))
        segs = gen_segments(rng, bins, th if th else 0.25)
        gm.append(gm_case(bins, index, segments=segs, **opts))
        bsegs = gen_break_segments(rng, bins)
        bk.append({'bins': bins, 'index': index, 'segments': bsegs, 'min_probes': rng.choice([1, 1, 1, 2, 3])})
        if i % 7 == 0:
            bk.append({'bins': bins, 'index': index, 'segments': bsegs, 'min_probes': 1, 'defaults': True})
        if i % 5 == 0:
            gmap.append({'bins': chrom_blocks(bins)[0][1]})
    check_by_gene(ck, bg, 'rand')
    check_squash(ck, sq, 'rand')
    check_genemetrics(ck, gm, 'rand')
    check_breaks(ck, bk, 'rand')
    check_gene_map(ck, gmap, 'rand')

    # 4. edge stream: precondition broken on purpose, zero weights, min_probes 0 for breaks
    n = 150 if quick else 3000
    bg, sq, gm, bk, gmap = [], [], [], [], []
    for i in range(n):
        bins = gen_table(rng, 0.25, edge=True, maxgenes=6)
        if not bins:
            continue
        if i % 6 == 0:      # zero weights
            bins = [b[:5] + (rng.choice([0.0, 0.0, b[5]]),) + b[6:] for b in bins]
        index = rng.choice(['default', 'shifted', 'filtered'])
        bg.append({'bins': bins, 'index': index, 'ignore': None})
        sq.append({'bins': bins, 'index': index, 'ignore': None, 'squash_antitarget': rng.choice([False, True])})
        opts = dict(th=rng.choice([0.25, 0.0]), min_probes=rng.choice([0, 1, 2]), skip_low=rng.random() < 0.5,
                    haploid_x_ref=rng.random() < 0.5, female=rng.random() < 0.5)
        gm.append(gm_case(bins, index, **opts))
        if i % 6 != 0:
            gm.append(gm_case(bins, index, segments=gen_segments(rng, bins, 0.25), **opts))
        bk.append({'bins': bins, 'index': index, 'segments': gen_break_segments(rng, bins), 'min_probes': rng.choice([0, 0, 1])})
        gmap.append({'bins': chrom_blocks(bins)[0][1]})
    check_by_gene(ck, bg, 'edge')
    check_squash(ck, sq, 'edge')
    check_genemetrics(ck, gm, 'edge')
    check_breaks(ck, bk, 'edge')
    check_gene_map(ck, gmap, 'edge')


UNPROVED = []


def replay(ck, body):
    case = body.get('case')
    print(json.dumps(body, indent=1)[:4000])
    if not isinstance(case, dict):
        return 0
    ck.build_status = {'driver_ok': os.path.exists(vlib.DRIVER)}
    if 'min_probes' in case and 'threshold' not in case:
        check_breaks(ck, [case], 'replay')
    elif 'threshold' in case:
        check_genemetrics(ck, [case], 'replay')
    elif 'squash_antitarget' in case:
        check_squash(ck, [case], 'replay')
    else:
        check_by_gene(ck, [case], 'replay')
    print('replay: %d violation(s), %d tie-break(s)' % (len(ck.violations), len(ck.tie_breaks)))
    return 1 if (ck.violations or ck.tie_breaks) else 0
