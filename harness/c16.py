"""C16 -- gene-level grouping yields each gene's own bins, each bin exactly once.

Correspondence: CopyNumArray.by_gene / squash_genes, reports.do_genemetrics (with and
without segments, all sex-adjustment options incl. the guessed sex and the PAR-aware X
filter) and reports.do_breaks against the extracted Coq model (Model/Genes.v,
Model/Reports.v): the COMPLETE output DataFrames (header, column order, every cell, row
order) are compared, and by_gene of every table -- inside and outside the precondition --
is compared with the closed form of Spec/Genes.v (position ranges).  The direct oracle is computed here, independently of both, from
the property text: per chromosome every non-ignored gene owns the bins from its
first to its last bin, all other bins form maximal 'Antitarget' stretches, and the
report rows are the textbook weighted statistics (fractions.Fraction) of exactly
those bins."""
import os, json, itertools
from fractions import Fraction
import numpy as np
import pandas as pd
import vlib
from vlib import Err

LEVEL = 'proof'

# bin tuple layout shared with the model: (chromosome, start, end, gene, log2, weight, depth, probes)
COLS = ['chromosome', 'start', 'end', 'gene', 'log2', 'depth', 'weight', 'probes']
ORDER = [0, 1, 2, 3, 4, 6, 5, 7]          # bin tuple -> COLS order

# literals of the property text (never imported from the package)
IGNORED = ('-', '.', 'CGH')
ANTITARGET = 'Antitarget'
ALIASES = ('Antitarget', 'Background')
LOW_LOG2 = Fraction(-15)                   # "very low coverage": log2 < -20 - (-5), or depth 0


# ----------------------------------------------------------------------------
# building the implementation's objects


NOPROBES = ['chromosome', 'start', 'end', 'gene', 'log2', 'depth', 'weight']
CNS_ORDER = ['chromosome', 'start', 'end', 'gene', 'log2', 'depth', 'probes', 'weight']


def make_cna(bins, index='default', cols=None, extra=None):
    """cols: the table's columns in order (core names of COLS and names of `extra` = {name: [values]})"""
    cna = make_cna_core(bins, index)
    if cols is None and not extra:
        return cna
    df = cna.data
    for k, vals in (extra or {}).items():
        df[k] = np.array([np.nan if v is None else float(v) for v in vals], dtype=float)
    return cna.as_dataframe(df[list(cols)] if cols is not None else df)


def make_cna_core(bins, index='default'):
    from cnvlib.cnary import CopyNumArray as CNA
    if index == 'filtered':
        # interleave junk rows and filter them out again: the surviving rows keep a holey index
        rows, keep = [], []
        for i, b in enumerate(bins):
            if i % 2 == 0 or i % 5 == 3:
                rows.append((b[0], b[1], b[2], 'JUNK%d' % i, 0.0, 1.0, 1.0, 1))
                keep.append(False)
            rows.append(b)
            keep.append(True)
        rows.append(('chrJ', 0, 10, 'JUNKEND', 0.0, 1.0, 1.0, 1))
        keep.append(False)
        df = pd.DataFrame.from_records([[r[k] for k in ORDER] for r in rows], columns=COLS)
        full = CNA(df, {'sample_id': 's'})
        return full[np.array(keep, dtype=bool)]
    df = pd.DataFrame.from_records([[b[k] for k in ORDER] for b in bins], columns=COLS)
    if not len(bins):
        df = df.astype({'chromosome': str, 'start': int, 'end': int, 'gene': str, 'log2': float, 'depth': float,
                        'weight': float, 'probes': int})
    if index == 'shifted':
        df.index = df.index + 7
    elif index == 'reversed':
        df.index = df.index[::-1]
    return CNA(df, {'sample_id': 's'})


def mrows(bins):
    return [list(b) for b in bins]


# ----------------------------------------------------------------------------
# the direct oracle (property text)


def chrom_blocks(bins):
    """rows per chromosome, chromosomes in order of first appearance"""
    order, d = [], {}
    for b in bins:
        if b[0] not in d:
            d[b[0]] = []
            order.append(b[0])
        d[b[0]].append(b)
    return [(c, d[c]) for c in order]


def gene_spans(crows, ignore):
    """non-ignored gene -> [first, last] position within the chromosome, in order of first occurrence"""
    sp = {}
    for i, b in enumerate(crows):
        for g in b[3].split(','):
            if g in ignore:
                continue
            if g not in sp:
                sp[g] = [i, i]
            else:
                sp[g][1] = i
    return sp


def precondition(crows, ignore):
    """every named gene's bins are consecutive (interrupted only by ignored-name bins): spans pairwise disjoint"""
    prev = -1
    for g, (f, l) in gene_spans(crows, ignore).items():
        if f <= prev:
            return False
        prev = l
    return True


def expected_groups(crows, ignore):
    """each gene exactly its bins first..last; every other bin in a maximal Antitarget stretch (needs precondition)"""
    owner = [None] * len(crows)
    for g, (f, l) in gene_spans(crows, ignore).items():
        for i in range(f, l + 1):
            assert owner[i] is None
            owner[i] = g
    out = []
    for i, b in enumerate(crows):
        if i > 0 and owner[i] == owner[i - 1]:
            out[-1][1].append(b)
        else:
            out.append([ANTITARGET if owner[i] is None else owner[i], [b]])
    return out


def key(b):
    return (b[0], int(b[1]), int(b[2]), b[3])


def par_tables():
    from cnvlib import params
    return params.PSEUDO_AUTSOMAL_REGIONS


def in_par(build, keys, start, end):
    tab = par_tables()[build.lower()]
    return any(tab[k][0] <= start and end <= tab[k][1] for k in keys)


def xy_labels(bins):
    if not bins:
        return '', ''
    return ('chrX', 'chrY') if bins[0][0].startswith('chr') else ('X', 'Y')


def x_shift(bins, haploid_x_ref, female, build=None):
    """log2 adjustment of the X chromosome: -1 for a female sample on a male (haploid X) reference,
    +1 for a male sample on a female reference; with a genome build the bins inside PAR1/PAR2 of X stay as they are.
    female None (sex could not be guessed: no X bins) is treated like male"""
    if not bins:
        return bins
    xl = xy_labels(bins)[0]
    if female and haploid_x_ref:
        d = -1.0
    elif not female and not haploid_x_ref:
        d = 1.0
    else:
        return bins
    return [(b[0], b[1], b[2], b[3],
             b[4] + d if (b[0] == xl and not (build and in_par(build, ('PAR1X', 'PAR2X'), b[1], b[2]))) else b[4])
            + tuple(b[5:]) for b in bins]


# ---- the contingency tables of Mood's median test that guess_xx hands to scipy (C15), with scipy's statistic ----


def is_auto_name(name):
    t = name[3:] if name.startswith('chr') else name
    return len(t) > 0 and all(c in '0123456789' for c in t)


def f_median(l):
    t = sorted(l)
    n = len(t)
    return t[n // 2] if n % 2 else (t[n // 2 - 1] + t[n // 2]) / 2


def mood_table(s1, s2):
    gm = f_median(list(s1) + list(s2))
    return [sum(1 for x in s1 if x > gm), sum(1 for x in s2 if x > gm),
            sum(1 for x in s1 if x < gm), sum(1 for x in s2 if x < gm)]


def mood_valid(t):
    a1, a2, b1, b2 = t
    return a1 + a2 != 0 and b1 + b2 != 0 and not (a1 == 0 and b1 == 0) and not (a2 == 0 and b2 == 0)


_gstat_cache = {}


def gstat_of_table(t):
    k = tuple(t)
    if k not in _gstat_cache:
        from scipy.stats import chi2_contingency
        _gstat_cache[k] = float(chi2_contingency(np.array([[t[0], t[1]], [t[2], t[3]]], dtype=np.int64),
                                                 lambda_='log-likelihood', correction=True)[0])
    return _gstat_cache[k]


def sex_tables(rows, hap, build):
    if not rows:
        return []
    xl, yl = xy_labels(rows)

    def on(label, keys, r):
        return r[0] == label and not (build is not None and in_par(build, keys, r[1], r[2]))
    any_auto = any(is_auto_name(r[0]) for r in rows)
    auto = [r[4] for r in rows if (not any_auto) or is_auto_name(r[0]) or
            (build is not None and r[0] == xl and in_par(build, ('PAR1X', 'PAR2X'), r[1], r[2]))]
    chrx = [r[4] for r in rows if on(xl, ('PAR1X', 'PAR2X'), r)]
    chry = [r[4] for r in rows if on(yl, ('PAR1Y', 'PAR2Y'), r)]
    out, shifts = [], []
    if chrx:
        shifts += [(chrx, t) for t in ((-1, 0) if hap else (0, 1))]
    if chrx and chry:
        shifts += [(chry, 3), (chry, 0)]
    for vals, t in shifts:
        tab = mood_table(auto, [v + t for v in vals])
        if mood_valid(tab) and tab not in [o[0] for o in out]:
            out.append([tab, gstat_of_table(tab)])
    return out


def fr(x):
    return Fraction(x)


def wmean(vals, ws):
    sw = sum(ws)
    return sum(v * w for v, w in zip(vals, ws)) / sw


def group_stats(g, grp, skip_low):
    """the row the property promises for gene g owning bins grp (None for log2 = no usable bin)"""
    ws = [fr(b[5]) for b in grp]
    use = [b for b in grp if not (fr(b[4]) < LOW_LOG2 or b[6] == 0)] if skip_low else grp
    if not use:
        mean = None
    else:
        uw = [fr(b[5]) for b in use]
        if any(w != 0 for w in uw):
            mean = wmean([fr(b[4]) for b in use], uw)
        else:
            mean = sum(fr(b[4]) for b in use) / len(use)
    return {'gene': g, 'chromosome': grp[0][0], 'start': int(grp[0][1]), 'end': int(grp[-1][2]), 'log2': mean,
            'probes': len(grp), 'weight': sum(ws), 'depth': wmean([fr(b[6]) for b in grp], ws) if sum(ws) != 0 else None}


def gene_rows(bins, skip_low):
    """per chromosome, per named gene (not ignored, not empty): its statistics over its own bins first..last"""
    out = []
    ign = IGNORED + ALIASES
    for c, crows in chrom_blocks(bins):
        for g, (f, l) in gene_spans(crows, ign).items():
            if g == '':
                continue
            out.append(group_stats(g, crows[f:l + 1], skip_low))
    return out


def expected_genemetrics(case, female=None, female_segs=None):
    """the rows the property promises; female / female_segs: the sex used for the adjustment when it is guessed"""
    if case['female'] is not None:
        female = female_segs = case['female']
    build = case.get('build')
    bins = x_shift(case['bins'], case['haploid_x_ref'], female, build)
    th, mp, skip_low = fr(case['threshold']), case['min_probes'], case['skip_low']
    if not case.get('segments'):
        rows = [r for r in gene_rows(bins, skip_low)
                if r['log2'] is not None and abs(r['log2']) >= th and r['probes'] >= mp]
        return rows
    segs = x_shift(case['segments'], case['haploid_x_ref'], female_segs, build)
    hw, hp = 'weight' in seg_cols(case), 'probes' in seg_cols(case)
    out = []
    for c, srows in chrom_blocks(segs):
        crows = [b for b in bins if b[0] == c]
        for s in srows:
            if not (abs(fr(s[4])) >= th):
                continue
            if mp and hp and s[7] < mp:
                continue
            inside = [b for b in crows if b[1] < s[2] and b[2] > s[1]]
            for r in gene_rows(inside, skip_low):
                if mp and not hp and r['probes'] < mp:
                    continue
                r['log2'] = fr(s[4])
                if hw:
                    r['segment_weight'] = fr(s[5])
                if hp:
                    r['segment_probes'] = int(s[7])
                out.append(r)
    return out


def seg_cols(case):
    return case.get('scols') or COLS


def expected_squash(bins, ignore, squash_antitarget):
    out = []
    for c, crows in chrom_blocks(bins):
        for label, grp in expected_groups(crows, tuple(ignore) + ALIASES):
            if label in ALIASES and not squash_antitarget:
                out.extend((b[0], int(b[1]), int(b[2]), b[3], int(b[7])) for b in grp)
            elif len(grp) == 1:
                b = grp[0]
                out.append((b[0], int(b[1]), int(b[2]), b[3], int(b[7])))
            else:
                out.append((c, int(grp[0][1]), int(grp[-1][2]), label, sum(int(b[7]) for b in grp)))
    return out


def expected_breaks(bins, segs, min_probes):
    """(gene, chromosome, boundary, left, right, change) for every gene with >= min_probes bin starts on each side of
    the boundary between two consecutive segments of one chromosome"""
    ign = IGNORED + ALIASES
    out = []
    for i in range(len(segs) - 1):
        cur, nxt = segs[i], segs[i + 1]
        if cur[0] != nxt[0]:
            continue
        e = cur[2]
        starts = {}
        for b in bins:
            if b[0] == cur[0] and b[3] not in ign:
                starts.setdefault(b[3], []).append(b[1])
        for g, ss in starts.items():
            left = sum(1 for s in ss if s < e)
            right = sum(1 for s in ss if s >= e)
            if left >= min_probes and right >= min_probes:
                out.append((g, cur[0], int(e), left, right, fr(nxt[4]) - fr(cur[4])))
    return out


# ----------------------------------------------------------------------------
# running the implementation


def code_by_gene(cna, ignore):
    out = []
    it = cna.by_gene() if ignore is None else cna.by_gene(ignore)
    for label, sub in it:
        out.append([label, [(r.chromosome, int(r.start), int(r.end), r.gene) for r in sub]])
    return out


def pyval(v):
    """a DataFrame cell as a plain Python value: NaN -> None, numpy numbers -> int / float"""
    if v is None:
        return None
    if isinstance(v, str):
        return v
    if isinstance(v, (bool, np.bool_)):
        return bool(v)
    if isinstance(v, (int, np.integer)):
        return int(v)
    f = float(v)
    return None if f != f else f


def table_of(df):
    return {'columns': [str(c) for c in df.columns], 'rows': [[pyval(v) for v in row] for row in df.itertuples(index=False)]}


def seg_extra(case):
    return case.get('sextra') or {}


def code_genemetrics(case):
    from cnvlib import reports
    cna = make_cna(case['bins'], case['index'], case.get('ccols'))
    kw = {}
    for k_case, k_code in (('threshold', 'threshold'), ('min_probes', 'min_probes'), ('skip_low', 'skip_low')):
        if not case.get('defaults'):
            kw[k_code] = case[k_case]
    if case.get('build') is not None:
        kw['diploid_parx_genome'] = case['build']
    segs = None
    if case.get('segments') is not None:
        segs = make_cna(case['segments'], 'default', case.get('scols'), seg_extra(case))
    guess = None
    if case['female'] is None:
        g = make_cna(case['bins'], case['index'], case.get('ccols'))
        is_xy, stats = g.compare_sex_chromosomes(case['haploid_x_ref'], case.get('build'))
        guess = [None if is_xy is None else (not bool(is_xy)), None if is_xy is None else float(stats['combined_score'])]
    try:
        t = reports.do_genemetrics(cna, segs, is_haploid_x_reference=case['haploid_x_ref'],
                                   is_sample_female=case['female'], **kw)
    except ZeroDivisionError:
        return Err('ZeroDivisionError')
    out = table_of(t)
    out['guess'] = guess
    return out


def code_squash(case):
    from cnvlib import descriptives
    cna = make_cna(case['bins'], case['index'], case.get('ccols'))
    kw = {}
    if case['ignore'] is not None:
        kw['ignore'] = case['ignore']
    if case['squash_antitarget'] is not None:
        kw['squash_antitarget'] = case['squash_antitarget']
    if case.get('summary'):
        kw['summary_func'] = SUMMARY[case['summary']]
    return table_of(cna.squash_genes(**kw).data)


def summary_value(name, vals):
    """the value the library's summary function gives for a column's values"""
    from cnvlib import descriptives
    f = descriptives.biweight_location if not name else SUMMARY[name]
    return float(f(pd.Series(np.array(vals, dtype=float))))


SUMMARY = {'median': np.median, 'mean': np.mean, 'max': np.max}


def code_breaks(case):
    from cnvlib import reports
    cna = make_cna(case['bins'], case['index'])
    segs = make_cna(case['segments'], 'default')
    if case.get('defaults'):
        t = reports.do_breaks(cna, segs)
    else:
        t = reports.do_breaks(cna, segs, case['min_probes'])
    return table_of(t)


def run_by_gene(case):
    try:
        return code_by_gene(make_cna(case['bins'], case['index']), case['ignore'])
    except Exception as e:      # noqa
        return Err(type(e).__name__ + ': ' + str(e)[:80])


def run_squash(case):
    try:
        return code_squash(case)
    except Exception as e:      # noqa
        return Err(type(e).__name__ + ': ' + str(e)[:80])


def run_genemetrics(case):
    try:
        return code_genemetrics(case)
    except Exception as e:      # noqa
        return Err(type(e).__name__ + ': ' + str(e)[:80])


def run_breaks(case):
    try:
        return code_breaks(case)
    except Exception as e:      # noqa
        return Err(type(e).__name__ + ': ' + str(e)[:80])


def run_gene_map(case):
    gm = make_cna(case['bins'], 'default')._get_gene_map()
    return [(g, int(ix[0]), int(ix[-1])) for g, ix in gm.items()]


def pmap(fn, items, workers=6):
    """run the implementation on every case, in order, over forked worker processes (the code is pure here)"""
    if len(items) < 48 or os.environ.get('VERIF_SERIAL'):
        return [fn(x) for x in items]
    import multiprocessing as mp
    with mp.get_context('fork').Pool(workers) as pool:
        return pool.map(fn, items, chunksize=max(1, len(items) // (workers * 8)))


# ----------------------------------------------------------------------------
# generators


def dy(rng, lo, hi, den):
    return rng.randint(int(lo * den), int(hi * den)) / den


GAPNAMES = ['Antitarget', 'Antitarget', '-', '.', 'CGH', 'Background']


def gen_values(rng, th, low=True):
    """log2 (dyadic, biased to +-threshold and the low-coverage cut), weight, depth"""
    r = rng.random()
    # boundary values are kept exactly representable with few bits (k/64) so that the code's float sums are exact and
    # a mean landing exactly on a dyadic threshold is decided alike in float and in Q; for 0.2 the nearest k/64 are used
    # (and, rarely, the float 0.2 itself: such cases are float-ambiguous when a mean lands within 1e-7 of it)
    thd = th if th * 64 == int(th * 64) or rng.random() < 0.03 else round(th * 64) / 64
    if r < 0.25:
        l = rng.choice([thd, -thd])
    elif r < 0.35:
        l = rng.choice([thd, -thd]) + rng.choice([-1, 1]) / 64
    elif low and r < 0.45:
        l = rng.choice([-15.0, -15.015625, -14.984375, -20.0, -16.5])
    else:
        l = dy(rng, -2, 2, 64)
    w = rng.choice([1.0, 0.5, 0.25, dy(rng, 0.0625, 1.5, 16)])
    d = rng.choice([0.0, dy(rng, 0.25, 60, 4), dy(rng, 0.25, 60, 4), dy(rng, 0.25, 60, 4)]) if low else dy(rng, 0.25, 60, 4)
    return l, w, d


PAR_EDGES = {'grch37': [60000, 2699520, 154931043, 155260560], 'grch38': [10000, 2781479, 155701382, 156030895]}


def gen_table(rng, th=0.25, nchrom=None, maxgenes=12, names_style=None, low=True, edge=False, build=None, sexy=False):
    """bins of 1..5 chromosomes, 0..12 genes of 1..10 bins, interleaved Antitarget/-/./CGH bins anywhere incl.
    chromosome ends and single trailing bins; edge=True additionally breaks the precondition on purpose
    (comma names shared by two genes, interleaved genes, repeated names, empty names)"""
    style = names_style or rng.choice(['chr', 'plain'])
    chroms = ['chr1', 'chr2', 'chrX', 'chr7', 'chrY'] if style == 'chr' else ['1', '2', 'X', '7', 'Y']
    if rng.random() < 0.3:
        rng.shuffle(chroms)
    k = nchrom or rng.choice([1, 1, 2, 2, 3, 4, 5])
    if sexy:          # the sex chromosomes are wanted: an autosome, X and often Y first
        k = max(k, 3)
        maxgenes = max(maxgenes, 8)
        auto = [c for c in chroms if c[-1] not in 'XY']
        rng.shuffle(auto)
        xy = [c for c in chroms if c[-1] == 'X'] + ([c for c in chroms if c[-1] == 'Y'] if rng.random() < 0.6 else [])
        chroms = auto[:1] + xy + auto[1:]
    chroms = chroms[:k]
    ngenes = rng.choice([0, 1, 2, 3, rng.randint(0, maxgenes), rng.randint(0, maxgenes)])
    per = [0] * k
    for _ in range(ngenes):
        per[rng.randrange(k)] += 1
    bins, gid = [], 0
    for c, ng in zip(chroms, per):
        names = []

        def gap(maxn):
            n = rng.choice([0, 0, 1, 1, 2, rng.randint(0, maxn)])
            nm = rng.choice(GAPNAMES)
            for _ in range(n):
                names.append(nm if rng.random() < 0.7 else rng.choice(GAPNAMES))
        gap(4)
        for _ in range(ng):
            g = 'G%d' % gid
            gid += 1
            nb = rng.choice([1, 1, 2, 3, rng.randint(1, 10)])
            for j in range(nb):
                nm = g
                if rng.random() < 0.06:
                    nm = rng.choice([g + ',-', '-,' + g, g + ',Antitarget', g + ',' + g])
                names.append(nm)
                if j < nb - 1 and rng.random() < 0.15:      # ignored-name bins inside a gene
                    for _ in range(rng.randint(1, 2)):
                        names.append(rng.choice(GAPNAMES))
            gap(3)
        if not names and rng.random() < 0.7:
            names.append(rng.choice(GAPNAMES))
        if edge and names:
            for _ in range(rng.randint(1, 3)):
                op = rng.randint(0, 4)
                p = rng.randrange(len(names))
                q = rng.randrange(len(names))
                if op == 0:
                    names[p] = names[p] + ',' + names[q]
                elif op == 1:
                    names[p], names[q] = names[q], names[p]
                elif op == 2:
                    names[p] = rng.choice(['', 'G0', 'G1', ',', 'G0,G1', 'X,', ',-'])
                elif op == 3:
                    names.insert(p, names[q])
                else:
                    names[p] = names[q]
        pos = rng.choice([0, 0, rng.randint(0, 5000)])
        if build and c[-1] == 'X':
            # bins before / inside / after PAR1 or PAR2 of X: start a little before one of the four PAR boundaries
            pos = rng.choice(PAR_EDGES[build]) - rng.choice([0, 1, 150, 400, 900])
        for nm in names:
            ln = rng.randint(20, 300)
            l, w, d = gen_values(rng, th, low)
            if sexy and rng.random() < 0.85:
                sex, hap = sexy
                if c[-1] == 'X':
                    l = {('f', True): 1.0, ('f', False): 0.0, ('m', True): 0.0, ('m', False): -1.0}[(sex, hap)] + dy(rng, -0.3, 0.3, 64)
                elif c[-1] == 'Y':
                    l = (-4.0 if sex == 'f' else 0.0) + dy(rng, -0.3, 0.3, 64)
                else:
                    l = dy(rng, -0.3, 0.3, 64)
            bins.append((c, pos, pos + ln, nm, l, w, d, rng.choice([1, 1, 1, rng.randint(0, 9)])))
            pos += ln + rng.choice([0, 0, rng.randint(1, 400)])
    return bins


def gen_segments(rng, bins, th):
    """segments tiling each chromosome (mostly): boundaries on bin ends / in the gaps between bins, sometimes inside
    a bin (breaks only), a chromosome sometimes left out or added"""
    segs = []
    blocks = chrom_blocks(bins)
    for c, crows in blocks:
        if rng.random() < 0.08:
            continue
        n = len(crows)
        nseg = rng.choice([1, 1, 2, 2, 3, rng.randint(1, max(1, min(6, n)))])
        cuts = sorted(set(rng.sample(range(1, n), min(nseg - 1, n - 1)))) if n > 1 else []
        idx = [0] + cuts + [n]
        for a, b in zip(idx[:-1], idx[1:]):
            s = crows[a][1]
            e = crows[b - 1][2]
            if b < n and rng.random() < 0.3:
                e = rng.randint(crows[b - 1][2], crows[b][1])       # anywhere in the gap up to the next bin's start
            if a > 0 and rng.random() < 0.3:
                s = rng.randint(segs[-1][2], crows[a][1]) if segs and segs[-1][0] == c else s
            r = rng.random()
            l = rng.choice([th, -th]) if r < 0.3 else (rng.choice([th, -th]) + rng.choice([-1, 1]) / 64 if r < 0.4 else dy(rng, -2, 2, 64))
            segs.append((c, s, e, rng.choice(['-', 'G0', 'x,y']), l, dy(rng, 0.0625, 20, 16), dy(rng, 0, 60, 4),
                         rng.choice([b - a, b - a, rng.randint(0, 12)])))
    if rng.random() < 0.06:
        segs.append(('chr9' if blocks and blocks[0][0].startswith('chr') else '9', 0, 1000, '-', 1.0, 1.0, 1.0, 5))
    return segs


SEG_COLSETS = [
    None,                                                                             # all eight, harness order
    CNS_ORDER,                                                                        # .cns order
    ['chromosome', 'start', 'end', 'gene', 'log2', 'cn', 'depth', 'probes', 'weight', 'baf'],       # call output
    ['chromosome', 'start', 'end', 'gene', 'log2', 'probes', 'ci_lo', 'ci_hi'],       # no weight, no depth
    ['chromosome', 'start', 'end', 'gene', 'log2', 'depth', 'weight', 'p_ttest'],     # no probes
    ['chromosome', 'start', 'end', 'gene', 'log2'],                                   # bare
]


def gen_seg_columns(rng, segs):
    """the segment table's columns (order, optional depth / weight / probes, extra numeric columns with some NaN)"""
    scols = rng.choice(SEG_COLSETS)
    if scols is None:
        return None, None
    extra = {}
    for k in scols:
        if k not in COLS:
            extra[k] = [None if rng.random() < 0.2 else (float(rng.randint(0, 6)) if k == 'cn' else dy(rng, -2, 2, 16))
                        for _ in segs]
    return list(scols), extra


CNA_COLSETS = [None, None, NOPROBES, NOPROBES, ['chromosome', 'start', 'end', 'gene', 'depth', 'log2', 'weight'],
               ['gene', 'chromosome', 'start', 'end', 'weight', 'log2', 'depth', 'probes']]
SQUASH_COLSETS = [None, None, None, NOPROBES, NOPROBES, CNS_ORDER, ['chromosome', 'start', 'end', 'gene', 'depth', 'log2', 'weight']]


def gen_break_segments(rng, bins):
    """segments whose boundaries fall anywhere: bin starts / ends, inside bins, in gaps"""
    segs = []
    for c, crows in chrom_blocks(bins):
        lo, hi = crows[0][1], crows[-1][2]
        pts = set()
        for _ in range(rng.choice([0, 1, 1, 2, 3, 5])):
            b = rng.choice(crows)
            pts.add(rng.choice([b[1], b[2], b[1] + 1, b[2] - 1, rng.randint(b[1], b[2]), rng.randint(lo, hi)]))
        pts = sorted(p for p in pts if lo < p < hi)
        edges = [lo] + pts + [hi]
        for s, e in zip(edges[:-1], edges[1:]):
            if rng.random() < 0.1 and e - s > 2:
                e2 = rng.randint(s + 1, e)       # a gap between consecutive segments
            else:
                e2 = e
            segs.append((c, s, e2, '-', dy(rng, -2, 2, 64) if rng.random() < 0.8 else rng.choice([0.5, -0.5]),
                         1.0, 1.0, rng.randint(1, 9)))
    return segs


# ----------------------------------------------------------------------------
# checks


def names_table(chroms, th=0.25, vary=0):
    """bins from [(chromosome, [names])] with deterministic values"""
    bins = []
    for c, names in chroms:
        pos = 100
        for i, nm in enumerate(names):
            l = [0.5, -0.5, 0.25, 0.75, -1.0][(i + vary) % 5]
            w = [1.0, 0.5, 0.75][(i + vary) % 3]
            bins.append((c, pos, pos + 50, nm, l, w, 10.0 + i, 1))
            pos += 60
    return bins


def general_ranges(crows, ign):
    """closed form of by_gene on ANY chromosome table (C16_by_gene_general): S = the non-ignored genes with first / last
    position in order of first occurrence; before each gene the non-empty stretch from the end of the previous gene OF
    THAT ORDER to its first bin as Antitarget, then the gene first..last; after the last gene the rest"""
    spans = list(gene_spans(crows, ign).items())
    out = []
    for k in range(len(spans) + 1):
        a = 0 if k == 0 else spans[k - 1][1][1] + 1
        b = len(crows) if k == len(spans) else spans[k][1][0]
        if a < b:
            out.append((ANTITARGET, a, b))
        if k < len(spans):
            out.append((spans[k][0], spans[k][1][0], spans[k][1][1] + 1))
    return out


def check_by_gene(ck, cases, cls):
    """cases: dicts with bins, index, ignore (None = default)"""
    minputs = [[c['ignore'], mrows(c['bins'])] for c in cases]
    model = vlib.model_batch_parallel('c16_by_gene', minputs)
    codes = pmap(run_by_gene, cases)
    # the closed form of Spec/Genes.v, chromosome by chromosome
    blocks_of = [chrom_blocks(c['bins']) for c in cases]
    rinputs = [[c['ignore'], mrows(crows)] for c, blocks in zip(cases, blocks_of) for _, crows in blocks]
    ranges = iter(vlib.model_batch_parallel('c16_by_gene_ranges', rinputs))
    for case, m, code, blocks in zip(cases, model, codes, blocks_of):
        bins = case['bins']
        ign = tuple(IGNORED if case['ignore'] is None else case['ignore']) + ALIASES
        pre = all(precondition(crows, ign) for _, crows in blocks)
        ngenes = sum(len(gene_spans(crows, ign)) for _, crows in blocks)
        ck.count(['by_gene', case], nontrivial=pre and ngenes > 0, cls='%s:by_gene:%s' % (cls, 'pre' if pre else 'nopre'))
        mm = m if isinstance(m, Err) else [[g, [tuple(k) for k in ks]] for g, ks in m]
        general, twice = [], False
        for _, crows in blocks:
            r = next(ranges)
            if isinstance(r, Err):
                raise RuntimeError('model by_gene_ranges failed: %r' % (r,))
            rs = [(lab, a, b) for lab, a, b in r[0]]
            if rs != general_ranges(crows, ign):
                raise RuntimeError('closed form of by_gene: Coq spec %r, harness %r' % (rs, general_ranges(crows, ign)))
            times = r[1]
            if any(t < 1 for t in times) or (all(t == 1 for t in times) != precondition(crows, ign)):
                raise RuntimeError('times yielded %r contradict C16_by_gene_general (precondition %s)' % (times, precondition(crows, ign)))
            twice = twice or any(t > 1 for t in times)
            general.extend([lab, [key(b) for b in crows[a:b_]]] for lab, a, b_ in rs)
        if twice:
            ck.cls('%s:by_gene:some-bin-yielded-twice' % cls)
        if pre:
            exp = []
            for c, crows in blocks:
                exp.extend([lab, [key(b) for b in grp]] for lab, grp in expected_groups(crows, ign))
            if code != exp:
                ck.violation('by_gene does not yield each gene\'s bins first..last and the maximal Antitarget stretches, '
                             'each bin exactly once', case, code=code, expected=exp, clause='C16_partition')
                continue
        if code != general:
            ck.tie_break('by_gene differs from the closed form of C16_by_gene_general', case, code=code, model=general)
        elif code != mm:
            ck.tie_break('model by_gene differs from the code', case, code=code, model=mm)


def cmp_rows(code, exp, exact_keys, float_keys):
    """'' when equal, else a description"""
    if isinstance(code, Err):
        return 'code raised %s' % code.msg
    if len(code) != len(exp):
        return 'row count %d, expected %d' % (len(code), len(exp))
    for i, (c, e) in enumerate(zip(code, exp)):
        for k in exact_keys:
            if k in e or k in c:
                if c.get(k) != e.get(k):
                    return 'row %d: %s = %r, expected %r' % (i, k, c.get(k), e.get(k))
        for k in float_keys:
            if k in e or k in c:
                if e.get(k) is None and k == 'depth':
                    continue
                if not vlib.close(c.get(k), e.get(k)):
                    return 'row %d: %s = %r, expected %r' % (i, k, c.get(k), e.get(k))
    return ''


def cmp_table(code, mcols, mrows_):
    """the complete table: header (names and order), row count and order, every cell; '' when equal"""
    if isinstance(code, Err):
        return 'code raised %s' % code.msg
    if code['columns'] != list(mcols):
        return 'columns %r, model %r' % (code['columns'], list(mcols))
    if len(code['rows']) != len(mrows_):
        return 'row count %d, model %d' % (len(code['rows']), len(mrows_))
    for i, (cr, mr) in enumerate(zip(code['rows'], mrows_)):
        for c, cv, mv in zip(mcols, cr, mr):
            if isinstance(mv, str) or isinstance(cv, str):
                ok = cv == mv
            elif isinstance(mv, int) and not isinstance(mv, bool):
                ok = cv is not None and float(cv) == mv
            else:
                ok = vlib.close(None if cv is None else float(cv), mv)
            if not ok:
                return 'row %d: %s = %r, model %r' % (i, c, cv, mv)
    return ''


def dict_rows(tab):
    return [dict(zip(tab['columns'], r)) for r in tab['rows']]


GM_EXACT = ('gene', 'chromosome', 'start', 'end', 'probes', 'segment_probes')
GM_FLOAT = ('log2', 'weight', 'depth', 'segment_weight')


def gm_model_input(c, th, mp):
    segs = None
    if c.get('segments') is not None:
        ex = seg_extra(c)
        segs = [list(seg_cols(c)), [[list(t), [[k, ex[k][i]] for k in ex]] for i, t in enumerate(c['segments'])]]
    gs = []
    if c['female'] is None:
        gs = sex_tables(c['bins'], c['haploid_x_ref'], c.get('build'))
        if c.get('segments'):
            gs = gs + [t for t in sex_tables(c['segments'], c['haploid_x_ref'], c.get('build')) if t not in gs]
    return [list(c.get('ccols') or COLS), mrows(c['bins']), segs, th, mp, None if c.get('defaults') else c['skip_low'],
            c['haploid_x_ref'], c['female'], c.get('build'), gs]


def check_genemetrics(ck, cases, cls):
    model = vlib.model_batch_parallel('c16_genemetrics_full', [
        gm_model_input(c, None if c.get('defaults') else c['threshold'], None if c.get('defaults') else c['min_probes'])
        for c in cases])
    nosegs = [i for i, c in enumerate(cases) if not c.get('segments')]
    ung = vlib.model_batch_parallel('c16_genemetrics_full', [gm_model_input(cases[i], 0, 0) for i in nosegs])
    ungated = dict(zip(nosegs, ung))
    codes = pmap(run_genemetrics, cases)
    for i, (case, m, code) in enumerate(zip(cases, model, codes)):
        bins = case['bins']
        with_seg = bool(case.get('segments'))
        ign = IGNORED + ALIASES
        blocks = chrom_blocks(bins)
        pre = all(precondition(crows, ign) for _, crows in blocks)
        sorted_ok = all(crows[j][2] <= crows[j + 1][1] for _, crows in blocks for j in range(len(crows) - 1))
        zero_w = any(r['depth'] is None for r in gene_rows(bins, False))
        guessed = case['female'] is None
        opt = '%s%s%s' % ('seg' if with_seg else 'gene', ':build' if case.get('build') else '', ':guess' if guessed else '')
        if isinstance(m, Err) and m.msg not in ('ZeroDivisionError',):
            raise RuntimeError('model genemetrics failed: %r' % (m,))
        if isinstance(m, Err):
            ck.count(['genemetrics', case], nontrivial=False, cls='%s:genemetrics:%s:zero-weight-gene' % (cls, opt))
            if not (isinstance(code, Err) and code.msg.startswith('ZeroDivisionError')):
                ck.tie_break('model do_genemetrics raises ZeroDivisionError (all-zero-weight gene), the code does not', case,
                             code=code, model=m.msg)
            continue
        mcols, mrows_, mguess = m
        female = case['female'] if not guessed else mguess
        skip_oracle = guessed and mguess is None and with_seg      # the segments are then adjusted by their own guess
        exp = [] if skip_oracle else expected_genemetrics(case, female, female)
        ck.count(['genemetrics', case], nontrivial=pre and len(exp) > 0,
                 cls='%s:genemetrics:%s:%s' % (cls, opt, 'pre' if pre else 'nopre'))
        if guessed and not isinstance(code, Err) and code['guess'][0] != mguess:
            sc = code['guess'][1]
            if sc is not None and abs(sc - 1.0) < 1e-6:
                ck.float_ambiguous += 1
                ck.cls('%s:genemetrics:float-ambiguous-guess' % cls)
            else:
                ck.tie_break('guessed sex differs: code %r, model %r' % (code['guess'], mguess), case, code=code, model=mguess)
            continue
        # decisions taken on a rounded mean within 1e-7 of the threshold are not compared (DESIGN 2)
        th = fr(case['threshold'])
        # (a mean exactly on the threshold is compared only when every float operation of the code is exact: threshold
        # and all log2 are multiples of 1/64, weights are multiples of 1/16 by construction)
        exact_ok = (th * 64).denominator == 1 and all((fr(b[4]) * 64).denominator == 1 for b in bins)
        if not with_seg:
            u = ungated[i]
            if isinstance(u, Err):
                raise RuntimeError('model genemetrics (ungated) failed: %r' % (u,))
            li = u[0].index('log2') if 'log2' in u[0] else None
            if li is not None and any(r[li] is not None and abs(abs(r[li]) - th) < Fraction(1, 10 ** 7)
                                      and not (exact_ok and abs(r[li]) == th) for r in u[1]):
                ck.float_ambiguous += 1
                ck.cls('%s:genemetrics:float-ambiguous' % cls)
                continue
        if isinstance(code, Err):
            if zero_w and code.msg.startswith('ZeroDivisionError'):
                ck.tie_break('the code raises ZeroDivisionError, the model does not', case, code=code, model=[mcols, mrows_])
                continue
            ck.violation('do_genemetrics raised ' + code.msg, case, code=code, expected=exp, clause='C16_genemetrics')
            continue
        if pre and (sorted_ok or not with_seg) and not skip_oracle:
            why = cmp_rows(dict_rows(code), exp, GM_EXACT, GM_FLOAT)
            if why:
                ck.violation('genemetrics rows are not the statistics of each reported gene\'s own bins: ' + why, case,
                             code=code, expected=exp, clause='C16_genemetrics')
                continue
        why = cmp_table(code, mcols, mrows_)
        if why:
            ck.tie_break('model do_genemetrics (complete table) differs from the code: ' + why, case, code=code,
                         model=[mcols, mrows_])


def squash_est_table(case, ign):
    """the summary function's value on every column of every group of two or more bins (closed form of by_gene)"""
    seen, out = set(), []
    for _, crows in chrom_blocks(case['bins']):
        for lab, a, b in general_ranges(crows, ign):
            if b - a < 2:
                continue
            for k in (4, 6, 5):
                vals = [crows[j][k] for j in range(a, b)]
                if tuple(vals) in seen:
                    continue
                seen.add(tuple(vals))
                v = summary_value(case.get('summary'), vals)
                if not (min(vals) - 1e-12 <= v <= max(vals) + 1e-12):
                    raise RuntimeError('summary function %r leaves [min, max] on %r: %r' % (case.get('summary'), vals, v))
                out.append([vals, v])
    return out


def check_squash(ck, cases, cls):
    igns = [tuple(IGNORED if c['ignore'] is None else c['ignore']) + ALIASES for c in cases]
    model = vlib.model_batch_parallel('c16_squash_full', [
        [list(c.get('ccols') or COLS), c['ignore'], c['squash_antitarget'], mrows(c['bins']), squash_est_table(c, ign)]
        for c, ign in zip(cases, igns)])
    codes = pmap(run_squash, cases)
    for case, m, code, ign in zip(cases, model, codes, igns):
        bins = case['bins']
        ccols = list(case.get('ccols') or COLS)
        blocks = chrom_blocks(bins)
        pre = all(precondition(crows, ign) for _, crows in blocks)
        ngenes = sum(len(gene_spans(crows, ign)) for _, crows in blocks)
        canonical = ccols in (COLS, NOPROBES)
        ck.count(['squash', case], nontrivial=pre and ngenes > 0,
                 cls='%s:squash:%s%s' % (cls, 'pre' if pre else 'nopre', '' if canonical else ':permuted-columns'))
        if isinstance(m, Err):
            raise RuntimeError('model squash failed: %r' % (m,))
        if pre:
            exp = expected_squash(bins, IGNORED if case['ignore'] is None else case['ignore'], bool(case['squash_antitarget']))
            bad = isinstance(code, Err)
            if not bad:
                rows = dict_rows(code)
                got = [(r['chromosome'], r['start'], r['end'], r['gene']) for r in rows]
                bad = got != [e[:4] for e in exp]
                if not bad and canonical and 'probes' in ccols:
                    bad = [r['probes'] for r in rows] != [e[4] for e in exp]
            if bad:
                ck.violation('squash_genes does not return one row per gene spanning its first to last bin', case,
                             code=code, expected=exp, clause='C16_squash')
                continue
        why = cmp_table(code, m[0], m[1])
        if why:
            ck.tie_break('model squash_genes (complete table) differs from the code: ' + why, case, code=code, model=m)


BREAK_COLS = ['gene', 'chromosome', 'location', 'change', 'probes_left', 'probes_right']


def check_breaks(ck, cases, cls):
    model = vlib.model_batch_parallel('c16_breaks_table', [[mrows(c['bins']), mrows(c['segments']),
                                                            None if c.get('defaults') else c['min_probes']] for c in cases])
    codes = pmap(run_breaks, cases)
    for case, m, code in zip(cases, model, codes):
        bins, segs, mp = case['bins'], case['segments'], case['min_probes']
        exp = expected_breaks(bins, segs, mp)
        ck.count(['breaks', case], nontrivial=len(exp) > 0, cls='%s:breaks:mp%s' % (cls, 'ge1' if mp >= 1 else '0'))
        if isinstance(m, Err):
            raise RuntimeError('model breaks failed: %r' % (m,))
        if mp >= 1:
            bad = isinstance(code, Err) or code['columns'] != BREAK_COLS
            if not bad:
                a = sorted(((r[0], r[1], r[2], r[4], r[5]), fr(r[3])) for r in code['rows'])
                b = sorted((r[:5], r[5]) for r in exp)
                bad = a != b
            if bad:
                ck.violation('breaks does not list exactly the genes with >= min_probes bins on each side of a segment '
                             'boundary', case, code=code, expected=exp, clause='C16_breaks')
                continue
        why = cmp_table(code, m[0], m[1])
        if why:
            ck.tie_break('model do_breaks (complete table, row order) differs from the code: ' + why, case, code=code, model=m)


def check_gene_map(ck, cases, cls):
    """_get_gene_map of one chromosome (index reset): first / last position per gene, in order of first occurrence"""
    model = vlib.model_batch('c16_gene_map', [mrows(c['bins']) for c in cases])
    codes = pmap(run_gene_map, cases)
    for case, m, code in zip(cases, model, codes):
        exp = [(g, f, l) for g, (f, l) in gene_spans(case['bins'], ()).items()]
        ck.count(['gene_map', case], nontrivial=len(exp) > 1, cls='%s:gene_map' % cls)
        if code != exp:
            ck.violation('_get_gene_map does not map each gene to its first and last bin', case, code=code, expected=exp,
                         clause='C16_partition')
        elif code != [tuple(r) for r in m]:
            ck.tie_break('model gene_map differs from the code', case, code=code, model=m)


# ----------------------------------------------------------------------------
# streams


def seq_ok(seq):
    return precondition([(None, 0, 0, s) for s in seq], IGNORED + ALIASES)


def exhaustive_cases(maxlen, all_layouts):
    """every admissible sequence x {default, shifted index}; the chromosome layout (alone / as second chromosome /
    followed by a second chromosome) rotates with the sequence number in the quick tier, all three in the thorough tier"""
    out = []
    n = 0
    for length in range(0, maxlen + 1):
        for seq in itertools.product(['A', 'B', 'Antitarget'], repeat=length):
            if not seq_ok(seq):
                continue
            n += 1
            seq = list(seq)
            layouts = [[('chr1', seq)] if seq else [('chr1', ['Z', 'Antitarget']), ('chr2', seq)],
                       [('chr1', ['Z', 'Antitarget']), ('chr2', seq)],
                       [('chr1', seq), ('chr2', ['Antitarget', 'Z', 'Z', '-'])] if seq else [('chr1', ['Antitarget'])]]
            for k, index in enumerate(('default', 'shifted')):
                for j, lay in enumerate(layouts):
                    if all_layouts or (n + k) % 3 == j:
                        out.append({'bins': names_table(lay, vary=n), 'index': index, 'ignore': None})
    return out, n


def load_corpus():
    path = os.path.join(vlib.VERIF, 'corpus', 'c16.json')
    if not os.path.exists(path):
        return []
    return json.load(open(path))


def corpus_cases():
    out = []
    for ent in load_corpus():
        bins = names_table([(c, names) for c, names in ent['chromosomes']])
        for index in ent.get('index', ['default', 'shifted', 'filtered']):
            out.append({'bins': bins, 'index': index, 'ignore': None, 'corpus': ent['name']})
    return out


def gm_case(bins, index, rng=None, th=0.25, segments=None, **kw):
    c = {'bins': bins, 'index': index, 'threshold': th, 'min_probes': 1, 'skip_low': False, 'haploid_x_ref': False,
         'female': True, 'segments': segments, 'build': None, 'ccols': None, 'scols': None, 'sextra': None}
    c.update(kw)
    return c


def run(ck, scratch):
    ck.rule = ('COMPLETE DataFrames (header, column order, row order, every cell) of do_genemetrics / squash_genes / do_breaks are '
               'compared model-vs-code; by_gene of every table is also compared with the closed form of C16_by_gene_general; '
               'bin-table column sets rotate (with / without probes, permuted), segment tables rotate (cns / call-output / no '
               'weight / no probes / bare, extra NaN-able columns), genome build None / grch37 / grch38 with chrX bins laid '
               'across the four PAR boundaries, sex given or guessed (samples with X / Y levels of a male or female on either '
               'reference), summary function default / median / mean / max. '
               'corpus (inputs of the repaired by_gene defect, the witnesses outside the precondition) first; exhaustive: every name sequence over {A,B,Antitarget} '
               'whose gene spans are disjoint x {default, shifted index} x {alone, as 2nd chromosome, followed by a 2nd '
               'chromosome} through by_gene (+ squash/genemetrics on the single-chromosome variant); random: tables of 1..5 '
               'chromosomes, 0..12 genes of 1..10 bins with Antitarget/-/./CGH/Background bins anywhere incl. inside genes, '
               'chromosome ends, single trailing bins, default/shifted/reversed/filtered index, custom ignore lists; '
               'genemetrics with dyadic log2/weights biased to +-threshold and the low-coverage cut, thresholds, '
               'min_probes 0..5, skip_low, both sex flags, segments tiling the chromosomes with boundaries on bin ends and '
               'in gaps; breaks with boundaries anywhere; edge stream breaks the precondition (shared comma names, '
               'interleaved/repeated/empty names, zero weights) and is compared code-vs-model only. non-trivial = '
               'precondition holds and at least one gene / one expected row; distinct by case hash')
    ck.exhaustive = True
    ck.explanation = 'exhaustive: true refers to the enumerated by_gene scope only (coverage.exhaustive_scope)'
    ck.unproved_remainder = UNPROVED
    if not ck.build_status.get('driver_ok'):
        raise RuntimeError('model driver unavailable')
    rng = ck.rng
    quick = ck.tier == 'quick'

    # 1. corpus
    cc = corpus_cases()
    check_by_gene(ck, cc, 'corpus')
    check_squash(ck, [dict(c, squash_antitarget=sa) for c in cc for sa in (None, True)], 'corpus')
    check_genemetrics(ck, [gm_case(c['bins'], c['index'], th=0.25, min_probes=mp) for c in cc for mp in (1, 3)], 'corpus')
    cb = []
    for c in cc:
        if c['index'] != 'default':
            continue
        segs = []
        for chrom, crows in chrom_blocks(c['bins']):
            cut = crows[len(crows) // 2][1]
            if crows[0][1] < cut:
                segs.append((chrom, crows[0][1], cut, '-', 0.0, 1.0, 1.0, 1))
            segs.append((chrom, cut, crows[-1][2], '-', 0.5, 1.0, 1.0, 1))
        cb.extend({'bins': c['bins'], 'index': 'default', 'segments': segs, 'min_probes': mp} for mp in (1, 2))
    check_breaks(ck, cb, 'corpus')

    # 2. exhaustive scope
    L = 7 if quick else 9
    ex, nseq = exhaustive_cases(L, not quick)
    ck.extra['exhaustive_scope'] = ('all name sequences of length <= %d over {A,B,Antitarget} with disjoint gene spans (%d '
                                    'sequences) x {default, shifted index} x {1 chromosome | as second chromosome | followed '
                                    'by a second chromosome%s}: %d by_gene cases' % (L, nseq, '' if not quick else ' (layout rotates with the sequence number)', len(ex)))
    check_by_gene(ck, ex, 'exh')
    sub = [c for c in ex if len(chrom_blocks(c['bins'])) == 1 and c['index'] == 'shifted']
    if quick:
        sub = sub[::3]
    check_squash(ck, [dict(c, squash_antitarget=sa) for c in sub for sa in (False, True)], 'exh')
    check_genemetrics(ck, [gm_case(c['bins'], c['index'], th=0.5, min_probes=2) for c in sub], 'exh')

    # 3. random valid stream
    n = 400 if quick else 10000
    bg, sq, gm, bk, gmap = [], [], [], [], []
    for i in range(n):
        th = rng.choice([0.2, 0.25, 0.5, 0.0, 1.0, 0.25, 0.2])
        hap = rng.random() < 0.5
        build = rng.choice([None, None, None, 'grch37', 'grch38'])
        guess = rng.random() < 0.2
        sexy = (rng.choice(['m', 'f']), hap) if (guess or rng.random() < 0.15) else False
        bins = gen_table(rng, th if th else 0.25, build=build, sexy=sexy)
        index = rng.choice(['default', 'shifted', 'filtered', 'reversed'])
        ign = rng.choice([None, None, None, ['-'], [], ['G0', '.'], ['-', '.', 'CGH', 'G1']])
        if bins:
            bg.append({'bins': bins, 'index': index, 'ignore': ign})
            sq.append({'bins': bins, 'index': index, 'ignore': ign, 'squash_antitarget': rng.choice([None, False, True]),
                       'ccols': rng.choice(SQUASH_COLSETS), 'summary': rng.choice([None, None, None, 'median', 'mean', 'max'])})
        else:
            bg.append({'bins': bins, 'index': 'default', 'ignore': ign})
        if not bins:
            continue
        opts = dict(th=th, min_probes=rng.choice([0, 1, 1, 2, 3, 3, 5]), skip_low=rng.random() < 0.4,
                    haploid_x_ref=hap, female=None if guess else (rng.random() < 0.5), build=build,
                    ccols=rng.choice(CNA_COLSETS))
        gm.append(gm_case(bins, index, **opts))
        if i % 9 == 0:
            gm.append(gm_case(bins, index, defaults=True, th=0.2, min_probes=3, skip_low=False,
                              haploid_x_ref=opts['haploid_x_ref'], female=opts['female'], build=build, ccols=opts['ccols']))
        segs = gen_segments(rng, bins, th if th else 0.25)
        scols, sextra = gen_seg_columns(rng, segs)
        gm.append(gm_case(bins, index, segments=segs, scols=scols, sextra=sextra, **opts))
        bsegs = gen_break_segments(rng, bins)
        bk.append({'bins': bins, 'index': index, 'segments': bsegs, 'min_probes': rng.choice([1, 1, 1, 2, 3])})
        if i % 7 == 0:
            bk.append({'bins': bins, 'index': index, 'segments': bsegs, 'min_probes': 1, 'defaults': True})
        if i % 5 == 0:
            gmap.append({'bins': chrom_blocks(bins)[0][1]})
    check_by_gene(ck, bg, 'rand')
    check_squash(ck, sq, 'rand')
    check_genemetrics(ck, gm, 'rand')
    check_breaks(ck, bk, 'rand')
    check_gene_map(ck, gmap, 'rand')

    # 4. edge stream: precondition broken on purpose (a gene recurring after another one, comma-joined names shared by two
    # genes, interleaved genes, empty names), zero weights, min_probes 0 for breaks
    n = 150 if quick else 3000
    bg, sq, gm, bk, gmap = [], [], [], [], []
    for i in range(n):
        build = rng.choice([None, None, 'grch38'])
        bins = gen_table(rng, 0.25, edge=True, maxgenes=6, build=build)
        if not bins:
            continue
        if i % 6 == 0:      # zero weights
            bins = [b[:5] + (rng.choice([0.0, 0.0, b[5]]),) + b[6:] for b in bins]
        index = rng.choice(['default', 'shifted', 'filtered'])
        bg.append({'bins': bins, 'index': index, 'ignore': None})
        sq.append({'bins': bins, 'index': index, 'ignore': None, 'squash_antitarget': rng.choice([False, True]),
                   'ccols': rng.choice(SQUASH_COLSETS), 'summary': rng.choice([None, 'median'])})
        opts = dict(th=rng.choice([0.25, 0.0]), min_probes=rng.choice([0, 1, 2]), skip_low=rng.random() < 0.5,
                    haploid_x_ref=rng.random() < 0.5, female=rng.choice([True, False, False, None]), build=build,
                    ccols=rng.choice(CNA_COLSETS))
        gm.append(gm_case(bins, index, **opts))
        if i % 6 != 0:
            segs = gen_segments(rng, bins, 0.25)
            scols, sextra = gen_seg_columns(rng, segs)
            gm.append(gm_case(bins, index, segments=segs, scols=scols, sextra=sextra, **opts))
        bk.append({'bins': bins, 'index': index, 'segments': gen_break_segments(rng, bins), 'min_probes': rng.choice([0, 0, 1])})
        gmap.append({'bins': chrom_blocks(bins)[0][1]})
    check_by_gene(ck, bg, 'edge')
    check_squash(ck, sq, 'edge')
    check_genemetrics(ck, gm, 'edge')
    check_breaks(ck, bk, 'edge')
    check_gene_map(ck, gmap, 'edge')


UNPROVED = [
    'guessed sex (is_sample_female=None): C15\'s model of guess_xx is reused as is; the G statistic of Mood\'s median test is '
    'an oracle value per contingency table (scipy chi2_contingency), the C16 theorems hold for every such function; a '
    'guess whose combined score is within 1e-6 of the cut is counted float-ambiguous and not compared',
    'squash_genes summary function (default biweight location): an oracle with the contract "within [min, max] of its '
    'input" (C19_biloc_range; checked on every supplied point); C16_squash_rows holds for every function, '
    'C16_squash_values_in_range for every function meeting the contract',
    'float rounding: theorems are about exact rational arithmetic; a gene whose mean lies within 1e-7 of the threshold is '
    'float-ambiguous unless every float operation is exact (dyadic inputs); values are compared at 1e-9',
    'bin tables with further value columns (gc, rmask, spread) and missing (NaN) gene names / log2 are not modelled '
    '(the generators do not emit them); the bin table carries depth and weight, optionally probes; the segment table '
    'may lack depth / weight / probes and may carry any further NaN-able numeric columns',
    'C16_genemetrics_full_segments assumes bins sorted and not nested within each chromosome (searchsorted range query, '
    'C07); on other tables model and code are compared without a theorem',
]


def replay(ck, body):
    case = body.get('case')
    print(json.dumps(body, indent=1)[:4000])
    if not isinstance(case, dict):
        return 0
    ck.build_status = {'driver_ok': os.path.exists(vlib.DRIVER)}
    if 'min_probes' in case and 'threshold' not in case:
        check_breaks(ck, [case], 'replay')
    elif 'threshold' in case:
        check_genemetrics(ck, [case], 'replay')
    elif 'squash_antitarget' in case:
        check_squash(ck, [case], 'replay')
    else:
        check_by_gene(ck, [case], 'replay')
    print('replay: %d violation(s), %d tie-break(s)' % (len(ck.violations), len(ck.tie_breaks)))
    return 1 if (ck.violations or ck.tie_breaks) else 0
