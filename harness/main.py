"""Entry point: ./check <ID> [--tier quick|thorough] [--replay PATH] [--no-build]"""
import sys, os, argparse, importlib, traceback, json, logging, warnings
warnings.filterwarnings('ignore')
logging.disable(logging.CRITICAL)
sys.path.insert(0, os.path.dirname(os.path.abspath(__file__)))
import vlib


def main():
    ap = argparse.ArgumentParser()
    ap.add_argument('prop')
    ap.add_argument('--tier', default=os.environ.get('VERIF_TIER', 'quick'), choices=['quick', 'thorough'])
    ap.add_argument('--replay', default=None)
    ap.add_argument('--no-build', action='store_true')
    a = ap.parse_args()
    pid = a.prop.upper()
    mod = importlib.import_module(pid.lower())
    ck = vlib.Checker(pid, level=getattr(mod, 'LEVEL', 'proof'), tier=a.tier)
    if a.replay:
        body = json.load(open(a.replay))
        rc = mod.replay(ck, body)
        sys.exit(rc)
    if a.no_build:
        st = {'translator_ok': True, 'make_ok': True, 'props_built': True, 'driver_ok': os.path.exists(vlib.DRIVER),
              'theorems': [], 'assumptions': {}, 'forbidden': [], 'bad_axioms': {}}
    else:
        st = vlib.build(pid, log=os.path.join(vlib.BUILD, 'build_%s.log' % pid), thorough=(a.tier == 'thorough'))
    ck.build_status = st
    scratch = vlib.scratch_dir(pid)
    try:
        mod.run(ck, scratch)
    except Exception as exc:
        traceback.print_exc()
        # An exception that comes out of the implementation (a frame inside the repository under
        # test) on an input the harness generated as valid is a verdict, not an infrastructure
        # failure: the unchanged tree answers every such input, so the code now raises where the
        # property promises a result.  Anything else is a failure of the harness itself.
        repo = os.path.realpath(vlib.REPO) + os.sep
        frames = traceback.extract_tb(exc.__traceback__)
        in_repo = [f for f in frames if os.path.realpath(f.filename).startswith(repo)]
        if in_repo and not isinstance(exc, (MemoryError, KeyboardInterrupt)):
            last = in_repo[-1]
            ck.violation('the implementation raised %s at %s:%d (%s) on an input of the check\'s valid stream; '
                         'the run stopped there' % (type(exc).__name__, os.path.relpath(last.filename, repo), last.lineno, last.name),
                         {'seed': ck.seed, 'tier': a.tier, 'traceback': traceback.format_exc().splitlines()[-25:]},
                         clause='%s (uncaught exception of the implementation)' % pid)
            vlib.rm_scratch(scratch)
            sys.exit(ck.finish())
        # The harness itself failed while READING the implementation's answer (a column that is no longer there, a value
        # of another type, a table of another length): the answer does not have the shape the property states.  On the
        # unchanged tree this never happens (the quick and thorough tiers run clean), so it is a verdict as well.  Only
        # when the deepest harness frame is the property's own module -- a failure inside vlib (model driver, build,
        # scratch files) stays an infrastructure failure.
        hdir = os.path.dirname(os.path.abspath(__file__)) + os.sep
        hframes = [f for f in frames if os.path.realpath(f.filename).startswith(hdir)]
        own = pid.lower() + '.py'
        conv = str(exc).startswith(('cannot convert', 'cannot encode'))     # a NaN / inf / object the implementation answered
        if hframes and (os.path.basename(hframes[-1].filename) == own
                        or (conv and any(os.path.basename(f.filename) == own for f in hframes))) \
                and isinstance(exc, (KeyError, IndexError, AttributeError, TypeError, ValueError, AssertionError, ZeroDivisionError, RuntimeError, OverflowError)) \
                and st.get('make_ok') and st.get('driver_ok', True):
            last = hframes[-1]
            ck.violation('the check could not read the implementation\'s answer: %s: %s at harness/%s:%d (%s); the answer does '
                         'not have the shape the property states (missing column / other type / other length)'
                         % (type(exc).__name__, str(exc)[:200], os.path.basename(last.filename), last.lineno, last.name),
                         {'seed': ck.seed, 'tier': a.tier, 'traceback': traceback.format_exc().splitlines()[-25:]},
                         clause='%s (answer of unexpected shape)' % pid)
            vlib.rm_scratch(scratch)
            sys.exit(ck.finish())
        print('INFRASTRUCTURE FAILURE in the harness for %s (no verdict)' % pid)
        vlib.rm_scratch(scratch)
        sys.exit(2)
    vlib.rm_scratch(scratch)
    rc = ck.finish()
    sys.exit(rc)


if __name__ == '__main__':
    main()
