"""Entry point: ./check <ID> [--tier quick|thorough] [--replay PATH] [--no-build]"""
import sys, os, argparse, importlib, traceback, json, logging, warnings
warnings.filterwarnings('ignore')
logging.disable(logging.CRITICAL)
sys.path.insert(0, os.path.dirname(os.path.abspath(__file__)))
import vlib


def main():
    ap = argparse.ArgumentParser()
    ap.add_argument('prop')
    ap.add_argument('--tier', default=os.environ.get('VERIF_TIER', 'quick'), choices=['quick', 'thorough'])
    ap.add_argument('--replay', default=None)
    ap.add_argument('--no-build', action='store_true')
    a = ap.parse_args()
    pid = a.prop.upper()
    mod = importlib.import_module(pid.lower())
    ck = vlib.Checker(pid, level=getattr(mod, 'LEVEL', 'proof'), tier=a.tier)
    if a.replay:
        body = json.load(open(a.replay))
        rc = mod.replay(ck, body)
        sys.exit(rc)
    if a.no_build:
        st = {'translator_ok': True, 'make_ok': True, 'props_built': True, 'driver_ok': os.path.exists(vlib.DRIVER),
              'theorems': [], 'assumptions': {}, 'forbidden': [], 'bad_axioms': {}}
    else:
        st = vlib.build(pid, log=os.path.join(vlib.BUILD, 'build_%s.log' % pid), thorough=(a.tier == 'thorough'))
    ck.build_status = st
    scratch = vlib.scratch_dir(pid)
    try:
        mod.run(ck, scratch)
    except Exception:
        traceback.print_exc()
        print('INFRASTRUCTURE FAILURE in the harness for %s (no verdict)' % pid)
        vlib.rm_scratch(scratch)
        sys.exit(2)
    vlib.rm_scratch(scratch)
    rc = ck.finish()
    sys.exit(rc)


if __name__ == '__main__':
    main()
