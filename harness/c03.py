"""C03 -- segments tile each chromosome and account for every surviving bin.

Correspondence: cnvlib.segmentation.do_segmentation (methods none, haar, hmm,
hmm-tumor, hmm-germline; skip_low / outlier filter / min_weight; 1..16
processes; variants= for none and haar) against the extracted Coq model
(Model/Arms.v, Model/Segment.v, which run the C07 iter_slices model for the
aggregation step and the C11 HaarSeg core for haar).
Two streams.  (1) per chromosome, every method: the model is fed the outlier
mask (segmentation.drop_outliers on the same bins) and the breakpoints
(cumulative sums of the code's own `probes` column) as oracles.  (2) whole
table, none and haar: the breakpoints and the log2 column of haar are COMPUTED
by the model from oracles recorded by taps inside this process (the smoothed
signal, the FDR p-values); variants= adds the state paths of the
allele-frequency HMM as oracle and the BAF of a range as oracle function; rows
are compared in table order, across 1, 2, 3, 16 processes.
Independently of the model, the clauses of the property are evaluated
directly on the code's output in exact rational arithmetic."""
import os, json, math, re
from fractions import Fraction
import vlib
from vlib import Err

LEVEL = 'proof'

# Repaired in /repo 6cbbdf7 (kept as a signature so a regression is labelled): for the whole-table
# (hmm) methods transfer_fields stretched with the table's first / last bin even when that bin was
# on another chromosome than the first / last segment. Both old failing inputs are in the corpus.
SIG_HMM_EDGE = 'c03-hmm-stretch-across-chromosomes'
HMM_EDGE_OPEN = False     # True would keep the random hmm stream out of that region
# Open known finding: the hmm methods raise ZeroDivisionError when exactly one bin is left to fit the model on
SIG_HMM_SINGLE = 'c03-hmm-single-autosomal-bin'
HMM_SINGLE_OPEN = True
# NaN weights (not in the property's quantifier; an edge stream): dropped by the weight filter since /repo
# 81bc4ba; a segment spanning a NaN-weight bin reports weight NaN and depth 0.0, mirrored by the model and
# kept out of the C03_fields depth oracle
NAN_WEIGHTS = True

ARM_METHODS = ('none', 'haar')
HMM_METHODS = ('hmm', 'hmm-tumor', 'hmm-germline')
IGNORED = ('-', '.', 'CGH', 'Antitarget', 'Background')     # literal names of the property's "not meaningful"
MIN_CVG = -15.0            # NULL_LOG2_COVERAGE - MIN_REF_COVERAGE  (cross-checked against the model's flags)
NAN = float('nan')


# ----------------------------------------------------------------------------
# tables <-> code

def to_cna(table):
    import pandas as pd
    from cnvlib.cnary import CopyNumArray as CNA
    rows = []
    for name, bins in table:
        for lo, hi, gene, log2, w, depth in bins:
            rows.append((name, lo, hi, gene, log2, depth, NAN if w is None else w))
    df = pd.DataFrame.from_records(rows, columns=['chromosome', 'start', 'end', 'gene', 'log2', 'depth', 'weight'])
    df['chromosome'] = df['chromosome'].astype(str)
    return CNA(df, {'sample_id': 'verif'})


def fnum(x):
    x = float(x)
    return None if x != x else x


def run_code(table, method, opts, processes=1):
    """-> (order, {chrom: [(lo, hi, probes, log2, gene, weight, depth)]}) or Err"""
    from cnvlib import segmentation
    cna = to_cna(table)
    try:
        seg = segmentation.do_segmentation(cna, method, skip_low=opts['skip_low'], skip_outliers=opts['skip_outliers'],
                                           min_weight=opts['min_weight'], processes=processes)
    except AssertionError as e:
        return Err('AssertionError')
    except Exception as e:     # noqa
        return Err('%s: %s' % (type(e).__name__, str(e)[:120]))
    d = seg.data
    out, order = {}, []
    if len(d) == 0:
        return order, out
    for row in d.itertuples(index=False):
        c = str(row.chromosome)
        if c not in out:
            out[c] = []
            order.append(c)
        pr = float(row.probes)
        out[c].append((int(row.start), int(row.end), int(pr) if pr == int(pr) else pr, fnum(row.log2), str(row.gene),
                       fnum(row.weight), fnum(row.depth)))
    return order, out


def code_arms(table):
    """arm sizes per chromosome as GenomicArray.by_arm cuts the unfiltered table"""
    cna = to_cna(table)
    arms = {}
    for chrom, sub in cna.by_arm():
        arms.setdefault(str(chrom), []).append(len(sub))
    return arms


def outlier_masks(table, method, opts, arms):
    """the outlier oracle: which input bins segmentation.drop_outliers removes, called the way
    _do_segmentation calls it (after drop_low_coverage; per arm for the per-arm methods, on the
    whole table for the hmm methods).  -> {chrom: [bool per input bin]}"""
    from cnvlib import segmentation
    masks = {name: [False] * len(bins) for name, bins in table}
    if not opts['skip_outliers']:
        return masks
    cna = to_cna(table)
    offs, o = {}, 0
    for name, bins in table:
        offs[name] = o
        o += len(bins)
    pieces = []
    if method in ARM_METHODS:
        for name, bins in table:
            a = offs[name]
            for sz in arms[name]:
                pieces.append(cna[a:a + sz])
                a += sz
    else:
        pieces.append(cna)
    for piece in pieces:
        f = piece.drop_low_coverage() if opts['skip_low'] else piece
        if not len(f):
            continue
        g = segmentation.drop_outliers(f, 50, opts['skip_outliers'])
        gone = set(f.data.index) - set(g.data.index)
        for lab in gone:
            # label -> (chrom, position)
            for name, bins in table:
                if offs[name] <= lab < offs[name] + len(bins):
                    masks[name][lab - offs[name]] = True
    return masks


# ----------------------------------------------------------------------------
# independent statement of the property on the code's output

def py_survives(b, opts, outlier):
    lo, hi, gene, log2, w, depth = b
    if opts['skip_low'] and (log2 < MIN_CVG or depth == 0):
        return False
    if outlier:
        return False
    if w is None:
        return False
    if opts['min_weight']:
        return not (w < opts['min_weight'])
    return w != 0


def F(x):
    return Fraction(x)


def py_gene(names):
    seen, out = set(), []
    for g in names:
        if g in IGNORED or g in seen:
            continue
        seen.add(g)
        out.append(g)
    return ','.join(out) if out else '-'


def oracle_chrom(method, bins, surv, arms, rows):
    """the clauses of C03 on one chromosome. bins: input bins; surv: bool per bin; arms: arm sizes
    (per-arm methods) or None; rows: the code's segments. -> list of (clause, message)"""
    bad = []
    S = [b for b, s in zip(bins, surv) if s]
    # tiling
    for i, r in enumerate(rows):
        if not r[0] < r[1]:
            bad.append(('C03_tiling', 'segment %d has non-positive length: %d-%d' % (i, r[0], r[1])))
        if i and not (rows[i - 1][0] <= r[0]):
            bad.append(('C03_tiling', 'segments not sorted at %d' % i))
        if i and not (rows[i - 1][1] <= r[0]):
            bad.append(('C03_tiling', 'segments %d and %d overlap' % (i - 1, i)))
        if r[0] < bins[0][0] or r[1] > bins[-1][1]:
            bad.append(('C03_tiling', 'segment %d (%d-%d) leaves the span of the input bins %d-%d' % (
                i, r[0], r[1], bins[0][0], bins[-1][1])))
    # accounting
    if S and not rows:
        bad.append(('C03_accounting', 'chromosome has %d surviving bins but no segment' % len(S)))
    inside = [[b for b in S if r[0] <= b[0] and b[1] <= r[1]] for r in rows]
    for b in S:
        k = sum(1 for r in rows if r[0] <= b[0] and b[1] <= r[1])
        if k != 1:
            bad.append(('C03_accounting', 'surviving bin %d-%d lies in %d segments' % (b[0], b[1], k)))
            break
    for i, r in enumerate(rows):
        if r[2] != len(inside[i]):
            bad.append(('C03_accounting', 'segment %d: probes %r but %d surviving bins inside' % (i, r[2], len(inside[i]))))
    if sum(r[2] for r in rows) != len(S):
        bad.append(('C03_accounting', 'probes sum to %r, %d bins survived' % (sum(r[2] for r in rows), len(S))))
    # arm edges
    if arms is not None:
        a = 0
        for sz in arms:
            ab, asv = bins[a:a + sz], surv[a:a + sz]
            a += sz
            if not any(asv):
                continue
            lo, hi = ab[0][0], ab[-1][1]
            mine = [r for r in rows if r[0] < hi and lo < r[1]]
            if not mine:
                bad.append(('C03_accounting', 'arm %d-%d has surviving bins but no segment' % (lo, hi)))
            elif mine[0][0] != lo or mine[-1][1] != hi:
                bad.append(('C03_arm_edges', 'arm %d-%d: segments run %d-%d' % (lo, hi, mine[0][0], mine[-1][1])))
    # fields
    for i, r in enumerate(rows):
        sp = [b for b in bins if b[0] < r[1] and r[0] < b[1]]
        if any(b[4] is None for b in sp):
            if r[5] is not None:
                bad.append(('C03_fields', 'segment %d spans a NaN weight but reports weight %r' % (i, r[5])))
        else:
            sw = sum(F(b[4]) for b in sp)
            if not vlib.close(r[5], sw):
                bad.append(('C03_fields', 'segment %d: weight %r, spanned bins sum to %s' % (i, r[5], float(sw))))
            if sw > 0:
                dp = sum(F(b[5]) * F(b[4]) for b in sp) / sw
                if not vlib.close(r[6], dp):
                    bad.append(('C03_fields', 'segment %d: depth %r, weighted mean of spanned bins %s' % (i, r[6], float(dp))))
        g = py_gene([b[2] for b in sp])
        if r[4] != g:
            bad.append(('C03_fields', 'segment %d: gene %r, expected %r' % (i, r[4], g)))
        if method != 'haar' and inside[i]:
            ws = [F(b[4]) for b in inside[i]]
            ls = [F(b[3]) for b in inside[i]]
            m = sum(l * w for l, w in zip(ls, ws)) / sum(ws) if sum(ws) > 0 else sum(ls) / len(ls)
            if not vlib.close(r[3], m):
                bad.append(('C03_log2_mean', 'segment %d: log2 %r, weighted mean of its surviving bins %s' % (i, r[3], float(m))))
    return bad


# ----------------------------------------------------------------------------
# model side

def enc_bins(bins):
    return [[lo, hi, gene, log2, w, depth] for lo, hi, gene, log2, w, depth in bins]


def bps_of(rows):
    out, c = [], 0
    for r in rows[:-1]:
        c += int(r[2])
        out.append(c)
    return out


def rows_equal(code, model, method):
    """code rows vs model rows of one chromosome -> None or message"""
    if len(code) != len(model):
        return '%d rows vs %d in the model' % (len(code), len(model))
    for i, (c, m) in enumerate(zip(code, model)):
        mlo, mhi, mpr, mlog2, mgene, mw, mdp = m
        if (c[0], c[1], c[2], c[4]) != (mlo, mhi, mpr, mgene):
            return 'row %d: (start,end,probes,gene) %r vs model %r' % (i, (c[0], c[1], c[2], c[4]), (mlo, mhi, mpr, mgene))
        if not vlib.close(c[5], mw):
            return 'row %d: weight %r vs model %r' % (i, c[5], None if mw is None else float(mw))
        if not vlib.close(c[6], mdp):
            return 'row %d: depth %r vs model %r' % (i, c[6], float(mdp))
        if method != 'haar' and not vlib.close(c[3], mlog2):
            return 'row %d: log2 %r vs model %r' % (i, c[3], None if mlog2 is None else float(mlog2))
    return None


def model_method(method):
    return 'hmm' if method.startswith('hmm') else method


# ----------------------------------------------------------------------------
# one case

def in_hmm_edge_signature(case, survs):
    if case['method'] not in HMM_METHODS:
        return False
    has = [any(survs[name]) for name, _ in case['table']]
    return any(has) and not (has[0] and has[-1])


def fit_set_size(table, survs):
    """number of bins the HMM is fitted on: surviving bins on chromosomes named (chr)?<digits>, or all
    surviving bins if there is none (GenomicArray.autosomes on the filtered table)"""
    auto = sum(sum(survs[name]) for name, _ in table if re.match(r'(chr)?\d+$', name))
    return auto if auto else sum(sum(survs[name]) for name, _ in table)


def check_case(ck, case, cls):
    """run the code, the direct oracle and the model on one case"""
    table, method = case['table'], case['method']
    opts = {'skip_low': case['skip_low'], 'skip_outliers': case['skip_outliers'], 'min_weight': case['min_weight']}
    arms = code_arms(table)
    masks = outlier_masks(table, method, opts, arms)
    survs = {name: [py_survives(b, opts, o) for b, o in zip(bins, masks[name])] for name, bins in table}
    res = run_code(table, method, opts, case.get('processes', 1))
    nsurv = sum(sum(v) for v in survs.values())
    nbins = sum(len(b) for _, b in table)
    sig = SIG_HMM_EDGE if in_hmm_edge_signature(case, survs) else None

    # --- the code raised
    if isinstance(res, Err):
        ck.count(case, nontrivial=True, cls=cls + ':error')
        if method in HMM_METHODS and res.msg.startswith('ZeroDivisionError') and fit_set_size(table, survs) == 1:
            sig = SIG_HMM_SINGLE
        if nsurv:
            ck.violation('do_segmentation(%s) raised %s on a table with %d surviving bins' % (method, res.msg, nsurv), case, sig=sig,
                         code=res, expected='a segment on every chromosome with a surviving bin', clause='C03_accounting')
        else:
            ck.tie_break('do_segmentation(%s) raised %s on a table without survivors' % (method, res.msg), case, code=res)
        return None
    order, rows = res
    nseg = sum(len(v) for v in rows.values())
    ck.count(case, nontrivial=(nsurv < nbins or nseg > len(table) or any(len(a) > 1 for a in arms.values())), cls=cls)

    # --- direct oracle
    bad = []
    for name in rows:
        if name not in dict(table):
            bad.append(('C03_tiling', 'segment on a chromosome %r without input bins' % name))
    for name, bins in table:
        bad += [(cl, '%s: %s' % (name, msg)) for cl, msg in
                oracle_chrom(method, bins, survs[name], arms[name] if method in ARM_METHODS else None, rows.get(name, []))]
    if bad:
        ck.violation('%s: %s' % (method, bad[0][1]), case, sig=sig, code=rows, expected=[m for _, m in bad[:6]], clause=bad[0][0])
        return rows

    # --- model
    if method in ARM_METHODS:
        reqs = [[method, opts['skip_low'], F(opts['min_weight']), enc_bins(bins), masks[name], bps_of(rows.get(name, []))]
                for name, bins in table]
        mres = vlib.model_batch('c03_chrom', reqs)
        flags = vlib.model_batch('c03_survives', [[opts['skip_low'], F(opts['min_weight']), enc_bins(bins), masks[name]]
                                                  for name, bins in table])
        marms = vlib.model_batch('c03_arms', [[[[b[0], b[1]] for b in bins], code_share(len(bins))] for name, bins in table])
        for (name, bins), m, fl, ma in zip(table, mres, flags, marms):
            if fl != survs[name]:
                raise RuntimeError('model survivor flags differ from the harness oracle on %s: %r vs %r' % (name, fl, survs[name]))
            if ma[0] is not True:
                raise RuntimeError('round(0.1 * %d) = %d violates the rounding contract' % (len(bins), code_share(len(bins))))
            ma = ma[1]
            if ma != arms[name]:
                ck.tie_break('model arm split differs from by_arm on %s' % name, case, code=arms[name], model=ma)
                return rows
            if isinstance(m, Err):
                raise RuntimeError('model error %r' % (m,))
            msg = rows_equal(rows.get(name, []), m, method)
            if msg:
                ck.tie_break('%s %s: %s' % (method, name, msg), case, code=rows.get(name, []), model=m)
                return rows
    else:
        req = [opts['skip_low'], F(opts['min_weight']),
               [[name, enc_bins(bins), masks[name], bps_of(rows.get(name, []))] for name, bins in table]]
        m = vlib.model_call('c03_hmm', req)
        if isinstance(m, Err):
            ck.tie_break('%s: model says %r, code returned a table' % (method, m), case, code=rows, model=m)
            return rows
        for (name, bins), (mname, mrows) in zip(table, m):
            msg = rows_equal(rows.get(name, []), mrows, method)
            if msg:
                ck.tie_break('%s %s: %s' % (method, name, msg), case, code=rows.get(name, []), model=mrows)
                return rows
    return rows


def check_processes(ck, case, rows1):
    for p in (2, 3, 16):
        c2 = dict(case)
        c2['processes'] = p
        opts = {'skip_low': case['skip_low'], 'skip_outliers': case['skip_outliers'], 'min_weight': case['min_weight']}
        res = run_code(case['table'], case['method'], opts, p)
        ck.count(c2, nontrivial=False, cls='processes:%d' % p)
        got = res if isinstance(res, Err) else res[1]
        if repr(got) != repr(rows1):
            ck.violation('%s: table with %d processes differs from the table with 1 process' % (case['method'], p), c2,
                         code=got, expected=rows1, clause='C03_processes')
            return


# ----------------------------------------------------------------------------
# generators

CHROMS = ['chr1', 'chr2', 'chr3', 'chr7', 'chr22', 'chrX', 'chrY']
GENES = ['TP53', 'BRCA1', 'BRCA2', 'EGFR', 'MYC', 'KRAS', 'A,B', 'Antitarget', 'Background', '-', '.', 'CGH', 'NRAS', 'x']


def snap(x):
    """round to a float with a short binary expansion (keeps exact rationals small)"""
    return round(x * 1024) / 1024.0


def gen_chrom(rng, n, gap_mode, noise):
    """one chromosome: n sorted non-overlapping bins"""
    bins = []
    pos = rng.choice([0, 0, 1000, rng.randint(0, 5000000)])
    # where the 100 kb-sized gap goes (index of the bin after the gap)
    gap_at, gap_sz, gap2 = None, 0, None
    if gap_mode != 'nogap' and n >= 2:
        m = 50
        cand = {'at-margin-lo': m + 1, 'outside-lo': m, 'at-margin-hi': n - m - 1, 'outside-hi': n - m,
                'inside': rng.randint(min(m + 1, n - 1), max(m + 1, n - m - 1)) if n > 2 * m + 1 else rng.randint(1, n - 1),
                'small': rng.randint(1, n - 1), 'tie': rng.randint(1, n - 1)}[gap_mode]
        gap_at = max(1, min(n - 1, cand))
        gap_sz = rng.choice([100000, 100000, 99999, 100001, 250000, 3000000])
        if gap_mode == 'small':
            gap_sz = rng.choice([99999, 50000])
        if gap_mode == 'tie' and n > 3:
            gap2 = rng.choice([j for j in range(1, n) if j != gap_at])
    steps = sorted(rng.sample(range(1, n), min(n - 1, rng.choice([0, 1, 1, 2])))) if n > 1 else []
    level, levels = 0.0, []
    for i in range(n):
        if i in steps:
            level += rng.choice([-1.2, -0.8, 0.7, 1.0, 1.5])
        levels.append(level)
    gname = rng.choice(GENES)
    # one chromosome in four carries small weights throughout (a run's summed weight then stays below 1: the weighted
    # mean of squash_region / transfer_fields must still be used -- only a summed weight of exactly 0 falls back)
    wscale = rng.choice([1.0, 1.0, 1.0, 0.0625])
    for i in range(n):
        if i == gap_at or i == gap2:
            pos += gap_sz
        elif i:
            pos += rng.choice([0, 0, 1, 50, 200, rng.randint(0, 3000)])
        ln = rng.choice([1, 100, 250, 500, rng.randint(1, 2000)])
        if rng.random() < 0.3:
            gname = rng.choice(GENES) if rng.random() < 0.6 else 'G%d' % rng.randint(0, 9)
        log2 = snap(levels[i] + rng.gauss(0, noise))
        w = max(snap(rng.uniform(0.05, 1.0) * wscale), 0.0009765625)
        depth = snap(rng.uniform(0.5, 200.0))
        bins.append([pos, pos + ln, gname, log2, w, depth])
        pos += ln
    return bins


def spoil(rng, bins, heavy):
    """null-coverage bins, zero / NaN weights, outlier spikes: at both edges and inside"""
    n = len(bins)
    idx = set()
    for _ in range(rng.choice([0, 1, 2, 3]) + (n // 15 if heavy else 0)):
        where = rng.choice(['first', 'last', 'first2', 'last2', 'inside', 'inside'])
        if where == 'first':
            idx.add(0)
        elif where == 'last':
            idx.add(n - 1)
        elif where == 'first2':
            idx.update(range(0, min(n, rng.randint(1, 3))))
        elif where == 'last2':
            idx.update(range(max(0, n - rng.randint(1, 3)), n))
        else:
            idx.add(rng.randrange(n))
    for i in sorted(idx):
        kind = rng.choice(['w0', 'w0', 'wnan', 'null', 'null15', 'depth0', 'lowish', 'spike'])
        if kind == 'wnan' and not NAN_WEIGHTS:
            kind = 'w0'
        b = bins[i]
        if kind == 'w0':
            b[4] = 0.0
        elif kind == 'wnan':
            b[4] = None
        elif kind == 'null':
            b[3] = rng.choice([-20.0, -25.0, -15.0009765625])
        elif kind == 'null15':
            b[3] = -15.0            # on the boundary: not dropped
        elif kind == 'depth0':
            b[5] = 0.0
        elif kind == 'lowish':
            b[4] = rng.choice([0.25, 0.5, 0.0009765625])
        elif kind == 'spike':
            b[3] = snap(b[3] + rng.choice([-9.0, 6.0, 8.0]))
    return bins


def gen_table(rng, size):
    """size: 'small' (1..12 bins), 'mid' (13..101), 'arm' (102..400, arm split possible)"""
    k = rng.choice([1, 1, 2, 2, 3, 4, 5, 6])
    names = sorted(rng.sample(CHROMS, k), key=CHROMS.index)
    if rng.random() < 0.15:
        names = [n[3:] for n in names]
    table = []
    noise = rng.choice([0.02, 0.1, 0.3])
    for j, name in enumerate(names):
        sz = size if j == 0 or rng.random() < 0.35 else 'small'
        if sz == 'small':
            n = rng.choice([1, 1, 2, 3, rng.randint(1, 12)])
        elif sz == 'mid':
            n = rng.choice([rng.randint(13, 60), 51, 52, 100, 101])
        else:
            n = rng.choice([102, 103, 104, 110, rng.randint(102, 200), rng.randint(102, 400), 400])
        gm = rng.choice(['nogap', 'nogap', 'small', 'inside', 'inside', 'at-margin-lo', 'at-margin-hi', 'outside-lo', 'outside-hi', 'tie'])
        bins = gen_chrom(rng, n, gm, noise)
        spoil(rng, bins, heavy=rng.random() < 0.3)
        if rng.random() < 0.06:              # a chromosome with no survivor at all
            for b in bins:
                b[4] = 0.0
        table.append([name, bins])
    return table


def gen_opts(rng, table):
    ws = [b[4] for _, bins in table for b in bins if b[4]]
    mw = rng.choice([0, 0, 0, 0.25, 0.5, rng.choice(ws) if ws else 0.5, 0.0009765625])
    return {'skip_low': rng.random() < 0.5, 'skip_outliers': rng.choice([0, 10, 10, 5, 3]), 'min_weight': mw}


def hmm_ok(table, opts, method):
    """keep the random hmm stream out of the signature regions of open findings"""
    masks = outlier_masks(table, method, opts, None)
    survs = {name: [py_survives(b, opts, o) for b, o in zip(bins, masks[name])] for name, bins in table}
    if HMM_SINGLE_OPEN and fit_set_size(table, survs) == 1:
        return False
    if HMM_EDGE_OPEN:
        has = [any(survs[name]) for name, _ in table]
        if any(has) and not (has[0] and has[-1]):
            return False
    return True


# ----------------------------------------------------------------------------

def load_corpus():
    p = os.path.join(vlib.VERIF, 'corpus', 'c03.json')
    if not os.path.exists(p):
        return []
    return json.load(open(p))


def code_share(n):
    """the oracle r of Model/Arms.v: int(round(0.1 * n)) evaluated as by_arm evaluates it (same float product)"""
    return int(round(0.1 * n))


def arms_oracle(rows, r, sizes):
    """arms_spec (Spec/Segments.v) stated independently on by_arm's answer: the arms are the rows in order, at
    most two, none empty; split iff an interior gap (margin max(50, r) to both ends) is >= 100000, and then in
    front of the FIRST row with the largest interior gap. -> message or None"""
    n = len(rows)
    if sum(sizes) != n or any(z <= 0 for z in sizes) or len(sizes) > 2 or (n and not sizes):
        return 'arms %r do not partition the %d rows' % (sizes, n)
    m = max(50, r)
    inner = [(rows[j][0] - rows[j - 1][1], j) for j in range(m + 1, n - m)]
    big = [g for g, j in inner if g >= 100000]
    if (len(sizes) == 2) != bool(big):
        return 'split=%s but the largest interior gap is %s' % (len(sizes) == 2, max([g for g, _ in inner]) if inner else None)
    if len(sizes) == 2:
        top = max(g for g, _ in inner)
        first = min(j for g, j in inner if g == top)
        if sizes[0] != first:
            return 'cut in front of row %d, the first largest interior gap (%d) is in front of row %d' % (sizes[0], top, first)
    return None


def check_by_arm(ck):
    """by_arm alone against the model and against arms_spec, including chromosomes of more than 500 rows where
    the 10 % share takes over from the 50-row minimum, the float-sensitive sizes n = 5 (mod 10) (the share is
    the oracle int(round(0.1 * n)) with its contract), equal largest gaps (first-maximum rule) and gaps of
    99999 / 100000 / 100001."""
    rng = ck.rng
    cases = []
    sizes = [1, 2, 50, 100, 101, 102, 103, 150, 400, 499, 500, 501, 504, 505, 506, 510, 515, 520, 525, 535, 545, 555, 565,
             575, 585, 595, 600, 605, 615, 625, 700, 705, 715, 1005, 1015]
    for i in range(70 if ck.tier == 'quick' else 900):
        n = rng.choice(sizes + [rng.randint(90, 720), 505 + 10 * rng.randint(0, 40)])
        r = code_share(n)
        m = max(50, r)
        rows, pos = [], 0
        j = rng.choice([m, m + 1, m + 2, n - m - 2, n - m - 1, n - m, rng.randint(1, max(1, n - 1))])
        j2 = rng.choice([None, None, rng.randint(1, max(1, n - 1)), m + 1, n - m - 1, j + 1, j - 1])
        sz = rng.choice([100000, 99999, 100001, 500000])
        for k in range(n):
            if k and (k == j or k == j2):
                pos += sz if k == j else rng.choice([sz, sz, sz - 1, sz + 1])
            elif k:
                pos += rng.choice([0, 10, 1000])
            rows.append([pos, pos + 100])
            pos += 100
        cases.append((rows, r))
    model = vlib.model_batch('c03_arms', [[rows, r] for rows, r in cases])
    exact = vlib.model_batch('c03_arms', [[rows, None] for rows, r in cases])
    ties = 0
    for (rows, r), m, mx in zip(cases, model, exact):
        n = len(rows)
        table = [['chr1', [[a, b, 'g', 0.0, 1.0, 1.0] for a, b in rows]]]
        c = code_arms(table)['chr1']
        tie = n % 10 == 5
        ties += tie and n > 500
        ck.count(['by_arm', rows], nontrivial=len(c) > 1 or n > 500,
                 cls='by_arm:%s%s' % ('split' if len(c) > 1 else 'whole', ':n=5mod10' if tie and n > 500 else ''))
        if m[0] is not True:
            raise RuntimeError('int(round(0.1 * %d)) = %d is not within 1/2 of n/10: the rounding contract of Model/Arms.v fails' % (n, r))
        bad = arms_oracle(rows, r, c)
        if bad:
            ck.violation('by_arm: ' + bad, {'rows': rows}, code=c, expected='arms_spec', clause='C03_arms')
            continue
        if c != m[1]:
            ck.tie_break('model arm_split_with differs from by_arm', {'rows': rows, 'r': r}, code=c, model=m[1])
        if not tie and mx[1] != m[1]:
            raise RuntimeError('exact round-half-even and the float share differ away from the tie (n=%d)' % n)
    ck.extra['by_arm_tie_sizes'] = ties


# ----------------------------------------------------------------------------
# the whole table along the code's path: haar computed (C11 core), variants=, processes, row order

HAAR_LEVELS = [1, 2, 3, 4, 5]       # haarStartLevel .. haarEndLevel (the model reads them from Gen/HaarDefaults.v)
FDR_EPS = 1e-16
HAAR_Q = 0.0001                     # do_segmentation's default threshold for haar (tied by the genspec)
# On the variants= path (outside the property's quantifier, which lists no variants option) the rows made by
# hmm.variants_in_segment carry the number of VARIANTS of each allele-frequency run in `probes`, not the number of surviving
# bins: deliberate, modelled as it is (C03_variant_rows), never flagged; the accounting clause is not applied to such tables.
# Repaired in /repo 0138a18: a re-split row that overlaps no input bin (its variants lie in a gap between bins) was skipped
# by iter_slices(..., keep_empty=False) inside transfer_fields, so every later row of the piece received its successor's
# gene / weight / depth and the last kept "-", 0, 0. The failing input is a corpus case; C03_fields is applied to every row.


class Taps:
    """records, inside this process only, what the oracles of the table-level model are made of: every haarSeg call
    (its input signal = cnarr.smooth_log2(), weights, the FDRThres calls inside it) and every hmm.variants_in_segment
    call (the segment, the number of variants, the HMM state path handed to squash_by_groups)"""

    def __enter__(self):
        import numpy as np
        from cnvlib.segmentation import haar, hmm
        self.haar, self.hmm = haar, hmm
        self.orig = (haar.one_chrom, haar.haarSeg, haar.FDRThres, hmm.variants_in_segment, hmm.squash_by_groups)
        self.haar_calls, self.var_calls = [], []
        self._chrom, self._cur, self._vcur = None, None, None
        taps = self

        def one_chrom(cnarr, fdr_q, chrom):
            taps._chrom = str(chrom)
            return taps.orig[0](cnarr, fdr_q, chrom)

        def haarSeg(I, breaksFdrQ, W=None, **kw):
            rec = {'chrom': taps._chrom, 'I': [float(x) for x in np.asarray(I, dtype=float)],
                   'W': None if W is None else [float(x) for x in W], 'q': float(breaksFdrQ), 'fdr': []}
            taps.haar_calls.append(rec)
            taps._cur = rec
            try:
                return taps.orig[1](I, breaksFdrQ, W=W, **kw)
            finally:
                taps._cur = None

        def FDRThres(x, q, stdev):
            t = taps.orig[2](x, q, stdev)
            if taps._cur is not None:
                taps._cur['fdr'].append((np.array(x, dtype=float).copy(), float(q), float(stdev), float(t)))
            return t

        def variants_in_segment(varr, segment, *a, **kw):
            rec = {'chrom': str(segment.chromosome), 'start': int(segment.start), 'end': int(segment.end),
                   'n': len(varr), 'states': []}
            taps.var_calls.append(rec)
            taps._vcur = rec
            try:
                return taps.orig[3](varr, segment, *a, **kw)
            finally:
                taps._vcur = None

        def squash_by_groups(cn, levels, by_arm=False):
            if taps._vcur is not None and not by_arm:
                taps._vcur['states'] = [int(x) for x in levels.values]
            return taps.orig[4](cn, levels, by_arm=by_arm)

        haar.one_chrom, haar.haarSeg, haar.FDRThres = one_chrom, haarSeg, FDRThres
        hmm.variants_in_segment, hmm.squash_by_groups = variants_in_segment, squash_by_groups
        return self

    def __exit__(self, *a):
        (self.haar.one_chrom, self.haar.haarSeg, self.haar.FDRThres,
         self.hmm.variants_in_segment, self.hmm.squash_by_groups) = self.orig


def fdr_oracles(calls):
    """the oracles of Model/Haar.v per level: p-values the way FDRThres computes them (sigma is the LOCATION of the cdf),
    the absorption flag fl(x0 + 1e-16) == x0; plus the smallest relative margin of the p <= m*q decisions and whether two
    sorted peak magnitudes are a near-tie (float-ambiguity indicators, as in the C11 harness)"""
    import numpy as np
    from scipy import stats
    pv, ab, margin, near_tie = [], [], 1.0, False
    for x, q, stdev, t in calls:
        M = len(x)
        if M < 2:
            pv.append([])
            ab.append(False)
            continue
        xs = np.sort(np.abs(x))[::-1]
        p = 2 * (1 - stats.norm.cdf(xs, stdev))
        pv.append([float(v) for v in p])
        ab.append(bool(xs[0] + FDR_EPS == xs[0]))
        for i, v in enumerate(p):
            thr = Fraction(i + 1, M) * Fraction(q)
            d = abs(Fraction(float(v)) - thr)
            margin = min(margin, float(d / thr) if thr else 1.0)
        for a, b in zip(xs[:-1], xs[1:]):
            if a != b and abs(a - b) <= 1e-9 * max(1.0, abs(a)):
                near_tie = True
    return pv, ab, margin, near_tie


def sign_pattern_ambiguous(code, model):
    def cmp(a, b):
        return (a > b) - (a < b)
    differ, all_tiny = False, True
    for k in range(len(code)):
        pairs = [(code[k], 0.0, model[k], 0)]
        if k:
            pairs.append((code[k], code[k - 1], model[k], model[k - 1]))
        for cx, cy, mx, my in pairs:
            if cmp(cx, cy) != cmp(mx, my):
                differ = True
                if abs(float(mx - my)) > 1e-9 * max(1.0, abs(float(mx))):
                    all_tiny = False
    return differ and all_tiny


def haar_call_ambiguous(rec):
    """is some decision inside this haarSeg call float-ambiguous (a p-value on its threshold, two peak magnitudes a
    near-tie, or a convolution value whose sign / order differs between floats and exact rationals only by < 1e-9)?"""
    import numpy as np
    from cnvlib.segmentation import haar
    pv, ab, margin, near_tie = fdr_oracles(rec['fdr'])
    if margin < 1e-9 or near_tie:
        return True
    I = np.array(rec['I'], dtype=float)
    W = None if rec['W'] is None else np.array(rec['W'], dtype=float)
    for l in HAAR_LEVELS:
        h = 2 ** l
        cconv = [float(x) for x in haar.HaarConv(I, W, h)]
        mconv = vlib.model_call('c11_conv', [rec['I'], rec['W'], h, math.sqrt(2.0 * h) if W is None else math.sqrt(h / 2)])
        if not isinstance(mconv, Err) and len(mconv) == len(cconv) and sign_pattern_ambiguous(cconv, mconv):
            return True
    return False


def to_variants(vtable):
    """vtable: [(chrom, [[start, end, alt_freq], ...])] -> VariantArray shaped like load_het_snps' output"""
    import pandas as pd
    from cnvlib.vary import VariantArray as VA
    recs = []
    for name, vs in vtable:
        for s, e, f in vs:
            recs.append((name, s, e, 'A', 'G', 0.5, 64, int(round(64 * f)), f))
    df = pd.DataFrame.from_records(recs, columns=['chromosome', 'start', 'end', 'ref', 'alt', 'zygosity', 'depth', 'alt_count', 'alt_freq'])
    df['chromosome'] = df['chromosome'].astype(str)
    return VA(df, {'sample_id': 'verif'})


def run_table(table, method, opts, processes=1, vtable=None):
    """do_segmentation on the whole table -> (rows in table order [(chrom, lo, hi, probes, log2, gene, weight, depth, baf)], taps)
    or (Err, taps)"""
    from cnvlib import segmentation
    cna = to_cna(table)
    varr = to_variants(vtable) if vtable is not None else None
    with Taps() as taps:
        try:
            seg = segmentation.do_segmentation(cna, method, variants=varr, skip_low=opts['skip_low'],
                                               skip_outliers=opts['skip_outliers'], min_weight=opts['min_weight'],
                                               processes=processes)
        except RuntimeError as e:
            return Err('RuntimeError'), taps
        except Exception as e:     # noqa
            return Err('%s: %s' % (type(e).__name__, str(e)[:120])), taps
    out = []
    has_baf = 'baf' in seg.data.columns
    for row in seg.data.itertuples(index=False):
        pr = float(row.probes)
        out.append((str(row.chromosome), int(row.start), int(row.end), int(pr) if pr == int(pr) else pr, fnum(row.log2),
                    str(row.gene), fnum(row.weight), fnum(row.depth), fnum(row.baf) if has_baf else None))
    return out, taps


def lib_baf(varr, chrom, lo, hi):
    """the BAF oracle: variants.baf_by_ranges on the single range (one row, so no row alignment is involved)"""
    from skgenome import GenomicArray as GA
    one = GA.from_rows([(chrom, lo, hi)], ['chromosome', 'start', 'end'])
    return fnum(varr.baf_by_ranges(one).values[0])


def same_num(a, b):
    if a is None or b is None:
        return a is None and b is None
    return abs(a - b) <= 1e-9 * max(1.0, abs(b))


def check_table_case(ck, case, cls):
    """one table through do_segmentation(method in none / haar, optional variants=) with 1 process under the taps;
    the table-level model (c03_table: by_arm, filters, haar computed by the C11 core, variants re-split, transfer_fields
    through the C07 iter_slices model, pool, concat + sort) must give the same rows in the same order; the direct oracles
    are evaluated on the code's rows. Returns the code's rows (or None)."""
    table, method, vtable = case['table'], case['method'], case.get('variants')
    opts = {'skip_low': case['skip_low'], 'skip_outliers': case['skip_outliers'], 'min_weight': case['min_weight']}
    arms = code_arms(table)
    masks = outlier_masks(table, method, opts, arms)
    survs = {name: [py_survives(b, opts, o) for b, o in zip(bins, masks[name])] for name, bins in table}
    rows, taps = run_table(table, method, opts, 1, vtable)
    nsurv = sum(sum(v) for v in survs.values())
    resplit = any(len(set(r['states'])) > 1 for r in taps.var_calls)
    ck.count(case, nontrivial=True, cls=cls + (':resplit' if resplit else '') + (':error' if isinstance(rows, Err) else ''))
    varr = to_variants(vtable) if vtable is not None else None

    # --- model
    mtag = 'haar' if method == 'haar' else 'none'
    chroms = []
    for name, bins in table:
        hos = []
        for rec in taps.haar_calls:
            if rec['chrom'] == name:
                pv, ab, _, _ = fdr_oracles(rec['fdr'])
                hos.append([rec['I'], pv, ab])
        vs = None
        if vtable is not None:
            vs = [[s, e] for s, e, f in dict(vtable).get(name, [])]
        sts = [rec['states'] for rec in taps.var_calls if rec['chrom'] == name]
        chroms.append([name, enc_bins(bins), masks[name], [], hos, vs, sts])
    p = case.get('model_processes', 1)
    req = [mtag, opts['skip_low'], F(opts['min_weight']), HAAR_Q, [math.sqrt(2.0 * 2 ** l) for l in HAAR_LEVELS],
           [math.sqrt(2 ** l / 2) for l in HAAR_LEVELS], p, case.get('assign', [0]), chroms]
    m = vlib.model_call('c03_table', req)

    # --- the code raised
    if isinstance(rows, Err):
        if isinstance(m, Err) and m.msg == rows.msg:
            return None                  # variants_in_segment's own RuntimeError (a row with start >= end), mirrored
        if nsurv and vtable is None:
            ck.violation('do_segmentation(%s) raised %s on a table with %d surviving bins' % (method, rows.msg, nsurv), case,
                         code=rows, expected='a segment on every chromosome with a surviving bin', clause='C03_accounting')
        else:
            ck.tie_break('do_segmentation(%s) raised %s, the model did not' % (method, rows.msg), case, code=rows, model=m)
        return None

    # --- direct oracle on the code's rows
    by = {}
    for r in rows:
        by.setdefault(r[0], []).append(r[1:])
    bad = []
    for name in by:
        if name not in dict(table):
            bad.append(('C03_tiling', 'segment on a chromosome %r without input bins' % name))
    for name, bins in table:
        crow = by.get(name, [])
        got = oracle_chrom(method, bins, survs[name], arms[name], [r[:7] for r in crow])
        if not resplit:
            bad += [(cl, '%s: %s' % (name, msg)) for cl, msg in got]
        else:
            # probes (and the shared log2) of re-split rows belong to the allele-frequency runs, not to the bins:
            # tiling + edges + fields (every row, also one that spans no bin: weight 0, depth 0, gene "-")
            keep = ['C03_tiling', 'C03_arm_edges', 'C03_fields']
            if any(not [b for b in bins if b[0] < r[1] and r[0] < b[1]] for r in crow):
                ck.cls('table:variants:row-without-bins')
            bad += [(cl, '%s: %s' % (name, msg)) for cl, msg in got if cl in keep]
            if any(cl == 'C03_accounting' for cl, msg in got):
                ck.cls('table:variants:probes-count-variants')
        if varr is not None:
            # baf of every row = BAF of its own range (first / last row of an arm: before or after the edge stretch)
            S = [b for b, s in zip(bins, survs[name]) if s]
            for i, r in enumerate(crow):
                lo, hi = r[0], r[1]
                los = [lo] + [b[0] for b in S if lo <= b[0] < hi][:1]
                his = [hi] + [b[1] for b in S if lo < b[1] <= hi][-1:]
                cands = {(a, b) for a in los for b in his}
                if not any(same_num(r[7], lib_baf(varr, name, a, b)) for a, b in cands if a < b):
                    bad.append(('C03_variant_rows', '%s: baf %r of row %d (%d-%d) is not the BAF of its own range (%r)' % (
                        name, r[7], i, lo, hi, lib_baf(varr, name, lo, hi))))
                    break
    if sorted(rows, key=lambda r: (CHROMS.index(r[0]) if r[0] in CHROMS else CHROMS.index('chr' + r[0]), r[1], r[2])) != rows:
        bad.append(('C03_parallel', 'the table is not in genome order'))
    if bad:
        ck.violation('%s: %s' % (method, bad[0][1]), case, code=rows, expected=[t for _, t in bad[:6]], clause=bad[0][0])
        return rows

    # --- code vs model
    if isinstance(m, Err):
        ck.tie_break('%s: model says %r, code returned a table' % (method, m), case, code=rows, model=m)
        return rows
    msg = None
    if len(m) != len(rows):
        msg = '%d rows vs %d in the model' % (len(rows), len(m))
    else:
        for i, (c, mr) in enumerate(zip(rows, m)):
            mname, (mlo, mhi, mpr, mlog2, mgene, mw, mdp), blo, bhi = mr
            if (c[0], c[1], c[2], c[3], c[5]) != (mname, mlo, mhi, mpr, mgene):
                msg = 'row %d: (chrom,start,end,probes,gene) %r vs model %r' % (i, (c[0], c[1], c[2], c[3], c[5]), (mname, mlo, mhi, mpr, mgene))
            elif not vlib.close(c[6], mw):
                msg = 'row %d: weight %r vs model %r' % (i, c[6], mw)
            elif not vlib.close(c[7], mdp):
                msg = 'row %d: depth %r vs model %r' % (i, c[7], float(mdp))
            elif not vlib.close(c[4], mlog2):
                msg = 'row %d: log2 %r vs model %r' % (i, c[4], None if mlog2 is None else float(mlog2))
            elif varr is not None and not same_num(c[8], lib_baf(varr, mname, blo, bhi)):
                msg = 'row %d: baf %r vs BAF(%d, %d) = %r' % (i, c[8], blo, bhi, lib_baf(varr, mname, blo, bhi))
            if msg:
                break
    if msg:
        if method == 'haar' and any(haar_call_ambiguous(rec) for rec in taps.haar_calls):
            ck.float_ambiguous += 1
            ck.cls('table:float-ambiguous')
            return rows
        ck.tie_break('%s table: %s' % (method, msg), case, code=rows, model=m)
    return rows


def check_table_processes(ck, case, rows1):
    """the same call with 2, 3, 16 processes: the identical table (rows, order, every column); and the table-level model
    with that many workers and a random assignment of the arms to them gives the serial table (C03_parallel, run)"""
    opts = {'skip_low': case['skip_low'], 'skip_outliers': case['skip_outliers'], 'min_weight': case['min_weight']}
    for p in (2, 3, 16):
        c2 = dict(case)
        c2['processes'] = p
        got, _ = run_table(case['table'], case['method'], opts, p, case.get('variants'))
        ck.count(c2, nontrivial=False, cls='table-processes:%d' % p)
        if repr(got) != repr(rows1):
            ck.violation('%s: table with %d processes differs from the table with 1 process' % (case['method'], p), c2,
                         code=got, expected=rows1, clause='C03_parallel')
            return


def gen_vtable(rng, table, opts):
    """variants for the table: per chromosome absent / sparse (never more than 50 per segment) / dense with two
    allele-fraction regimes (so that variants_in_segment re-splits); positions anywhere in the chromosome's span,
    including filtered edge bins and the gaps between bins"""
    vt = []
    for name, bins in table:
        mode = rng.choice(['absent', 'sparse', 'dense', 'dense', 'dense3'])
        if mode == 'absent' or len(bins) < 2:
            continue
        lo, hi = bins[0][0], bins[-1][1]
        k = rng.choice([rng.randint(1, 40), 50, 51]) if mode == 'sparse' else rng.choice([rng.randint(55, 160), 51, 52])
        pos = sorted(rng.sample(range(lo + 1, hi + 1), min(k, hi - lo)))
        cuts = sorted(rng.sample(range(1, len(pos)), min(len(pos) - 1, 1 if mode != 'dense3' else 2))) if len(pos) > 2 else []
        level, vs = 0, []
        for i, q in enumerate(pos):
            if i in cuts:
                level += 1
            base = [0.5, 0.78, 0.5][level % 3]
            f = min(0.98, max(0.02, round((base + rng.gauss(0, 0.03)) * 64) / 64.0))
            if rng.random() < 0.5:
                f = 1 - f if f != 0.5 else f
            vs.append([q - 1, q, f])
        vt.append([name, vs])
    return vt


def check_expected_rows(ck, case, rows):
    """corpus table cases carry the rows the repaired code must report: (chrom, start, end, gene, weight, depth)"""
    exp = case.get('expect_rows')
    if exp is None or rows is None:
        return
    got = [[r[0], r[1], r[2], r[5], r[6], r[7]] for r in rows]
    if len(got) != len(exp) or any(g[:4] != e[:4] or not same_num(g[4], e[4]) or not same_num(g[5], e[5]) for g, e in zip(got, exp)):
        ck.violation('%s: %s' % (case['method'], case.get('what', 'corpus table case: rows differ from the recorded expectation')), case,
                     code=got, expected=exp, clause=case.get('clause', 'C03_fields'))


def shuffled_chroms(rng, table):
    """the same chromosomes in another order (the final table must come back in genome order)"""
    t = list(table)
    rng.shuffle(t)
    return t


def run_table_stream(ck):
    """tables through the whole-table model: haar computed end to end, `variants=` for none and haar, the process
    counts 1, 2, 3, 16 (rows, order and every column identical), chromosomes given out of genome order"""
    rng = ck.rng
    quick = ck.tier == 'quick'
    plan = ([('haar', False)] * 7 + [('none', True)] * 7 + [('haar', True)] * 5 + [('none', False)] * 3) if quick else \
           ([('haar', False)] * 90 + [('none', True)] * 100 + [('haar', True)] * 60 + [('none', False)] * 30)
    n_proc = 3 if quick else 30
    for i, (method, with_var) in enumerate(plan):
        size = rng.choice(['small', 'mid', 'mid', 'arm'] if method == 'haar' else ['small', 'mid', 'arm'])
        table = gen_table(rng, size)
        if rng.random() < 0.3:
            table = shuffled_chroms(rng, table)
        opts = gen_opts(rng, table)
        vt = gen_vtable(rng, table, opts) if with_var else None
        njobs = 2 * len(table)
        p = rng.choice([1, 2, 3, 16])
        case = dict(kind='table', table=table, method=method, processes=1, variants=vt, model_processes=p,
                    assign=[rng.randrange(p) for _ in range(njobs)], **opts)
        rows = check_table_case(ck, case, 'table:%s%s:%s' % (method, '+variants' if with_var else '', size))
        if rows is not None and n_proc > 0 and len(table) > 1 and (i % 6 == 1):
            n_proc -= 1
            check_table_processes(ck, case, rows)
    ck.extra['table_process_variation_cases'] = (3 if quick else 30) - n_proc


def run(ck, scratch):
    ck.rule = ('tables of 1..6 chromosomes (chr1..chr22, X, Y; with/without chr prefix) x 1..400 sorted non-overlapping bins; '
               'a 99999/100000/100001/larger gap placed at, just inside, just outside the 50-bin margin or twice (tie); 0..2 level steps; '
               'null-coverage (-20, -25, just below / exactly -15, depth 0), zero / NaN / small weights and outlier spikes at the first, '
               'last, first/last few and interior bins; whole chromosomes without a survivor; gene names with duplicates, '
               'Antitarget/Background/-/./CGH and embedded commas. Every table is run with none and haar (and a sample with hmm, '
               'hmm-tumor, hmm-germline) under random skip_low x skip_outliers {off,10,5,3} x min_weight {0, 0.25, 0.5, a bin weight}; '
               'a sample of per-arm cases is re-run with 2, 3, 16 processes. Whole-table stream (c03_table: by_arm, filters, haar '
               'COMPUTED by the C11 core from the smoothed signal and the FDR p-values recorded by taps, haar\'s own re-split of the '
               'survivors, transfer_fields through the C07 iter_slices model, pool, concat + sort): haar / none, with and without '
               'variants= (0..160 SNVs per chromosome in 1..3 allele-fraction regimes, anywhere in the span incl. gaps and filtered '
               'edge bins; chromosomes absent from the variant table), chromosomes given out of genome order, compared row by row '
               'in table order incl. log2 and baf; re-run with 2, 3, 16 processes. by_arm alone: 1..1015 rows incl. n = 5 (mod 10) '
               'above 500, equal largest gaps. non-trivial = a bin was filtered, or some chromosome got more than one segment, or '
               'was split into arms; distinct by case hash')
    ck.unproved_remainder = [
        'cbs and flasso need R, which is absent here: they are never executed; they are covered only through the shared '
        'transfer_fields model (stretch + aggregation theorems), not by correspondence',
        'oracles taken from the code on each case: the outlier mask; the HMM state paths (hmm methods: breakpoints; variants=: '
        'the allele-frequency runs); for haar the smoothed signal cnarr.smooth_log2() (Savitzky-Golay), the sqrt scale constants '
        'and the FDR p-values -- the breakpoints and the log2 column are then COMPUTED by the model (C03_haar_table); decisions '
        'of the haar core that are float-ambiguous (a p-value within 1e-9 of its threshold, near-tied peaks, a convolution value '
        'whose sign differs only below 1e-9) are counted float_ambiguous and not compared',
        'round(0.1*n) in by_arm goes through a float product: the integer is taken from the same expression '
        '(oracle with the contract |r - n/10| <= 1/2, checked on every supplied value; C03_arms holds for every r)',
        'the BAF of a range (variants.baf_by_ranges) is an oracle function; C03_variant_rows says which range each row asks it for',
        'on the variants= path `probes` counts the variants of the allele-frequency run, not bins (outside the property\'s '
        'quantifier; modelled as it is, never flagged; the accounting clause is not applied to re-split tables)',
        'which variants belong to a segment (variants.by_ranges, outer) is modelled by the overlap filter, justified by C07 on '
        'the C07 side; only the aggregation step of transfer_fields runs the C07 iter_slices model itself',
        'pickling of the arms to worker processes and the executor itself are outside the model: C03_parallel is about the '
        'schedule-independence of the collected results, tied by comparing whole tables across 1, 2, 3, 16 processes',
    ]
    if not ck.build_status.get('driver_ok'):
        raise RuntimeError('model driver unavailable')
    quick = ck.tier == 'quick'
    rng = ck.rng
    # corpus first
    for i, case in enumerate(load_corpus()):
        if case.get('kind') == 'table':
            rows = check_table_case(ck, case, 'corpus:table')
            check_expected_rows(ck, case, rows)
        else:
            rows = check_case(ck, case, 'corpus')
    check_by_arm(ck)
    run_table_stream(ck)
    # random stream
    sizes = (['small'] * 34 + ['mid'] * 14 + ['arm'] * 12) if quick else (['small'] * 300 + ['mid'] * 180 + ['arm'] * 120)
    n_hmm = 12 if quick else 600
    n_proc = 4 if quick else 60
    hmm_left, proc_left = n_hmm, n_proc
    for i, size in enumerate(sizes):
        table = gen_table(rng, size)
        for rep in range(1 if quick else 2):
            opts = gen_opts(rng, table)
            for method in ARM_METHODS:
                case = dict(table=table, method=method, processes=1, **opts)
                rows = check_case(ck, case, '%s:%s' % (method, size))
                if rows is not None and proc_left > 0 and len(table) > 1 and rng.random() < (0.25 if quick else 0.15):
                    proc_left -= 1
                    check_processes(ck, case, rows)
            want = hmm_left > 0 and (size != 'arm' or rng.random() < 0.3) and rng.random() < (0.5 if quick else 1.0)
            methods = ([rng.choice(HMM_METHODS)] if quick else list(HMM_METHODS)) if want else []
            if methods and hmm_ok(table, opts, methods[0]):
                for method in methods:
                    hmm_left -= 1
                    case = dict(table=table, method=method, processes=1, **opts)
                    check_case(ck, case, '%s:%s' % (method, size))
    ck.extra['hmm_cases'] = n_hmm - hmm_left
    ck.extra['process_variation_cases'] = n_proc - proc_left


def replay(ck, body):
    case = body.get('case')
    if not isinstance(case, dict) or 'table' not in case:
        print(json.dumps(body, indent=1)[:3000])
        return 0
    for _, bins in case['table']:
        for b in bins:
            if b[4] == 'NaN':
                b[4] = None
    ck.build_status = {'driver_ok': os.path.exists(vlib.DRIVER)}
    if case.get('kind') == 'table':
        check_table_case(ck, case, 'replay')
    else:
        check_case(ck, case, 'replay')
    for kind, what, path in ck.violations:
        print('reproduced: %s (%s)' % (what, path))
    for what, path in ck.tie_breaks:
        print('model/code difference: %s (%s)' % (what, path))
    for k in ck.known_hits:
        print('KNOWN-FINDING: %s' % k['what'])
    return 1 if (ck.violations or ck.tie_breaks) else 0
