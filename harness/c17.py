"""C17 -- segment statistics and bin tests match their definitions on the right bins.

Anchors: cnvlib/segmetrics.py (do_segmetrics, make_ci_func, make_pi_func, calc_intervals,
confidence_interval_bootstrap, _smooth_samples_by_weight), cnvlib/bintest.py (do_bintest,
z_prob, p_adjust_bh), cnvlib/cnary.py (residuals, drop_low_coverage), skgenome
iter_ranges_of, cnvlib/descriptives.py.

Every case: run the real code; evaluate the direct oracle (independent textbook formulas in
fractions.Fraction on brute-force selected bins); run the extracted Coq model
(Model/Segmetrics.v, Model/Bintest.v) on the same input and compare at 1e-9.
Oracles (DESIGN section 2): KDE arg-max, Student-t tail, normal cdf, the bootstrap index matrix
and the smoothing noise are supplied from the same library calls the code makes (the index
matrix is reproduced by seeding numpy with the generated seed constant)."""
import os, math, json, itertools
from fractions import Fraction as F
import numpy as np
import vlib
from vlib import Err

LEVEL = 'proof'
HERE = os.path.dirname(os.path.abspath(__file__))
GRID = 1024
TOL = 1e-9
BIN_COLS = ['chromosome', 'start', 'end', 'gene', 'log2', 'weight']
SEG_COLS = ['chromosome', 'start', 'end', 'gene', 'log2', 'probes', 'weight']
LOC = ['mean', 'median', 'mode', 'p_ttest']
SPREAD = ['stdev', 'mad', 'mse', 'iqr', 'bivar', 'sem']
IVL = ['ci', 'pi']
SQUARED = {'stdev', 'bivar', 'sem'}
SIG_SMOOTH = 'c17-smoothed-ci-leaves-range'

UNPROVED = [
    'mode: the Gaussian-KDE arg-max index is an oracle (scipy.stats.gaussian_kde); the column is compared with the sorted value at scipy\'s arg-max',
    'p_ttest: the Student-t tail is an oracle; the model computes t^2 exactly and the column is compared with 2*t.sf(sqrt(t^2), n-1) from scipy',
    'bintest: Phi (normal cdf) is an oracle; raw p-values are compared with erfc(|z|/sqrt 2); everything after them (BH, hits) is exact',
    'square roots (stdev, bivar, sem, sqrt(1 - weight)) are outside the model: squared quantities are modelled, proved and compared',
    'bootstrap indices / smoothing noise after seed(0xA5EED) are oracles: theorems hold for ANY index matrix with entries in [0,k); that the code draws them from the generated seed is checked by reproducing the draws',
    'the biweight location inside bivar is the iterative estimate of Model/Descriptives.v (C19); C17_defs states the midvariance formula about that location',
    'order of the tested bins relative to the bin table: proved when the residuals cover every bin exactly once (C17_hits_order); otherwise the model takes the order of the residuals (segment order) and the harness compares the code\'s hit order with table order on every sorted segmentation',
    'the number of resamples (bootstraps raised to ceil(2/alpha)) is checked by the model entry against the supplied index matrix; no theorem speaks about it',
    'float rounding: theorems are about exact rational arithmetic; code and model are compared at 1e-9 (decisions closer than 1e-7 to a boundary are counted float_ambiguous)',
]


# ----------------------------------------------------------------------------
# helpers

def fr(x):
    return F(float(x))


def isnan(x):
    return x is None or (isinstance(x, float) and x != x)


def finite(x):
    try:
        return math.isfinite(float(x))
    except (TypeError, ValueError):
        return False


def close(code, exact, tol=TOL):
    """code: float; exact: Fraction / float / None (= NaN)"""
    if exact is None:
        return isnan(code)
    if isnan(code) or not finite(code):
        return False
    e = float(exact)
    return abs(float(code) - e) <= tol * max(1.0, abs(e))


def load_cnvlib():
    global CNA, segmetrics, bintest, descriptives
    from cnvlib.cnary import CopyNumArray as CNA_
    from cnvlib import segmetrics as sm, bintest as bt, descriptives as ds
    CNA, segmetrics, bintest, descriptives = CNA_, sm, bt, ds


def get_consts():
    c = vlib.model_call('c17_consts', [])
    return {'seed': int(c[0]), 'min_k': int(c[1]), 'mad_scale': F(c[2]), 'min_cvg': F(c[3]), 'anti': list(c[4])}


# ----------------------------------------------------------------------------
# textbook definitions (exact)

def t_mean(v):
    return sum(v) / len(v)


def t_median(v):
    s = sorted(v)
    n = len(s)
    return s[n // 2] if n % 2 else (s[n // 2 - 1] + s[n // 2]) / 2


def t_percentile(v, p):
    """numpy's default: linear interpolation between the two nearest order statistics"""
    s = sorted(v)
    n = len(s)
    h = (n - 1) * F(p) / 100
    i = h.numerator // h.denominator
    f = h - i
    if i + 1 >= n:
        return s[n - 1] if i >= n - 1 else s[i]
    return s[i] + f * (s[i + 1] - s[i])


def t_var(v, ddof):
    m = t_mean(v)
    return sum((x - m) ** 2 for x in v) / (len(v) - ddof)


def t_biloc_float(a, c=6.0, eps=1e-3, max_iter=5):
    """Tukey's biweight location (Beers, Flynn & Gebhardt 1990), iterated as the package
    documents it (median start, c = 6, at most 5 steps, stop below 1e-3) -- an independent
    float implementation; exact iteration squares the size of the rationals at every step"""
    a = np.asarray([float(x) for x in a], float)
    M = float(np.median(a))
    r = M
    for _ in range(max_iter):
        d = a - M
        mad = float(np.median(np.abs(d)))
        u = d / max(c * mad, eps)
        mask = np.abs(u) < 1
        w = (1 - u[mask] ** 2) ** 2
        r = M if w.sum() == 0 else M + float((d[mask] * w).sum() / w.sum())
        if abs(r - M) <= eps:
            break
        M = r
    return float(r)


def t_bivar_sq(a, mad_scale, centre, c=F(9), eps=fr(1e-3)):
    """biweight midvariance squared about `centre` (exact); returns (value or None for a
    vanishing denominator, smallest margin of a mask decision)"""
    M = fr(centre)
    d = [x - M for x in a]
    mad = t_median([abs(x) for x in d])
    sc = max(c * mad, eps)
    u = [x / sc for x in d]
    margin = min(abs(abs(x) - 1) for x in u)
    mk = [(di, ui) for di, ui in zip(d, u) if abs(ui) < 1]
    if not any(ui != 0 for _, ui in mk):
        return (mad * mad_scale) ** 2, margin
    n = len(mk)
    num = n * sum(di ** 2 * (1 - ui ** 2) ** 4 for di, ui in mk)
    den = sum((1 - ui ** 2) * (1 - 5 * ui ** 2) for di, ui in mk)
    if den == 0:
        return None, margin
    return num / den ** 2, margin


def t_bh(ps):
    """Benjamini-Hochberg, literally: q_(i) = min(1, min_{j >= i} n p_(j) / j), ranks by a
    stable ascending sort (tied values get equal q, asserted)"""
    n = len(ps)
    order = sorted(range(n), key=lambda i: ps[i])
    T = [n * ps[order[j]] / (j + 1) for j in range(n)]
    q = [None] * n
    for r in range(n):
        q[order[r]] = min(F(1), min(T[r:]))
    return q


def t_bh_fast(ps):
    n = len(ps)
    order = sorted(range(n), key=lambda i: ps[i])
    q = [None] * n
    cur = F(1)
    for r in range(n - 1, -1, -1):
        cur = min(cur, n * ps[order[r]] / (r + 1))
        q[order[r]] = cur
    return q


def expected_stat(name, vals, seg_log2, consts):
    """the property text's value of a location / spread statistic (None = NaN); squared where
    the column is a square root.  Returns (value, margin or None)."""
    n = len(vals)
    if name in ('mean', 'median'):
        if n == 0:
            return None, None
        return (t_mean(vals) if name == 'mean' else t_median(vals)), None
    d = [x - seg_log2 for x in vals]
    if n == 0:
        return None, None
    if name == 'stdev':
        return t_var(d, 0), None
    if name == 'sem':
        return (None if n < 2 else t_var(d, 1) / n), None
    if n == 1:
        return F(0), None                 # the decorators' default for one value
    if name == 'mad':
        m = t_median(d)
        return consts['mad_scale'] * t_median([abs(x - m) for x in d]), None
    if name == 'mse':
        return sum(x * x for x in d) / n, None
    if name == 'iqr':
        return t_percentile(d, 75) - t_percentile(d, 25), None
    if name == 'bivar':
        return t_bivar_sq(d, consts['mad_scale'], t_biloc_float(d))
    raise KeyError(name)


# ----------------------------------------------------------------------------
# generators

def grid(rng, lo=-4 * GRID, hi=4 * GRID):
    return rng.randint(lo, hi) / GRID


def seg_sizes(rng, tier, want_ci):
    r = rng.random()
    if r < 0.45:
        return rng.randint(2, 8)
    if r < 0.8:
        return rng.randint(9, 40)
    if r < 0.93:
        return rng.randint(41, 120)
    return rng.randint(121, 300)


def gen_values(rng, k):
    kind = rng.choice(['noise', 'noise', 'noise', 'ties', 'equal', 'two', 'outlier', 'symmetric', 'wide'])
    base = grid(rng, -2 * GRID, 2 * GRID)
    if kind == 'equal':
        return [base] * k, kind
    if kind == 'ties':
        pool = [base + rng.randint(-6, 6) / 64 for _ in range(rng.randint(2, 4))]
        return [rng.choice(pool) for _ in range(k)], kind
    if kind == 'two':
        a, b = base, base + rng.randint(1, 512) / GRID
        return [rng.choice([a, b]) for _ in range(k)], kind
    if kind == 'symmetric':
        half = [rng.randint(0, 400) / GRID for _ in range(k // 2)]
        v = [base + h for h in half] + [base - h for h in half] + ([base] if k % 2 else [])
        rng.shuffle(v)
        return v, kind
    amp = 1500 if kind == 'wide' else 300
    v = [base + rng.randint(-amp, amp) / GRID for _ in range(k)]
    if kind == 'outlier' and k >= 2:
        v[rng.randrange(k)] = base + rng.choice([-1, 1]) * rng.randint(3 * GRID, 6 * GRID) / GRID
    return v, kind


def gen_table(rng, tier, for_bintest=False):
    """a sorted bin table and a segmentation of it (grouped by chromosome); returns
    (bin rows, segment rows, has_depth, class labels)"""
    names = ['chr1', 'chr2', 'chrX', 'chr10']
    rng.shuffle(names)
    nchrom = rng.choice([1, 1, 1, 2, 2, 3])
    bins, segs, classes = [], [], set()
    has_depth = rng.random() < 0.4
    low_rate = rng.choice([0, 0, 0.03, 0.15])
    zero_depth_rate = rng.choice([0, 0.05]) if has_depth else 0
    budget = rng.choice([60, 150, 300, 600]) if tier == 'quick' else rng.choice([60, 150, 300, 600, 900])
    for ci, chrom in enumerate(names[:nchrom]):
        pos = rng.choice([0, 0, 1, 1000])
        nseg = rng.randint(1, 4)
        weights_kind = rng.choice(['rand', 'rand', 'equal', 'ones', 'tiny'])
        carry = None            # a segment start inherited from a cut through the previous bin
        for j in range(nseg):
            kind = rng.choice(['normal'] * 7 + ['empty', 'single', 'single'])
            if kind == 'empty':
                pos += rng.randint(0, 300)
                s0 = carry if carry is not None else pos
                e0 = max(s0, pos) + rng.randint(50, 500)
                segs.append([chrom, s0, e0, 'sg', grid(rng), 0, 0.0])
                pos = e0 + rng.choice([0, 0, 40])
                carry = None
                classes.add('empty_segment')
                continue
            k = 1 if kind == 'single' else min(seg_sizes(rng, tier, False), max(2, budget))
            budget = max(2, budget - k)
            if kind == 'single':
                classes.add('single_bin_segment')
            vals, vkind = gen_values(rng, k)
            classes.add('values_' + vkind)
            first_start = None
            last = None
            for i in range(k):
                gap = rng.choice([0, 0, 0, 0, rng.randint(1, 200)])
                if carry is not None and i == 0:
                    gap = 0
                s = pos + gap
                e = s + rng.randint(20, 400)
                if first_start is None:
                    first_start = s
                lg = vals[i]
                if rng.random() < low_rate:
                    lg = rng.choice([-25.0, -15.5, -15.0, -20.0])
                    classes.add('low_coverage_bin')
                if weights_kind == 'equal':
                    w = 0.5
                elif weights_kind == 'ones':
                    w = 1.0 if rng.random() < 0.3 else rng.randint(1, 64) / 64
                elif weights_kind == 'tiny':
                    w = rng.randint(1, 8) / 1024
                else:
                    w = rng.randint(1, 64) / 64
                gene = rng.choice(['G%d' % rng.randint(1, 5)] * 5 + ['Antitarget', 'Antitarget', 'Background', '-'])
                row = [chrom, s, e, gene, lg, w]
                if has_depth:
                    row.append(0.0 if rng.random() < zero_depth_rate else rng.randint(1, 400) / 4)
                bins.append(row)
                last = (s, e)
                pos = e
                # an extra bin nested in / overlapping the one just written (ends no longer sorted)
                if rng.random() < 0.02 and e - s > 4 and i + 1 < k:
                    s2 = rng.randint(s, e - 2)
                    e2 = rng.randint(s2 + 1, e - 1) if rng.random() < 0.7 else e + rng.randint(1, 50)
                    row2 = [chrom, s2, e2, gene, grid(rng), w]
                    if has_depth:
                        row2.append(5.0)
                    bins.append(row2)
                    pos = max(pos, e2)
                    last = (min(s, s2), max(e, e2))
                    classes.add('nested_bins')
            s0 = carry if carry is not None else first_start - rng.choice([0, 0, 0, rng.randint(0, 30)])
            s0 = max(0, s0)
            carry = None
            cut = rng.random()
            if cut < 0.12 and last[1] - last[0] > 2 and j + 1 < nseg:
                e0 = rng.randint(last[0] + 1, last[1] - 1)     # cut through the last bin
                carry = e0
                classes.add('boundary_cuts_bin')
            elif cut < 0.3:
                e0 = pos + rng.randint(1, 60)
                pos = e0
            else:
                e0 = pos
            sl = rng.choice(['grid', 'grid', 'mean', 'wmean', 'zero'])
            if sl == 'grid':
                sg = vals[0] + rng.randint(-256, 256) / GRID
            elif sl == 'zero':
                sg = 0.0
            elif sl == 'mean':
                sg = float(np.mean(vals))
                classes.add('seglog2_is_mean')
            else:
                sg = round(float(np.mean(vals)) * GRID) / GRID
            segs.append([chrom, s0, e0, 'sg', sg, k, 1.0])
        # a chromosome's trailing bins outside every segment
        if rng.random() < 0.15:
            for _ in range(rng.randint(1, 3)):
                s = pos + rng.randint(0, 50)
                e = s + rng.randint(20, 200)
                row = [chrom, s, e, 'G9', grid(rng), rng.randint(1, 64) / 64]
                if has_depth:
                    row.append(7.0)
                bins.append(row)
                pos = e
            classes.add('bins_outside_segments')
    if rng.random() < 0.08:
        segs.append(['chrNoBins', 0, 1000, 'sg', 0.25, 0, 0.0])
        classes.add('segment_on_missing_chromosome')
    if rng.random() < 0.08:
        row = ['chrNoSegs', 10, 90, 'G1', 0.5, 0.5]
        if has_depth:
            row.append(3.0)
        bins.append(row)
        classes.add('bins_on_unsegmented_chromosome')
    return bins, segs, has_depth, classes


def gen_alpha(rng):
    r = rng.random()
    if r < 0.5:
        return rng.choice([0.05, 0.5, 0.1, 0.25, 0.9, 0.02, 1 / 3, 0.2])
    if r < 0.6:
        return rng.choice([0.999, 0.04, 0.0625])
    return rng.randint(21, 980) / 1000


def gen_config(rng, idx):
    """every subset of the three families is visited by the counter idx"""
    loc = [n for i, n in enumerate(LOC) if (idx >> i) & 1]
    spread = [n for i, n in enumerate(SPREAD) if ((idx * 7 + idx // 16) >> i) & 1]
    ivl = [n for i, n in enumerate(IVL) if ((idx * 3 + idx // 64) >> i) & 1]
    rng.shuffle(loc)
    rng.shuffle(spread)
    alpha = gen_alpha(rng)
    two_a = 2 / alpha
    boots = rng.choice([100, 10, 25, 40, 64, int(two_a), int(two_a) + 1, int(math.ceil(two_a)), 150])
    return {'loc': loc, 'spread': spread, 'ivl': ivl, 'alpha': alpha, 'bootstraps': max(1, boots),
            'smoothed': rng.random() < 0.4, 'skip_low': rng.random() < 0.5}


def tame_config(rng, cfg, nbins, tier):
    """keep the exact-rational model affordable: large tables get few resamples, and the
    biweight midvariance (600-bit rationals per term) is mostly asked of small tables"""
    if 'ci' in cfg['ivl'] and nbins > 250:
        cfg['alpha'] = max(cfg['alpha'], 0.1)
        cfg['bootstraps'] = min(cfg['bootstraps'], 40)
    lim = 100 if tier == 'quick' else 150
    if 'bivar' in cfg['spread'] and nbins > lim and rng.random() < 0.9:
        cfg['spread'] = [x for x in cfg['spread'] if x != 'bivar']


# ----------------------------------------------------------------------------
# running the code

def make_cna(rows, has_depth):
    cols = BIN_COLS + (['depth'] if has_depth else [])
    return CNA.from_rows([tuple(r) for r in rows], columns=cols)


def make_segs(rows):
    return CNA.from_rows([tuple(r) for r in rows], columns=SEG_COLS)


def code_segmetrics(bins, segs, has_depth, cfg):
    cn = make_cna(bins, has_depth)
    sg = make_segs(segs)
    np.random.seed(12345)          # whatever the caller's RNG state is must not matter
    try:
        out = segmetrics.do_segmetrics(cn, sg, location_stats=list(cfg['loc']), spread_stats=list(cfg['spread']),
                                       interval_stats=list(cfg['ivl']), alpha=cfg['alpha'],
                                       bootstraps=cfg['bootstraps'], smoothed=cfg['smoothed'], skip_low=cfg['skip_low'])
    except Exception as e:          # noqa
        return Err(type(e).__name__ + ': ' + str(e)[:200])
    d = out.data
    res = {'n': len(d), 'cols': list(d.columns)}
    res['segcols'] = [[d[c].iloc[i] for c in SEG_COLS] for i in range(len(d))]
    for c in d.columns:
        if c not in SEG_COLS:
            res[c] = [float(x) for x in d[c].values]
    return res


def brute_bins(bins, has_depth, seg, skip_low, consts, mode='outer'):
    """index labels of the bins a segment's statistics are to be computed on"""
    out = []
    for i, b in enumerate(bins):
        if skip_low:
            if fr(b[4]) < consts['min_cvg'] or (has_depth and b[6] == 0):
                continue
        if b[0] != seg[0]:
            continue
        if mode == 'outer':
            ok = b[1] < seg[2] and seg[1] < b[2]
        else:
            ok = seg[1] <= b[1] and b[2] <= seg[2]
        if ok:
            out.append(i)
    return out


def n_boot_code(bootstraps, alpha):
    if bootstraps <= 2 / alpha:
        return int(np.ceil(2 / alpha))
    return bootstraps


def draw_oracles(vals, wts, cfg, consts):
    """the index matrix (and noise rows) confidence_interval_bootstrap draws for one segment,
    reproduced by seeding numpy exactly as the code does"""
    k = len(vals)
    if 'ci' not in cfg['ivl'] or k < consts['min_k']:
        return [], []
    nb = n_boot_code(cfg['bootstraps'], cfg['alpha'])
    np.random.seed(consts['seed'])
    idx = np.random.randint(0, k, size=(nb, k))
    noise = []
    if cfg['smoothed']:
        w = np.asarray(wts, float)
        bw = k ** (-1 / 4)
        for row in idx:
            noise.append([float(x) for x in (bw * np.sqrt(1 - np.take(w, row)) * np.random.randn(k))])
    return [[int(i) for i in row] for row in idx], noise


def kde_index(vals):
    from scipy import stats
    if len(vals) < 2:
        return None
    s = np.sort(np.asarray(vals, float))
    if s[0] == s[-1]:
        return None
    try:
        y = stats.gaussian_kde(s).evaluate(s)
    except Exception:       # noqa
        return None
    return int(y.argmax())


def exact_ci(vals, wts, idx, noise, cfg):
    """percentiles of the bootstrap distribution of weighted means, exactly"""
    v = [fr(x) for x in vals]
    w = [fr(x) for x in wts]
    dist = []
    for r, row in enumerate(idx):
        if noise:
            nz = noise[r]
            num = sum((v[i] + fr(nz[c])) * w[i] for c, i in enumerate(row))
        else:
            num = sum(v[i] * w[i] for i in row)
        dist.append(num / sum(w[i] for i in row))
    a = fr(cfg['alpha'])
    return t_percentile(dist, 100 * (a / 2)), t_percentile(dist, 100 * (1 - a / 2)), dist


# ----------------------------------------------------------------------------
# do_segmetrics

def enc_cfg(cfg):
    return [list(cfg['loc']), list(cfg['spread']), list(cfg['ivl']), float(cfg['alpha']), int(cfg['bootstraps']),
            bool(cfg['smoothed']), bool(cfg['skip_low'])]


def enc_bins(bins, has_depth):
    return [[b[0], int(b[1]), int(b[2]), b[3], float(b[4]), float(b[5]), (float(b[6]) if has_depth else None)] for b in bins]


def enc_segs(segs):
    return [[s[0], int(s[1]), int(s[2]), s[3], float(s[4]), int(s[5]), float(s[6])] for s in segs]


def prepare_segmetrics(bins, segs, has_depth, cfg, consts):
    """brute-force bins, oracle draws and the model request of one case"""
    sel = [brute_bins(bins, has_depth, s, cfg['skip_low'], consts) for s in segs]
    per = []
    draws = []
    for ids, seg in zip(sel, segs):
        vals = [bins[i][4] for i in ids]
        wts = [bins[i][5] for i in ids]
        idx, noise = draw_oracles(vals, wts, cfg, consts)
        kd = kde_index(vals) if 'mode' in cfg['loc'] else None
        bl = None
        if 'bivar' in cfg['spread'] and len(vals) >= 2:
            # the library's own biweight location of the deviations (oracle of the bivar column)
            dev = np.asarray(vals, float) - float(seg[4])
            bl = float(descriptives.biweight_location(dev))
        per.append([kd, bl, idx, noise])
        draws.append((idx, noise))
    req = [enc_bins(bins, has_depth), enc_segs(segs), enc_cfg(cfg), [float(2 / cfg['alpha']), per]]
    return sel, draws, req


def t_tail(t2, df):
    from scipy import stats
    return float(2 * stats.t.sf(math.sqrt(float(t2)), df))


def check_segmetrics_case(ck, case, code, sel, draws, model, consts, label):
    bins, segs, has_depth, cfg = case['bins'], case['segs'], case['has_depth'], case['cfg']
    nontrivial = any(len(s) >= 2 for s in sel) and bool(cfg['loc'] or cfg['spread'] or cfg['ivl'])
    ck.count(case, nontrivial=nontrivial, cls=label)
    if isinstance(code, Err):
        ck.violation('do_segmetrics raised on a valid table: %s' % code.msg, case, code=code.msg, clause='C17_bins')
        return
    if isinstance(model, Err) or any(isinstance(m, Err) for m in model):
        raise RuntimeError('C17 model rejected a valid case (%r): %r' % (model, case))
    # --- C17_columns_kept
    same = code['n'] == len(segs) and all(
        list(a[:4]) == list(b[:4]) and float(a[4]) == float(b[4]) and int(a[5]) == int(b[5]) and float(a[6]) == float(b[6])
        for a, b in zip(code['segcols'], segs))
    if not same:
        ck.violation('segment table columns changed by do_segmetrics', case, code=code['segcols'], expected=segs,
                     clause='C17_columns_kept')
        return
    want_cols = list(cfg['loc']) + list(cfg['spread']) + (['ci_lo', 'ci_hi'] if 'ci' in cfg['ivl'] else []) + \
        (['pi_lo', 'pi_hi'] if 'pi' in cfg['ivl'] else [])
    if sorted(c for c in code['cols'] if c not in SEG_COLS) != sorted(set(want_cols)):
        ck.violation('unexpected statistic columns', case, code=code['cols'], expected=want_cols, clause='C17_columns_kept')
        return
    alpha = fr(cfg['alpha'])
    for si, seg in enumerate(segs):
        ids = sel[si]
        k = len(ids)
        vals = [fr(bins[i][4]) for i in ids]
        sl = fr(seg[4])
        mk, mids, mrow = model[si]
        mrow = {nm: v for nm, v in mrow}
        if int(mk) != k or [int(x) for x in mids] != ids:
            raise RuntimeError('C17: the model selects bins %r, the brute-force filter %r (contradicts C17_bins): %r' % (mids, ids, case))
        ck.cls('bins_%s' % ('0' if k == 0 else '1' if k == 1 else '2-8' if k <= 8 else '9-40' if k <= 40 else '41-300'))
        sub = dict(case, segment=si)
        # --- location and spread statistics: C17_bins + C17_defs
        for nm in list(cfg['loc']) + list(cfg['spread']):
            cv = code[nm][si]
            mv = mrow.get(nm)
            if nm == 'mode':
                if k == 0:
                    ok = isnan(cv)
                else:
                    ok = finite(cv) and any(float(x) == cv for x in vals)
                if not ok:
                    ck.violation('mode is not one of the segment\'s bin values', sub, code=cv, clause='C17_bins')
                    continue
                if not close(cv, mv):
                    ck.tie_break('model mode differs from the code', sub, code=cv, model=mv)
                continue
            if nm == 'p_ttest':
                # expected from scipy's t tail applied to the exact t^2
                if k < 2:
                    exp = None
                else:
                    v1 = t_var(vals, 1)
                    m = t_mean(vals)
                    exp = (None if m == 0 else 0.0) if v1 == 0 else t_tail(m * m * k / v1, k - 1)
                okc = isnan(cv) if exp is None else (finite(cv) and abs(cv - exp) <= 1e-7 * max(abs(exp), 1e-300) + 1e-300)
                if not okc:
                    ck.violation('p_ttest is not the two-sided t-test p-value of the segment\'s bins', sub, code=cv, expected=exp,
                                 clause='C17_defs')
                    continue
                if k >= 2 and v1 != 0:
                    t2 = m * m * k / v1
                    if mv is None or abs(float(mv) - float(t2)) > 1e-9 * max(1.0, float(t2)):
                        ck.tie_break('model t^2 differs', sub, code=float(t2), model=mv)
                else:
                    mexp = None if (k < 2 or m == 0) else F(0)
                    if mv != mexp:
                        ck.tie_break('model p_ttest (degenerate) differs from the code', sub, code=cv, model=mv)
                continue
            exp, margin = expected_stat(nm, vals, sl, consts)
            cmpv = cv
            if nm in SQUARED and finite(cv):
                cmpv = cv * cv
            if nm == 'bivar' and k >= 2 and exp is None:
                okc = not finite(cv)
            else:
                okc = close(cmpv, exp)
            amb = margin is not None and margin < 1e-7
            if not okc:
                if amb:
                    ck.float_ambiguous += 1
                    continue
                ck.violation('%s of segment %d is not the %s of the overlapping bins%s' % (
                    nm, si, nm, '' if nm in ('mean', 'median') else "' deviations from the segment log2"), sub,
                    code=cv, expected=(None if exp is None else (math.sqrt(float(exp)) if nm in SQUARED else float(exp))),
                    bins=ids, clause='C17_bins/C17_defs')
                continue
            if nm == 'bivar' and k >= 2 and mv is None:
                okm = not finite(cv)
            else:
                okm = close(cmpv, mv)
            if not okm:
                if amb:
                    ck.float_ambiguous += 1
                else:
                    ck.tie_break('model %s differs from the code' % nm, sub, code=cv, model=mv)
        # --- prediction interval: C17_pi_order
        if 'pi' in cfg['ivl']:
            lo, hi = code['pi_lo'][si], code['pi_hi'][si]
            if k == 0:
                if not (isnan(lo) and isnan(hi)):
                    ck.violation('pi of an empty segment is not NaN', sub, code=[lo, hi], clause='C17_bins')
            else:
                elo = t_percentile(vals, 100 * alpha / 2)
                ehi = t_percentile(vals, 100 * (1 - alpha / 2))
                med = float(t_median(vals))
                eps = 1e-12 * max(1.0, abs(med))
                if not (close(lo, elo) and close(hi, ehi) and lo <= med + eps and med - eps <= hi):
                    ck.violation('prediction interval is not the alpha/2, 1-alpha/2 percentiles around the median', sub,
                                 code=[lo, hi], expected=[float(elo), float(ehi)], median=med, clause='C17_pi_order')
                elif not (close(lo, mrow.get('pi_lo')) and close(hi, mrow.get('pi_hi'))):
                    ck.tie_break('model pi differs from the code', sub, code=[lo, hi], model=[mrow.get('pi_lo'), mrow.get('pi_hi')])
        # --- bootstrap confidence interval: C17_ci_order_range
        if 'ci' in cfg['ivl']:
            lo, hi = code['ci_lo'][si], code['ci_hi'][si]
            if k == 0:
                if not (isnan(lo) and isnan(hi)):
                    ck.violation('ci of an empty segment is not NaN', sub, code=[lo, hi], clause='C17_bins')
                continue
            fv = [float(x) for x in vals]
            vmin, vmax = min(fv), max(fv)
            eps = 1e-12 * max(1.0, abs(vmin), abs(vmax))
            idx, noise = draws[si]
            if k < consts['min_k']:
                elo = ehi = vals[0]
            else:
                elo, ehi, _ = exact_ci(fv, [bins[i][5] for i in ids], idx, noise, cfg)
            if not (finite(lo) and finite(hi) and lo <= hi):
                ck.violation('ci_lo <= ci_hi fails', sub, code=[lo, hi], clause='C17_ci_order_range')
                continue
            inside = vmin - eps <= lo and hi <= vmax + eps
            if not inside:
                if cfg['smoothed'] and k >= consts['min_k']:
                    # finding c17-smoothed-ci-leaves-range: reported once, on the canonical corpus case;
                    # elsewhere only counted (generators do not re-report an open finding's region)
                    ck.cls('smoothed_ci_outside_range')
                    if case.get('canonical') == SIG_SMOOTH:
                        ck.violation('smoothed bootstrap CI leaves the range of the segment\'s bins', sub, sig=SIG_SMOOTH,
                                     code=[lo, hi], range=[vmin, vmax], clause='C17_ci_order_range')
                else:
                    ck.violation('bootstrap CI outside the range of the segment\'s bins', sub, code=[lo, hi], range=[vmin, vmax],
                                 clause='C17_ci_order_range')
                    continue
            if not (close(lo, elo) and close(hi, ehi)):
                ck.violation('ci is not the alpha/2, 1-alpha/2 percentiles of the weighted means of the seeded resamples '
                             '(not reproducible from the seed constant)', sub, code=[lo, hi], expected=[float(elo), float(ehi)],
                             clause='C17_ci_order_range')
            elif not (close(lo, mrow.get('ci_lo')) and close(hi, mrow.get('ci_hi'))):
                ck.tie_break('model ci differs from the code', sub, code=[lo, hi], model=[mrow.get('ci_lo'), mrow.get('ci_hi')])


def run_segmetrics(ck, consts, cases, label):
    reqs, metas = [], []
    for case in cases:
        code = code_segmetrics(case['bins'], case['segs'], case['has_depth'], case['cfg'])
        sel, draws, req = prepare_segmetrics(case['bins'], case['segs'], case['has_depth'], case['cfg'], consts)
        reqs.append(req)
        metas.append((case, code, sel, draws))
    models = vlib.model_batch_parallel('c17_segmetrics', reqs)
    for (case, code, sel, draws), model in zip(metas, models):
        if isinstance(model, Err):
            raise RuntimeError('C17 model rejected a case: %r %r' % (model, case))
        check_segmetrics_case(ck, case, code, sel, draws, model, consts, label)
        for c in case.get('classes', []):
            ck.cls(c)


def check_segmetrics(ck, consts):
    rng = ck.rng
    n = 200 if ck.tier == 'quick' else 3200
    chunk = 100 if ck.tier == 'quick' else 250
    start = rng.randrange(1 << 10)
    done = 0
    while done < n:
        cases = []
        for i in range(min(chunk, n - done)):
            bins, segs, has_depth, classes = gen_table(rng, ck.tier)
            cfg = gen_config(rng, start + done + i)
            tame_config(rng, cfg, len(bins), ck.tier)
            cases.append({'bins': bins, 'segs': segs, 'has_depth': has_depth, 'cfg': cfg, 'classes': sorted(classes)})
        run_segmetrics(ck, consts, cases, 'segmetrics')
        done += len(cases)


# ----------------------------------------------------------------------------
# p_adjust_bh

def code_bh(ps):
    try:
        return [float(x) for x in bintest.p_adjust_bh(np.asarray(ps, float))]
    except Exception as e:      # noqa
        return Err(type(e).__name__)


def check_bh_vectors(ck, vectors, label, literal=True, coq_specs=True):
    code = [code_bh(v) for v in vectors]
    model = vlib.model_batch_parallel('c17_bh', [[float(x) for x in v] for v in vectors])
    # the executable Coq specs (cubic / quadratic in n) are run on the short vectors only
    sdef, srank = {}, {}
    if coq_specs:
        i_def = [i for i, v in enumerate(vectors) if len(v) <= 24]
        i_rank = [i for i, v in enumerate(vectors) if len(v) <= 80]
        for i, r in zip(i_def, vlib.model_batch_parallel('c17_bh_def', [[float(x) for x in vectors[i]] for i in i_def])):
            sdef[i] = r
        for i, r in zip(i_rank, vlib.model_batch_parallel('c17_bh_rank', [[float(x) for x in vectors[i]] for i in i_rank])):
            srank[i] = r
    for vi, v in enumerate(vectors):
        ps = [fr(x) for x in v]
        n = len(ps)
        case = {'p': [float(x) for x in v]}
        ck.count(case, nontrivial=(n >= 2 and len(set(ps)) >= 1), cls=label)
        exp = t_bh(ps) if (literal or n <= 64) else t_bh_fast(ps)
        if n <= 64 and t_bh_fast(ps) != exp:
            raise RuntimeError('harness: the two BH oracles disagree on %r' % case)
        # the executable Coq specs must be the same function as the Python oracle
        if vi in sdef and [F(x) for x in sdef[vi]] != exp:
            raise RuntimeError('Spec/Bintest.v bh_def differs from the Python oracle on %r: %r vs %r' % (case, sdef[vi], exp))
        if vi in srank:
            order = sorted(range(n), key=lambda i: ps[i])
            if [F(x) for x in srank[vi]] != [exp[i] for i in order]:
                raise RuntimeError('Spec/Bintest.v bh_rank differs from the Python oracle on %r' % case)
        cv = code[vi]
        if isinstance(cv, Err) or len(cv) != n:
            ck.violation('p_adjust_bh failed', case, code=cv, clause='C17_bh')
            continue
        bad = [i for i in range(n) if not close(cv[i], exp[i], 1e-12)]
        # p <= q <= 1, monotone in rank
        for i in range(n):
            if not (float(ps[i]) - 1e-15 <= cv[i] <= 1.0):
                bad.append(i)
        o = sorted(range(n), key=lambda i: ps[i])
        for a, b in zip(o, o[1:]):
            if cv[a] > cv[b] + 1e-15:
                bad.append(b)
        if bad:
            ck.violation('p_adjust_bh is not the Benjamini-Hochberg adjustment min(1, min_{j>=i} n p_(j)/j)', case,
                         code=cv, expected=[float(x) for x in exp], positions=sorted(set(bad)), clause='C17_bh')
            continue
        mv = model[vi]
        if isinstance(mv, Err) or [F(x) for x in mv] != exp:
            # the model is proved equal to the definition: a difference here is ours
            raise RuntimeError('Model/Bintest.v bh differs from the definition on %r: %r' % (case, mv))


def check_bh(ck):
    rng = ck.rng
    vals = [0.0, 0.25, 0.5, 1.0]
    ex = []
    for n in range(1, 6):
        ex.extend(list(v) for v in itertools.product(vals, repeat=n))
    ck.extra['exhaustive_scope'] = 'p_adjust_bh on all vectors of length 1..5 over {0, 1/4, 1/2, 1}: %d vectors' % len(ex)
    check_bh_vectors(ck, ex, 'bh_exhaustive')
    nrand = 250 if ck.tier == 'quick' else 2500
    vecs = []
    for _ in range(nrand):
        r = rng.random()
        n = rng.randint(1, 12) if r < 0.3 else rng.randint(13, 80) if r < 0.75 else rng.randint(81, 200)
        kind = rng.choice(['uniform', 'uniform', 'small', 'ties', 'grid', 'extremes', 'sorted', 'reversed'])
        if kind == 'uniform':
            v = [rng.random() for _ in range(n)]
        elif kind == 'small':
            v = [rng.random() ** 6 for _ in range(n)]
        elif kind == 'ties':
            pool = [rng.random() for _ in range(rng.randint(1, 4))] + [0.0, 1.0]
            v = [rng.choice(pool) for _ in range(n)]
        elif kind == 'grid':
            v = [rng.randint(0, 16) / 16 for _ in range(n)]
        elif kind == 'extremes':
            v = [rng.choice([0.0, 1.0, 1e-300, 5e-324, 1 - 2 ** -53, rng.random()]) for _ in range(n)]
        elif kind == 'sorted':
            v = sorted(rng.random() for _ in range(n))
        else:
            v = sorted((rng.random() for _ in range(n)), reverse=True)
        vecs.append(v)
    check_bh_vectors(ck, vecs, 'bh_random', literal=False)


# ----------------------------------------------------------------------------
# do_bintest

def code_bintest(bins, segs, has_depth, alpha, target_only):
    cn = make_cna(bins, has_depth)
    sg = None if segs is None else make_segs(segs)
    before = cn.data.copy()
    try:
        hits = bintest.do_bintest(cn, sg, alpha=alpha, target_only=target_only)
    except Exception as e:      # noqa
        return Err(type(e).__name__ + ': ' + str(e)[:200])
    d = hits.data
    return {'idx': [int(i) for i in d.index], 'log2': [float(x) for x in d['log2'].values],
            'p': [float(x) for x in d['p_bintest'].values],
            'rows': [[d[c].iloc[i] for c in ('chromosome', 'start', 'end', 'gene', 'weight')] for i in range(len(d))],
            'input_unchanged': bool(before.equals(cn.data))}


def brute_residuals(bins, segs):
    """(bin index, residual) in table order; None when a bin lies inside more than one segment
    (then the property does not say which mean applies)"""
    out = []
    if not segs:
        by = {}
        for i, b in enumerate(bins):
            by.setdefault(b[0], []).append(i)
        med = {c: t_median([fr(bins[i][4]) for i in ix]) for c, ix in by.items()}
        return [(i, fr(b[4]) - med[b[0]]) for i, b in enumerate(bins)]
    for i, b in enumerate(bins):
        inside = [s for s in segs if s[0] == b[0] and s[1] <= b[1] and b[2] <= s[2]]
        if len(inside) > 1:
            return None
        if inside:
            out.append((i, fr(b[4]) - fr(inside[0][4])))
    return out


def p_normal_two_sided(r, w):
    """2 * Phi(-|r| / sqrt(1 - w)) through erfc (independent of scipy)"""
    v = 1.0 - w
    if v == 0:
        return None if r == 0 else 0.0
    z = abs(r) / math.sqrt(v)
    return math.erfc(z / math.sqrt(2.0))


def check_bintest_cases(ck, consts, cases, label):
    from scipy.stats import norm
    z_reqs = [[enc_bins(c['bins'], c['has_depth']), (None if c['segs'] is None else enc_segs(c['segs'])), bool(c['target_only'])]
              for c in cases]
    zs = vlib.model_batch_parallel('c17_bintest_z', z_reqs)
    reqs2 = []
    for c, z in zip(cases, zs):
        if isinstance(z, Err):
            raise RuntimeError('C17 bintest model rejected %r: %r' % (c, z))
        raw = []
        for idx, res, z2 in z:
            if z2 is None:
                raw.append(None)
            elif z2 == 'inf':
                raw.append(0.0)
            else:
                raw.append(float(2.0 * norm.cdf(-math.sqrt(float(z2)))))      # the Phi oracle
        c['_raw'] = raw
        reqs2.append([enc_bins(c['bins'], c['has_depth']), (None if c['segs'] is None else enc_segs(c['segs'])),
                      float(c['alpha']), bool(c['target_only']), raw])
    models = vlib.model_batch_parallel('c17_bintest', reqs2)
    for c, z, model in zip(cases, zs, models):
        raw = c.pop('_raw')
        case = {k: v for k, v in c.items() if not k.startswith('_')}
        code = code_bintest(c['bins'], c['segs'], c['has_depth'], c['alpha'], c['target_only'])
        bins = c['bins']
        res = brute_residuals(bins, c['segs'])
        if res is None:
            # overlapping segments: outside the property's precondition -- model vs code only
            ck.count(case, nontrivial=False, cls=label + '_overlapping_segments')
            exp_hits = None
        else:
            if c['target_only']:
                res = [(i, r) for i, r in res if bins[i][3] not in consts['anti']]
            ps = [p_normal_two_sided(float(r), bins[i][5]) for i, r in res]
            for (i, r), p, (mi, mr, mz), rp in zip(res, ps, z, raw):
                if int(mi) != i or F(mr) != r:
                    raise RuntimeError('C17: model residual rows differ from the brute-force residuals (contradicts the residuals '
                                       'theorem): %r vs %r in %r' % ((mi, mr), (i, r), case))
                if (p is None) != (rp is None) or (p is not None and abs(p - rp) > 1e-9 * max(p, 1e-300) + 1e-300):
                    raise RuntimeError('harness: erfc and scipy normal tails disagree: %r %r' % (p, rp))
            if len(res) != len(z):
                raise RuntimeError('C17: model keeps %d residual rows, brute force %d: %r' % (len(z), len(res), case))
            if any(p is None for p in ps):
                # weight 1 and residual 0: 0/0 -- no p-value exists; model vs code only
                exp_hits = None
                ck.count(case, nontrivial=False, cls=label + '_undefined_z')
            else:
                q = t_bh_fast([fr(p) for p in ps]) if ps else []
                a = fr(c['alpha'])
                exp_hits = [(i, r, qq) for (i, r), qq in zip(res, q) if qq < a]
                margin = min([abs(float(qq - a)) for qq in q] + [1.0])
                ck.count(case, nontrivial=len(res) >= 2, cls=label)
                ck.cls('bintest_hits_%s' % ('0' if not exp_hits else 'all' if len(exp_hits) == len(res) else 'some'))
                if margin < 1e-7 * float(a):
                    ck.float_ambiguous += 1
                    continue
        if isinstance(code, Err):
            if exp_hits is not None and len(res) > 0:
                ck.violation('do_bintest raised on a valid table: %s' % code.msg, case, code=code.msg, clause='C17_hits')
            else:
                ck.cls('bintest_error_on_degenerate_input')
            continue
        if not code['input_unchanged']:
            ck.violation('do_bintest modified the caller\'s bin table', case, clause='C17_hits')
            continue
        if exp_hits is not None:
            ok = code['idx'] == [i for i, _, _ in exp_hits] and \
                all(close(cl, r, 1e-12) for cl, (_, r, _) in zip(code['log2'], exp_hits)) and \
                all(abs(cp - float(qq)) <= 1e-7 * float(qq) + 1e-300 for cp, (_, _, qq) in zip(code['p'], exp_hits)) and \
                all(list(row[:4]) == list(bins[i][:4]) and float(row[4]) == float(bins[i][5]) for row, i in zip(code['rows'], code['idx']))
            if not ok:
                ck.violation('do_bintest does not return exactly the bins whose BH-adjusted two-sided normal p of '
                             '(log2 - segment mean)/sqrt(1 - weight) is below alpha', case,
                             code={'idx': code['idx'], 'log2': code['log2'], 'p': code['p']},
                             expected={'idx': [i for i, _, _ in exp_hits], 'log2': [float(r) for _, r, _ in exp_hits],
                                       'p': [float(qq) for _, _, qq in exp_hits]}, clause='C17_hits')
                continue
        if isinstance(model, Err):
            raise RuntimeError('C17 bintest model error %r on %r' % (model, case))
        okm = code['idx'] == [int(h[0]) for h in model] and \
            all(close(cl, h[1], 1e-12) for cl, h in zip(code['log2'], model)) and \
            all(abs(cp - float(h[2])) <= 1e-7 * float(h[2]) + 1e-300 for cp, h in zip(code['p'], model))
        if not okm:
            ck.tie_break('model do_bintest differs from the code', case,
                         code={'idx': code['idx'], 'log2': code['log2'], 'p': code['p']},
                         model=[[int(h[0]), float(h[1]), float(h[2])] for h in model])
            continue
        if exp_hits is not None and len(res) >= 2 and ck.rng.random() < 0.5:
            boundary_case(ck, c, case, res, q, label)


def boundary_case(ck, c, case, res, q, label):
    """alpha placed exactly ON an adjusted p-value the code itself computed: 'below alpha' is
    strict.  Run A (alpha just under 1) yields the code's own adjusted values (checked against
    the oracle); run B uses one of them as alpha and must return exactly the rows of run A
    whose value is smaller."""
    a_hi = 1 - 2.0 ** -30
    ra = code_bintest(c['bins'], c['segs'], c['has_depth'], a_hi, c['target_only'])
    if isinstance(ra, Err):
        return
    qmap = {i: qq for (i, _), qq in zip(res, q)}
    for i, cp in zip(ra['idx'], ra['p']):
        if i not in qmap or abs(cp - float(qmap[i])) > 1e-7 * float(qmap[i]) + 1e-300:
            ck.violation('adjusted p of a returned bin is not its Benjamini-Hochberg value', dict(case, alpha=a_hi),
                         code=[i, cp], expected=(float(qmap[i]) if i in qmap else None), clause='C17_hits')
            return
    cands = sorted(set(x for x in ra['p'] if 0 < x < a_hi))
    if not cands:
        return
    alpha_b = ck.rng.choice(cands)
    rb = code_bintest(c['bins'], c['segs'], c['has_depth'], alpha_b, c['target_only'])
    bcase = dict(case, alpha=alpha_b, boundary=True)
    ck.count(bcase, nontrivial=True, cls=label + '_alpha_on_a_value')
    want = [i for i, cp in zip(ra['idx'], ra['p']) if cp < alpha_b]
    got = rb if isinstance(rb, Err) else rb['idx']
    if got != want:
        ck.violation('a bin whose adjusted p EQUALS alpha was returned (or one below alpha was not): "below alpha" is strict',
                     bcase, code=got, expected=want, clause='C17_hits')


def gen_bintest_case(rng, tier):
    bins, segs, has_depth, classes = gen_table(rng, tier, for_bintest=True)
    # spikes: single bins far from their segment with a high weight
    for b in bins:
        if rng.random() < 0.04:
            b[4] = b[4] + rng.choice([-1, 1]) * rng.randint(1 * GRID, 5 * GRID) / GRID
            b[5] = rng.choice([0.9, 0.95, 63 / 64, 0.5])
    for b in bins:
        if b[5] == 1.0:
            b[5] = 1.0 if rng.random() < 0.3 else 63 / 64
    mode = rng.choice(['segments'] * 6 + ['none', 'none', 'empty'])
    if mode == 'none':
        use = None
    elif mode == 'empty':
        use = []
    else:
        use = segs
        if rng.random() < 0.04 and segs:
            s = list(rng.choice(segs))
            use = segs + [s] if s[0] == segs[-1][0] else segs       # a repeated (overlapping) segment, grouped
    alpha = rng.choice([0.005, 0.005, 0.05, 0.5, 1e-6, 0.999, 0.2, rng.random()])
    return {'bins': bins, 'segs': use, 'has_depth': has_depth, 'alpha': alpha, 'target_only': rng.random() < 0.5,
            'classes': sorted(classes)}


def check_bintest(ck, consts):
    rng = ck.rng
    n = 150 if ck.tier == 'quick' else 2500
    done = 0
    while done < n:
        cases = [gen_bintest_case(rng, ck.tier) for _ in range(min(250, n - done))]
        check_bintest_cases(ck, consts, cases, 'bintest')
        done += len(cases)


# ----------------------------------------------------------------------------
# corpus

def load_corpus():
    p = os.path.join(vlib.VERIF, 'corpus', 'c17.json')
    return json.load(open(p)) if os.path.exists(p) else {}


def corpus_cfg(c):
    cfg = {'loc': [], 'spread': [], 'ivl': [], 'alpha': 0.05, 'bootstraps': 100, 'smoothed': False, 'skip_low': False}
    cfg.update(c.get('cfg', {}))
    return cfg


def check_corpus(ck, consts):
    cp = load_corpus()
    cases = []
    for c in cp.get('segmetrics', []):
        has_depth = any(len(b) > 6 for b in c['bins'])
        case = {'bins': [list(b) for b in c['bins']], 'segs': [list(s) for s in c['segs']], 'has_depth': has_depth,
                'cfg': corpus_cfg(c), 'what': c.get('what', '')}
        if c.get('canonical'):
            case['canonical'] = c['canonical']
        cases.append(case)
        # exact expectations written in the corpus (regressions of repaired defects)
        if 'expect' in c:
            code = code_segmetrics(case['bins'], case['segs'], has_depth, case['cfg'])
            for col, want in c['expect'].items():
                got = None if isinstance(code, Err) else code.get(col)
                ok = got is not None and len(got) == len(want) and all(
                    (isnan(g) if w is None else (finite(g) and abs(g - w) <= 1e-9 * max(1.0, abs(w)))) for g, w in zip(got, want))
                if not ok:
                    ck.violation('corpus: %s' % c.get('what', col), case, code=got, expected=want, clause='C17_defs')
    run_segmetrics(ck, consts, cases, 'corpus_segmetrics')
    vecs = [list(v) for v in cp.get('bh', [])]
    if vecs:
        check_bh_vectors(ck, vecs, 'corpus_bh')
    bt = []
    for c in cp.get('bintest', []):
        has_depth = any(len(b) > 6 for b in c['bins'])
        case = {'bins': [list(b) for b in c['bins']], 'segs': (None if c.get('segs') is None else [list(s) for s in c['segs']]),
                'has_depth': has_depth, 'alpha': c.get('alpha', 0.005), 'target_only': bool(c.get('target_only', False)),
                'what': c.get('what', '')}
        bt.append(case)
        if 'expect_idx' in c:
            code = code_bintest(case['bins'], case['segs'], has_depth, case['alpha'], case['target_only'])
            got = None if isinstance(code, Err) else code['idx']
            if got != c['expect_idx']:
                ck.violation('corpus: %s' % c.get('what', ''), case, code=got, expected=c['expect_idx'], clause='C17_hits')
    if bt:
        check_bintest_cases(ck, consts, bt, 'corpus_bintest')


# ----------------------------------------------------------------------------

def run(ck, scratch):
    ck.rule = ('do_segmetrics: random sorted bin tables (1-3 chromosomes, gaps, abutting, a few nested bins, low-coverage and '
               'zero-depth bins, weights in (0,1] on a 1/64 grid, log2 on a 1/1024 grid with ties / all-equal / symmetric / outliers) '
               'with segmentations of 1..300 bins per segment incl. empty and single-bin segments, boundaries cutting through a bin, '
               'segments on a chromosome without bins; every subset of location/spread/interval statistics is visited by a counter; '
               'alpha in (0,1), bootstraps around 2/alpha, smoothed and skip_low on/off.  Each statistic of each segment is compared with '
               'its textbook value in exact Fractions on the brute-force overlapping bins, then with the Coq model.  do_bintest: same '
               'tables with spiked bins, with / without / empty segments, target_only on/off, alpha incl. extremes: hits compared with '
               'brute-force residuals -> erfc tail -> literal BH -> filter.  p_adjust_bh: exhaustive on {0,1/4,1/2,1}^(<=5), random to '
               'length 200.  non-trivial = some segment has >= 2 bins and a statistic is requested (bintest: >= 2 residual rows); '
               'distinct by case hash')
    ck.exhaustive = True
    ck.explanation = 'exhaustive: true refers to the enumerated p_adjust_bh scope only (coverage.exhaustive_scope)'
    ck.unproved_remainder = list(UNPROVED)
    if not ck.build_status.get('driver_ok'):
        raise RuntimeError('model driver unavailable')
    load_cnvlib()
    np.seterr(all='ignore')
    consts = get_consts()
    import time
    parts = {}
    for name, fn in (('corpus', lambda: check_corpus(ck, consts)), ('p_adjust_bh', lambda: check_bh(ck)),
                     ('do_bintest', lambda: check_bintest(ck, consts)), ('do_segmetrics', lambda: check_segmetrics(ck, consts))):
        t0 = time.time()
        fn()
        parts[name] = round(time.time() - t0, 1)
    ck.extra['part_seconds'] = parts


def replay(ck, body):
    """re-run one saved case against the current code"""
    load_cnvlib()
    np.seterr(all='ignore')
    consts = get_consts()
    case = body.get('case') or {}
    before = len(ck.violations)
    if 'p' in case:
        check_bh_vectors(ck, [case['p']], 'replay')
    elif 'cfg' in case:
        c = {k: v for k, v in case.items() if k in ('bins', 'segs', 'has_depth', 'cfg')}
        run_segmetrics(ck, consts, [c], 'replay')
    elif 'alpha' in case:
        c = {k: v for k, v in case.items() if k in ('bins', 'segs', 'has_depth', 'alpha', 'target_only')}
        check_bintest_cases(ck, consts, [c], 'replay')
    else:
        print('tie-break / obligation replay (no input case):', body.get('what'))
        return 1
    bad = len(ck.violations) > before or ck.known_hits
    for v in ck.violations[before:]:
        print('still fails:', v[1])
    if bad:
        print('VIOLATION property=C17 replay=(replayed case still fails)')
        return 1
    print('replayed case passes on the current tree')
    return 0
