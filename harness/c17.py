"""C17 -- segment statistics and bin tests match their definitions on the right bins.

Anchors: cnvlib/segmetrics.py (do_segmetrics, make_ci_func, make_pi_func, calc_intervals,
confidence_interval_bootstrap, _smooth_samples_by_weight), cnvlib/bintest.py (do_bintest,
z_prob, p_adjust_bh), cnvlib/cnary.py (residuals, drop_low_coverage), skgenome
iter_ranges_of, cnvlib/descriptives.py.

Every case: run the real code; evaluate the direct oracle (independent textbook formulas in
fractions.Fraction on brute-force selected bins); run the extracted Coq model
(Model/Segmetrics.v, Model/Bintest.v) on the same input and compare at 1e-9.
Oracles (DESIGN section 2): KDE arg-max, Student-t tail, normal cdf, the bootstrap index matrix
and the smoothing noise are supplied from the same library calls the code makes (the index
matrix is reproduced by seeding numpy with the generated seed constant)."""
import os, math, json, itertools
from fractions import Fraction as F
import numpy as np
import vlib
from vlib import Err

LEVEL = 'proof'
HERE = os.path.dirname(os.path.abspath(__file__))
GRID = 1024
TOL = 1e-9
BIN_COLS = ['chromosome', 'start', 'end', 'gene', 'log2', 'weight']
SEG_COLS = ['chromosome', 'start', 'end', 'gene', 'log2', 'probes', 'weight']
LOC = ['mean', 'median', 'mode', 'p_ttest']
SPREAD = ['stdev', 'mad', 'mse', 'iqr', 'bivar', 'sem']
IVL = ['ci', 'pi']
SQUARED = {'stdev', 'bivar', 'sem'}
SIG_SMOOTH = 'c17-smoothed-ci-leaves-range'

UNPROVED = [
    'mode: the Gaussian-KDE arg-max index is an oracle (scipy.stats.gaussian_kde); the column is compared with the sorted value at scipy\'s arg-max',
    'p_ttest: the Student-t tail is an oracle with the contract "a function of (t^2, df), 1 at t = 0" (C17_ttest_*); the model computes t^2 exactly and the column is compared with 2*t.sf(sqrt(t^2), n-1) from scipy',
    'bintest: Phi (normal cdf) is an oracle; raw p-values are compared with erfc(|z|/sqrt 2); everything after them (BH, hits, the returned table) is exact',
    'square roots (stdev, bivar, sem, sqrt(1 - weight) of the z-score) are outside the model: squared quantities are modelled, proved and compared; in the smoothed bootstrap sqrt(1 - w) and the bandwidth k^(-1/4) are oracles supplied as the floats numpy returns (contract used: sqrt 0 = 0)',
    'random draws: the index matrix and the normal draws are oracles indexed by the SEED (any generator; contract: the shape asked for, indices in [0,k)); that the code seeds with the generated constant, asks for (bootstraps, k) and draws one randn(k) per resample is observed on every direct call (numpy\'s generator wrapped inside the harness process) and by reproducing the draws',
    'the biweight location inside bivar is the iterative estimate of Model/Descriptives.v (C19); C17_defs states the midvariance formula about that location',
    'the guard `bootstraps <= 2/alpha` compares with the FLOAT 2/alpha: the model takes that float (q2a) as input; C17_ci_bootstraps holds for any q2a, C17_source_n_boot for the exact quotient; cases where the float quotient is an integer are counted float_ambiguous when the exact one is not',
    'segments given WITHOUT a log2 column (residuals against each range\'s median) are outside the model (a segment row always carries log2)',
    'function-body translator: norm.cdf and k ** (-1/4) enter as expression-keyed opaque inputs; translated from the source (tools/fnspecs/segmetrics.py, segmetrics_e2.py): the bootstraps guard, calc_intervals\' loop, the interval columns, do_segmetrics\' location / spread loops with the stat_funcs table, confidence_interval_bootstrap from k = len(values) on (k < 2, percentile selection), the smoothing comprehension per element, the bintest row stores / hit mask / BH arithmetic; NOT translated -- tied by genspec fingerprints and the correspondence only: the generator expression of `deviations`, the seeded resampling (np.random.*, np.take, np.average), the argsorts and running minimum of p_adjust_bh',
    'float rounding: theorems are about exact rational arithmetic; code and model are compared at 1e-9 (decisions closer than 1e-7 to a boundary are counted float_ambiguous)',
]


# ----------------------------------------------------------------------------
# helpers

def fr(x):
    return F(float(x))


def isnan(x):
    return x is None or (isinstance(x, float) and x != x)


def finite(x):
    try:
        return math.isfinite(float(x))
    except (TypeError, ValueError):
        return False


def close(code, exact, tol=TOL):
    """code: float; exact: Fraction / float / None (= NaN)"""
    if exact is None:
        return isnan(code)
    if isnan(code) or not finite(code):
        return False
    e = float(exact)
    return abs(float(code) - e) <= tol * max(1.0, abs(e))


def par_batch(entry, vals, workers=12, cost=None):
    """vlib.model_batch sharded over `workers` driver processes, the shards balanced by an estimate of the work
    (requests sorted by cost and dealt round-robin); results in request order"""
    n = len(vals)
    if n < 8:
        return vlib.model_batch(entry, vals)
    from concurrent.futures import ThreadPoolExecutor
    k = min(workers, n)
    cost = cost or (lambda v: len(repr(v)))
    order = sorted(range(n), key=lambda i: -cost(vals[i]))
    shards = [order[i::k] for i in range(k)]
    with ThreadPoolExecutor(k) as ex:
        res = list(ex.map(lambda ix: vlib.model_batch(entry, [vals[i] for i in ix]), shards))
    out = [None] * n
    for ix, r in zip(shards, res):
        for i, v in zip(ix, r):
            out[i] = v
    return out


def load_cnvlib():
    global CNA, segmetrics, bintest, descriptives
    from cnvlib.cnary import CopyNumArray as CNA_
    from cnvlib import segmetrics as sm, bintest as bt, descriptives as ds
    CNA, segmetrics, bintest, descriptives = CNA_, sm, bt, ds


def get_consts():
    c = vlib.model_call('c17_consts', [])
    return {'seed': int(c[0]), 'min_k': int(c[1]), 'mad_scale': F(c[2]), 'min_cvg': F(c[3]), 'anti': list(c[4])}


# ----------------------------------------------------------------------------
# textbook definitions (exact)

def t_mean(v):
    return sum(v) / len(v)


def t_median(v):
    s = sorted(v)
    n = len(s)
    return s[n // 2] if n % 2 else (s[n // 2 - 1] + s[n // 2]) / 2


def t_percentile(v, p):
    """numpy's default: linear interpolation between the two nearest order statistics"""
    s = sorted(v)
    n = len(s)
    h = (n - 1) * F(p) / 100
    i = h.numerator // h.denominator
    f = h - i
    if i + 1 >= n:
        return s[n - 1] if i >= n - 1 else s[i]
    return s[i] + f * (s[i + 1] - s[i])


def t_var(v, ddof):
    m = t_mean(v)
    return sum((x - m) ** 2 for x in v) / (len(v) - ddof)


def t_biloc_float(a, c=6.0, eps=1e-3, max_iter=5):
    """Tukey's biweight location (Beers, Flynn & Gebhardt 1990), iterated as the package
    documents it (median start, c = 6, at most 5 steps, stop below 1e-3) -- an independent
    float implementation; exact iteration squares the size of the rationals at every step"""
    a = np.asarray([float(x) for x in a], float)
    M = float(np.median(a))
    r = M
    for _ in range(max_iter):
        d = a - M
        mad = float(np.median(np.abs(d)))
        u = d / max(c * mad, eps)
        mask = np.abs(u) < 1
        w = (1 - u[mask] ** 2) ** 2
        r = M if w.sum() == 0 else M + float((d[mask] * w).sum() / w.sum())
        if abs(r - M) <= eps:
            break
        M = r
    return float(r)


def t_bivar_sq(a, mad_scale, centre, c=F(9), eps=fr(1e-3)):
    """biweight midvariance squared about `centre` (exact); returns (value or None for a
    vanishing denominator, smallest margin of a mask decision)"""
    M = fr(centre)
    d = [x - M for x in a]
    mad = t_median([abs(x) for x in d])
    sc = max(c * mad, eps)
    u = [x / sc for x in d]
    margin = min(abs(abs(x) - 1) for x in u)
    mk = [(di, ui) for di, ui in zip(d, u) if abs(ui) < 1]
    if not any(ui != 0 for _, ui in mk):
        return (mad * mad_scale) ** 2, margin
    n = len(mk)
    num = n * sum(di ** 2 * (1 - ui ** 2) ** 4 for di, ui in mk)
    den = sum((1 - ui ** 2) * (1 - 5 * ui ** 2) for di, ui in mk)
    if den == 0:
        return None, margin
    return num / den ** 2, margin


def t_bh(ps):
    """Benjamini-Hochberg, literally: q_(i) = min(1, min_{j >= i} n p_(j) / j), ranks by a
    stable ascending sort (tied values get equal q, asserted)"""
    n = len(ps)
    order = sorted(range(n), key=lambda i: ps[i])
    T = [n * ps[order[j]] / (j + 1) for j in range(n)]
    q = [None] * n
    for r in range(n):
        q[order[r]] = min(F(1), min(T[r:]))
    return q


def t_bh_fast(ps):
    n = len(ps)
    order = sorted(range(n), key=lambda i: ps[i])
    q = [None] * n
    cur = F(1)
    for r in range(n - 1, -1, -1):
        cur = min(cur, n * ps[order[r]] / (r + 1))
        q[order[r]] = cur
    return q


def expected_stat(name, vals, seg_log2, consts):
    """the property text's value of a location / spread statistic (None = NaN); squared where
    the column is a square root.  Returns (value, margin or None)."""
    n = len(vals)
    if name in ('mean', 'median'):
        if n == 0:
            return None, None
        return (t_mean(vals) if name == 'mean' else t_median(vals)), None
    d = [x - seg_log2 for x in vals]
    if n == 0:
        return None, None
    if name == 'stdev':
        return t_var(d, 0), None
    if name == 'sem':
        return (None if n < 2 else t_var(d, 1) / n), None
    if n == 1:
        return F(0), None                 # the decorators' default for one value
    if name == 'mad':
        m = t_median(d)
        return consts['mad_scale'] * t_median([abs(x - m) for x in d]), None
    if name == 'mse':
        return sum(x * x for x in d) / n, None
    if name == 'iqr':
        return t_percentile(d, 75) - t_percentile(d, 25), None
    if name == 'bivar':
        return t_bivar_sq(d, consts['mad_scale'], t_biloc_float(d))
    raise KeyError(name)


# ----------------------------------------------------------------------------
# generators

def grid(rng, lo=-4 * GRID, hi=4 * GRID):
    return rng.randint(lo, hi) / GRID


def seg_sizes(rng, tier, want_ci):
    r = rng.random()
    if r < 0.45:
        return rng.randint(2, 8)
    if r < 0.8:
        return rng.randint(9, 40)
    if r < 0.93:
        return rng.randint(41, 120)
    return rng.randint(121, 300)


def gen_values(rng, k):
    kind = rng.choice(['noise', 'noise', 'noise', 'ties', 'equal', 'two', 'outlier', 'symmetric', 'wide', 'zero_mean', 'zeros'])
    base = grid(rng, -2 * GRID, 2 * GRID)
    if kind == 'equal':
        return [base] * k, kind
    if kind == 'zeros':
        return [0.0] * k, kind              # t = 0/0
    if kind == 'zero_mean':
        # mean exactly 0 with some spread: t = 0, p_ttest = 1
        half = [rng.randint(1, 400) / GRID for _ in range(k // 2)]
        v = [h for h in half] + [-h for h in half] + ([0.0] if k % 2 else [])
        rng.shuffle(v)
        return v, kind
    if kind == 'ties':
        pool = [base + rng.randint(-6, 6) / 64 for _ in range(rng.randint(2, 4))]
        return [rng.choice(pool) for _ in range(k)], kind
    if kind == 'two':
        a, b = base, base + rng.randint(1, 512) / GRID
        return [rng.choice([a, b]) for _ in range(k)], kind
    if kind == 'symmetric':
        half = [rng.randint(0, 400) / GRID for _ in range(k // 2)]
        v = [base + h for h in half] + [base - h for h in half] + ([base] if k % 2 else [])
        rng.shuffle(v)
        return v, kind
    amp = 1500 if kind == 'wide' else 300
    v = [base + rng.randint(-amp, amp) / GRID for _ in range(k)]
    if kind == 'outlier' and k >= 2:
        v[rng.randrange(k)] = base + rng.choice([-1, 1]) * rng.randint(3 * GRID, 6 * GRID) / GRID
    return v, kind


def gen_table(rng, tier, for_bintest=False):
    """a sorted bin table and a segmentation of it (grouped by chromosome); returns
    (bin rows, segment rows, has_depth, class labels)"""
    names = ['chr1', 'chr2', 'chrX', 'chr10']
    rng.shuffle(names)
    nchrom = rng.choice([1, 1, 1, 2, 2, 3])
    bins, segs, classes = [], [], set()
    has_depth = rng.random() < 0.4
    low_rate = rng.choice([0, 0, 0.03, 0.15])
    zero_depth_rate = rng.choice([0, 0.05]) if has_depth else 0
    budget = rng.choice([60, 150, 300, 600]) if tier == 'quick' else rng.choice([60, 150, 300, 600, 900])
    for ci, chrom in enumerate(names[:nchrom]):
        pos = rng.choice([0, 0, 1, 1000])
        nseg = rng.randint(1, 4)
        weights_kind = rng.choice(['rand', 'rand', 'equal', 'ones', 'tiny'])
        carry = None            # a segment start inherited from a cut through the previous bin
        for j in range(nseg):
            kind = rng.choice(['normal'] * 6 + ['empty', 'single', 'single', 'pair'])
            if kind == 'empty':
                pos += rng.randint(0, 300)
                s0 = carry if carry is not None else pos
                e0 = max(s0, pos) + rng.randint(50, 500)
                segs.append([chrom, s0, e0, 'sg', grid(rng), 0, 0.0])
                pos = e0 + rng.choice([0, 0, 40])
                carry = None
                classes.add('empty_segment')
                continue
            k = 1 if kind == 'single' else 2 if kind == 'pair' else min(seg_sizes(rng, tier, False), max(2, budget))
            budget = max(2, budget - k)
            if kind == 'single':
                classes.add('single_bin_segment')
            if k == 2:
                classes.add('two_bin_segment')
            vals, vkind = gen_values(rng, k)
            classes.add('values_' + vkind)
            first_start = None
            last = None
            for i in range(k):
                gap = rng.choice([0, 0, 0, 0, rng.randint(1, 200)])
                if carry is not None and i == 0:
                    gap = 0
                s = pos + gap
                e = s + rng.randint(20, 400)
                if first_start is None:
                    first_start = s
                lg = vals[i]
                if rng.random() < low_rate:
                    lg = rng.choice([-25.0, -15.5, -15.0, -20.0])
                    classes.add('low_coverage_bin')
                if weights_kind == 'equal':
                    w = 0.5
                elif weights_kind == 'ones':
                    w = 1.0 if rng.random() < 0.3 else rng.randint(1, 64) / 64
                elif weights_kind == 'tiny':
                    w = rng.randint(1, 8) / 1024
                else:
                    w = rng.randint(1, 64) / 64
                gene = rng.choice(['G%d' % rng.randint(1, 5)] * 5 + ['Antitarget', 'Antitarget', 'Background', '-'])
                row = [chrom, s, e, gene, lg, w]
                if has_depth:
                    row.append(0.0 if rng.random() < zero_depth_rate else rng.randint(1, 400) / 4)
                bins.append(row)
                last = (s, e)
                pos = e
                # an extra bin nested in / overlapping the one just written (ends no longer sorted)
                if rng.random() < 0.02 and e - s > 4 and i + 1 < k:
                    s2 = rng.randint(s, e - 2)
                    e2 = rng.randint(s2 + 1, e - 1) if rng.random() < 0.7 else e + rng.randint(1, 50)
                    row2 = [chrom, s2, e2, gene, grid(rng), w]
                    if has_depth:
                        row2.append(5.0)
                    bins.append(row2)
                    pos = max(pos, e2)
                    last = (min(s, s2), max(e, e2))
                    classes.add('nested_bins')
            s0 = carry if carry is not None else first_start - rng.choice([0, 0, 0, rng.randint(0, 30)])
            s0 = max(0, s0)
            carry = None
            cut = rng.random()
            if cut < 0.12 and last[1] - last[0] > 2 and j + 1 < nseg:
                e0 = rng.randint(last[0] + 1, last[1] - 1)     # cut through the last bin
                carry = e0
                classes.add('boundary_cuts_bin')
            elif cut < 0.3:
                e0 = pos + rng.randint(1, 60)
                pos = e0
            else:
                e0 = pos
            sl = rng.choice(['grid', 'grid', 'mean', 'wmean', 'zero'])
            if sl == 'grid':
                sg = vals[0] + rng.randint(-256, 256) / GRID
            elif sl == 'zero':
                sg = 0.0
            elif sl == 'mean':
                sg = float(np.mean(vals))
                classes.add('seglog2_is_mean')
            else:
                sg = round(float(np.mean(vals)) * GRID) / GRID
            segs.append([chrom, s0, e0, 'sg', sg, k, 1.0])
        # a chromosome's trailing bins outside every segment
        if rng.random() < 0.15:
            for _ in range(rng.randint(1, 3)):
                s = pos + rng.randint(0, 50)
                e = s + rng.randint(20, 200)
                row = [chrom, s, e, 'G9', grid(rng), rng.randint(1, 64) / 64]
                if has_depth:
                    row.append(7.0)
                bins.append(row)
                pos = e
            classes.add('bins_outside_segments')
    if rng.random() < 0.08:
        segs.append(['chrNoBins', 0, 1000, 'sg', 0.25, 0, 0.0])
        classes.add('segment_on_missing_chromosome')
    if rng.random() < 0.08:
        row = ['chrNoSegs', 10, 90, 'G1', 0.5, 0.5]
        if has_depth:
            row.append(3.0)
        bins.append(row)
        classes.add('bins_on_unsegmented_chromosome')
    return bins, segs, has_depth, classes


def gen_alpha(rng):
    r = rng.random()
    if r < 0.5:
        return rng.choice([0.05, 0.5, 0.1, 0.25, 0.9, 0.02, 1 / 3, 0.2])
    if r < 0.6:
        return rng.choice([0.999, 0.04, 0.0625])
    return rng.randint(21, 980) / 1000


def gen_config(rng, idx):
    """every subset of the three families is visited by the counter idx"""
    loc = [n for i, n in enumerate(LOC) if (idx >> i) & 1]
    spread = [n for i, n in enumerate(SPREAD) if ((idx * 7 + idx // 16) >> i) & 1]
    ivl = [n for i, n in enumerate(IVL) if ((idx * 3 + idx // 64) >> i) & 1]
    rng.shuffle(loc)
    rng.shuffle(spread)
    if loc and rng.random() < 0.06:
        loc.insert(rng.randrange(len(loc) + 1), rng.choice(loc))
    if spread and rng.random() < 0.06:
        spread.insert(rng.randrange(len(spread) + 1), rng.choice(spread))
    if ivl and rng.random() < 0.3:
        ivl = ivl[::-1] + ([rng.choice(ivl)] if rng.random() < 0.2 else [])
    alpha = gen_alpha(rng)
    two_a = 2 / alpha
    boots = rng.choice([100, 10, 25, 40, 64, int(two_a), int(two_a) + 1, int(math.ceil(two_a)), 150])
    return {'loc': loc, 'spread': spread, 'ivl': ivl, 'alpha': alpha, 'bootstraps': max(1, boots),
            'smoothed': rng.random() < 0.4, 'skip_low': rng.random() < 0.5}


def tame_config(rng, cfg, nbins, tier):
    """keep the exact-rational model affordable: large tables get few resamples, and the
    biweight midvariance (600-bit rationals per term) is mostly asked of small tables"""
    if 'ci' in cfg['ivl'] and nbins > 250:
        cfg['alpha'] = max(cfg['alpha'], 0.1)
        cfg['bootstraps'] = min(cfg['bootstraps'], 40)
    # smoothed bootstrap: every element is a product of three floats (160-bit rationals): bounded work per case
    if 'ci' in cfg['ivl'] and cfg['smoothed']:
        work = nbins * n_boot_code(cfg['bootstraps'], cfg['alpha'])
        if work > (2500 if tier == 'quick' else 8000):
            if rng.random() < 0.6:
                cfg['smoothed'] = False
            else:
                cfg['alpha'] = max(cfg['alpha'], rng.choice([0.2, 0.25, 0.5]))
                cfg['bootstraps'] = min(cfg['bootstraps'], rng.choice([4, 8, 10, 12]))
    lim = 100 if tier == 'quick' else 150
    if 'bivar' in cfg['spread'] and nbins > lim and rng.random() < 0.9:
        cfg['spread'] = [x for x in cfg['spread'] if x != 'bivar']


# ----------------------------------------------------------------------------
# running the code

def make_cna(rows, has_depth):
    cols = BIN_COLS + (['depth'] if has_depth else [])
    return CNA.from_rows([tuple(r) for r in rows], columns=cols)


def make_segs(rows):
    return CNA.from_rows([tuple(r) for r in rows], columns=SEG_COLS)


def code_segmetrics(bins, segs, has_depth, cfg):
    cn = make_cna(bins, has_depth)
    sg = make_segs(segs)
    np.random.seed(12345)          # whatever the caller's RNG state is must not matter
    try:
        out = segmetrics.do_segmetrics(cn, sg, location_stats=list(cfg['loc']), spread_stats=list(cfg['spread']),
                                       interval_stats=list(cfg['ivl']), alpha=cfg['alpha'],
                                       bootstraps=cfg['bootstraps'], smoothed=cfg['smoothed'], skip_low=cfg['skip_low'])
    except Exception as e:          # noqa
        return Err(type(e).__name__ + ': ' + str(e)[:200])
    d = out.data
    res = {'n': len(d), 'cols': list(d.columns)}
    res['segcols'] = [[d[c].iloc[i] for c in SEG_COLS] for i in range(len(d))]
    for c in d.columns:
        if c not in SEG_COLS:
            res[c] = [float(x) for x in d[c].values]
    if 'ci' in cfg['ivl']:
        # reproducible run to run: the same request again in the same process, the global generator left in
        # another state (C17_ci_seed_state / C17_ci_reproducible)
        np.random.seed(424242)
        np.random.rand(3)
        try:
            again = segmetrics.do_segmetrics(make_cna(bins, has_depth), make_segs(segs), interval_stats=['ci'],
                                             alpha=cfg['alpha'], bootstraps=cfg['bootstraps'], smoothed=cfg['smoothed'],
                                             skip_low=cfg['skip_low']).data
            res['ci_again'] = [[float(x) for x in again['ci_lo'].values], [float(x) for x in again['ci_hi'].values]]
        except Exception as e:          # noqa
            res['ci_again'] = 'raised ' + type(e).__name__
    return res


def same_floats(a, b):
    return len(a) == len(b) and all((x == y) or (x != x and y != y) for x, y in zip(a, b))


def first_occurrences(names):
    out = []
    for n in names:
        if n not in out:
            out.append(n)
    return out


def brute_bins(bins, has_depth, seg, skip_low, consts, mode='outer'):
    """index labels of the bins a segment's statistics are to be computed on"""
    out = []
    for i, b in enumerate(bins):
        if skip_low:
            if fr(b[4]) < consts['min_cvg'] or (has_depth and b[6] == 0):
                continue
        if b[0] != seg[0]:
            continue
        if mode == 'outer':
            ok = b[1] < seg[2] and seg[1] < b[2]
        else:
            ok = seg[1] <= b[1] and b[2] <= seg[2]
        if ok:
            out.append(i)
    return out


def n_boot_code(bootstraps, alpha):
    if bootstraps <= 2 / alpha:
        return int(np.ceil(2 / alpha))
    return bootstraps


def bw_code(k):
    """the bandwidth exactly as _smooth_samples_by_weight computes it"""
    return float(k ** (-1 / 4))


def draw_oracles(vals, wts, cfg, consts):
    """what confidence_interval_bootstrap draws for one segment, reproduced by seeding numpy with the generated
    seed constant: the index matrix randint(0, k, size=(bootstraps, k)) and -- smoothed -- one randn(k) per row"""
    k = len(vals)
    if 'ci' not in cfg['ivl'] or k < consts['min_k']:
        return [], []
    nb = n_boot_code(cfg['bootstraps'], cfg['alpha'])
    np.random.seed(consts['seed'])
    idx = np.random.randint(0, k, size=(nb, k))
    zs = []
    if cfg['smoothed']:
        for _row in idx:
            zs.append([float(x) for x in np.random.randn(k)])
    return [[int(i) for i in row] for row in idx], zs


def sqrt_table(wts):
    """np.sqrt on the points 1 - w (keys exact, values the floats numpy returns)"""
    out = {}
    for w in wts:
        out[F(1) - fr(w)] = float(np.sqrt(1 - np.float64(w)))
    return [[k, v] for k, v in sorted(out.items())]


def kde_index(vals):
    from scipy import stats
    if len(vals) < 2:
        return None
    s = np.sort(np.asarray(vals, float))
    if s[0] == s[-1]:
        return None
    try:
        y = stats.gaussian_kde(s).evaluate(s)
    except Exception:       # noqa
        return None
    return int(y.argmax())


def exact_ci(vals, wts, idx, zs, cfg):
    """percentiles of the bootstrap distribution of weighted means, exactly; smoothed: every resampled value
    v_i gets bw * sqrt(1 - w_i) * z added, bw = k^(-1/4), z the standard-normal draw of its position"""
    v = [fr(x) for x in vals]
    w = [fr(x) for x in wts]
    k = len(v)
    dist = []
    if zs:
        bw = fr(bw_code(k))
        sd = [fr(float(np.sqrt(1 - np.float64(x)))) for x in wts]
    for r, row in enumerate(idx):
        if zs:
            z = zs[r]
            num = sum((v[i] + bw * sd[i] * fr(z[c])) * w[i] for c, i in enumerate(row))
        else:
            num = sum(v[i] * w[i] for i in row)
        dist.append(num / sum(w[i] for i in row))
    a = fr(cfg['alpha'])
    return t_percentile(dist, 100 * (a / 2)), t_percentile(dist, 100 * (1 - a / 2)), dist


# ----------------------------------------------------------------------------
# do_segmetrics

def enc_cfg(cfg):
    return [list(cfg['loc']), list(cfg['spread']), list(cfg['ivl']), float(cfg['alpha']), int(cfg['bootstraps']),
            bool(cfg['smoothed']), bool(cfg['skip_low'])]


def enc_bins(bins, has_depth):
    return [[b[0], int(b[1]), int(b[2]), b[3], float(b[4]), float(b[5]), (float(b[6]) if has_depth else None)] for b in bins]


def enc_segs(segs):
    return [[s[0], int(s[1]), int(s[2]), s[3], float(s[4]), int(s[5]), float(s[6])] for s in segs]


def prepare_segmetrics(bins, segs, has_depth, cfg, consts):
    """brute-force bins, oracle draws and the model request of one case"""
    sel = [brute_bins(bins, has_depth, s, cfg['skip_low'], consts) for s in segs]
    per = []
    draws = []
    for ids, seg in zip(sel, segs):
        vals = [bins[i][4] for i in ids]
        wts = [bins[i][5] for i in ids]
        idx, noise = draw_oracles(vals, wts, cfg, consts)
        kd = kde_index(vals) if 'mode' in cfg['loc'] else None
        bl = None
        if 'bivar' in cfg['spread'] and len(vals) >= 2:
            # the library's own biweight location of the deviations (oracle of the bivar column)
            dev = np.asarray(vals, float) - float(seg[4])
            bl = float(descriptives.biweight_location(dev))
        per.append([kd, bl, idx, noise, bw_code(max(1, len(vals)))])
        draws.append((idx, noise))
    sq = sqrt_table([b[5] for b in bins]) if ('ci' in cfg['ivl'] and cfg['smoothed']) else []
    req = [enc_bins(bins, has_depth), enc_segs(segs), enc_cfg(cfg), [float(2 / cfg['alpha']), sq, per]]
    return sel, draws, req


def t_tail(t2, df):
    from scipy import stats
    return float(2 * stats.t.sf(math.sqrt(float(t2)), df))


def check_segmetrics_case(ck, case, code, sel, draws, model, consts, label):
    bins, segs, has_depth, cfg = case['bins'], case['segs'], case['has_depth'], case['cfg']
    nontrivial = any(len(s) >= 2 for s in sel) and bool(cfg['loc'] or cfg['spread'] or cfg['ivl'])
    ck.count(case, nontrivial=nontrivial, cls=label)
    if isinstance(code, Err):
        ck.violation('do_segmetrics raised on a valid table: %s' % code.msg, case, code=code.msg, clause='C17_bins')
        return
    if isinstance(model, Err) or any(isinstance(m, Err) for m in model):
        raise RuntimeError('C17 model rejected a valid case (%r): %r' % (model, case))
    # --- C17_columns_kept
    same = code['n'] == len(segs) and all(
        list(a[:4]) == list(b[:4]) and float(a[4]) == float(b[4]) and int(a[5]) == int(b[5]) and float(a[6]) == float(b[6])
        for a, b in zip(code['segcols'], segs))
    if not same:
        ck.violation('segment table columns changed by do_segmetrics', case, code=code['segcols'], expected=segs,
                     clause='C17_columns_kept')
        return
    # --- C17_table_columns: the segment table's columns, then the requested location statistics in the requested
    # order, the requested spread statistics in the requested order, ci_lo, ci_hi, pi_lo, pi_hi -- nothing else
    want_cols = first_occurrences(list(cfg['loc']) + list(cfg['spread']) + (['ci_lo', 'ci_hi'] if 'ci' in cfg['ivl'] else []) +
                                  (['pi_lo', 'pi_hi'] if 'pi' in cfg['ivl'] else []))
    if code['cols'] != SEG_COLS + want_cols:
        ck.violation('output columns are not the segment columns followed by the requested statistics in the requested order',
                     case, code=code['cols'], expected=SEG_COLS + want_cols, clause='C17_table_columns')
        return
    for si, m in enumerate(model):
        if [nm for nm, _ in m[2]] != want_cols:
            ck.tie_break('model column names / order differ from the code', dict(case, segment=si), code=code['cols'],
                         model=[nm for nm, _ in m[2]])
            return
    if len(set(cfg['loc'])) < len(cfg['loc']) or len(set(cfg['spread'])) < len(cfg['spread']):
        ck.cls('repeated_statistic_name')
    if 'ci_again' in code:
        ck.cls('ci_second_call')
        ag = code['ci_again']
        if isinstance(ag, str) or not (same_floats(ag[0], code['ci_lo']) and same_floats(ag[1], code['ci_hi'])):
            ck.violation('the bootstrap CI is not reproducible run to run: a second call in the same process (global generator '
                         'in another state) returns a different interval', case, code=ag, expected=[code['ci_lo'], code['ci_hi']],
                         clause='C17_ci_seed')
            return
    alpha = fr(cfg['alpha'])
    for si, seg in enumerate(segs):
        ids = sel[si]
        k = len(ids)
        vals = [fr(bins[i][4]) for i in ids]
        sl = fr(seg[4])
        mk, mids, mrow = model[si]
        mrow = {nm: v for nm, v in mrow}
        if int(mk) != k or [int(x) for x in mids] != ids:
            raise RuntimeError('C17: the model selects bins %r, the brute-force filter %r (contradicts C17_bins): %r' % (mids, ids, case))
        ck.cls('bins_%s' % ('0' if k == 0 else '1' if k == 1 else '2-8' if k <= 8 else '9-40' if k <= 40 else '41-300'))
        sub = dict(case, segment=si)
        # --- location and spread statistics: C17_bins + C17_defs
        for nm in list(cfg['loc']) + list(cfg['spread']):
            cv = code[nm][si]
            mv = mrow.get(nm)
            if nm == 'mode':
                if k == 0:
                    ok = isnan(cv)
                else:
                    ok = finite(cv) and any(float(x) == cv for x in vals)
                if not ok:
                    ck.violation('mode is not one of the segment\'s bin values', sub, code=cv, clause='C17_bins')
                    continue
                if not close(cv, mv):
                    ck.tie_break('model mode differs from the code', sub, code=cv, model=mv)
                continue
            if nm == 'p_ttest':
                # expected from scipy's t tail applied to the exact t^2
                if k < 2:
                    exp = None
                else:
                    v1 = t_var(vals, 1)
                    m = t_mean(vals)
                    exp = (None if m == 0 else 0.0) if v1 == 0 else t_tail(m * m * k / v1, k - 1)
                okc = isnan(cv) if exp is None else (finite(cv) and abs(cv - exp) <= 1e-7 * max(abs(exp), 1e-300) + 1e-300)
                if not okc:
                    ck.violation('p_ttest is not the two-sided t-test p-value of the segment\'s bins', sub, code=cv, expected=exp,
                                 clause='C17_defs')
                    continue
                if k >= 2 and v1 != 0:
                    t2 = m * m * k / v1
                    if mv is None or abs(float(mv) - float(t2)) > 1e-9 * max(1.0, float(t2)):
                        ck.tie_break('model t^2 differs', sub, code=float(t2), model=mv)
                else:
                    mexp = None if (k < 2 or m == 0) else F(0)
                    if mv != mexp:
                        ck.tie_break('model p_ttest (degenerate) differs from the code', sub, code=cv, model=mv)
                continue
            exp, margin = expected_stat(nm, vals, sl, consts)
            cmpv = cv
            if nm in SQUARED and finite(cv):
                cmpv = cv * cv
            if nm == 'bivar' and k >= 2 and exp is None:
                okc = not finite(cv)
            else:
                okc = close(cmpv, exp)
            amb = margin is not None and margin < 1e-7
            if not okc:
                if amb:
                    ck.float_ambiguous += 1
                    continue
                ck.violation('%s of segment %d is not the %s of the overlapping bins%s' % (
                    nm, si, nm, '' if nm in ('mean', 'median') else "' deviations from the segment log2"), sub,
                    code=cv, expected=(None if exp is None else (math.sqrt(float(exp)) if nm in SQUARED else float(exp))),
                    bins=ids, clause='C17_bins/C17_defs')
                continue
            if nm == 'bivar' and k >= 2 and mv is None:
                okm = not finite(cv)
            else:
                okm = close(cmpv, mv)
            if not okm:
                if amb:
                    ck.float_ambiguous += 1
                else:
                    ck.tie_break('model %s differs from the code' % nm, sub, code=cv, model=mv)
        # --- prediction interval: C17_pi_order
        if 'pi' in cfg['ivl']:
            lo, hi = code['pi_lo'][si], code['pi_hi'][si]
            if k == 0:
                if not (isnan(lo) and isnan(hi)):
                    ck.violation('pi of an empty segment is not NaN', sub, code=[lo, hi], clause='C17_bins')
            else:
                elo = t_percentile(vals, 100 * alpha / 2)
                ehi = t_percentile(vals, 100 * (1 - alpha / 2))
                med = float(t_median(vals))
                eps = 1e-12 * max(1.0, abs(med))
                if not (close(lo, elo) and close(hi, ehi) and lo <= med + eps and med - eps <= hi):
                    ck.violation('prediction interval is not the alpha/2, 1-alpha/2 percentiles around the median', sub,
                                 code=[lo, hi], expected=[float(elo), float(ehi)], median=med, clause='C17_pi_order')
                elif not (close(lo, mrow.get('pi_lo')) and close(hi, mrow.get('pi_hi'))):
                    ck.tie_break('model pi differs from the code', sub, code=[lo, hi], model=[mrow.get('pi_lo'), mrow.get('pi_hi')])
        # --- bootstrap confidence interval: C17_ci_order_range
        if 'ci' in cfg['ivl']:
            lo, hi = code['ci_lo'][si], code['ci_hi'][si]
            if k == 0:
                if not (isnan(lo) and isnan(hi)):
                    ck.violation('ci of an empty segment is not NaN', sub, code=[lo, hi], clause='C17_bins')
                continue
            fv = [float(x) for x in vals]
            vmin, vmax = min(fv), max(fv)
            eps = 1e-12 * max(1.0, abs(vmin), abs(vmax))
            idx, noise = draws[si]
            if k < consts['min_k']:
                elo = ehi = vals[0]
            else:
                elo, ehi, _ = exact_ci(fv, [bins[i][5] for i in ids], idx, noise, cfg)
            if not (finite(lo) and finite(hi) and lo <= hi):
                ck.violation('ci_lo <= ci_hi fails', sub, code=[lo, hi], clause='C17_ci_order_range')
                continue
            inside = vmin - eps <= lo and hi <= vmax + eps
            if not inside:
                if cfg['smoothed'] and k >= consts['min_k']:
                    # finding c17-smoothed-ci-leaves-range: reported once, on the canonical corpus case;
                    # elsewhere only counted (generators do not re-report an open finding's region)
                    ck.cls('smoothed_ci_outside_range')
                    if case.get('canonical') == SIG_SMOOTH:
                        ck.violation('smoothed bootstrap CI leaves the range of the segment\'s bins', sub, sig=SIG_SMOOTH,
                                     code=[lo, hi], range=[vmin, vmax], clause='C17_ci_order_range')
                else:
                    ck.violation('bootstrap CI outside the range of the segment\'s bins', sub, code=[lo, hi], range=[vmin, vmax],
                                 clause='C17_ci_order_range')
                    continue
            if not (close(lo, elo) and close(hi, ehi)):
                ck.violation('ci is not the alpha/2, 1-alpha/2 percentiles of the weighted means of the seeded resamples '
                             '(not reproducible from the seed constant)', sub, code=[lo, hi], expected=[float(elo), float(ehi)],
                             clause='C17_ci_order_range')
            elif not (close(lo, mrow.get('ci_lo')) and close(hi, mrow.get('ci_hi'))):
                ck.tie_break('model ci differs from the code', sub, code=[lo, hi], model=[mrow.get('ci_lo'), mrow.get('ci_hi')])


def run_segmetrics(ck, consts, cases, label):
    reqs, metas = [], []
    for case in cases:
        code = code_segmetrics(case['bins'], case['segs'], case['has_depth'], case['cfg'])
        sel, draws, req = prepare_segmetrics(case['bins'], case['segs'], case['has_depth'], case['cfg'], consts)
        reqs.append(req)
        metas.append((case, code, sel, draws))
    models = par_batch('c17_segmetrics', reqs)
    for (case, code, sel, draws), model in zip(metas, models):
        if isinstance(model, Err):
            raise RuntimeError('C17 model rejected a case: %r %r' % (model, case))
        check_segmetrics_case(ck, case, code, sel, draws, model, consts, label)
        for c in case.get('classes', []):
            ck.cls(c)


def check_segmetrics(ck, consts):
    rng = ck.rng
    n = 200 if ck.tier == 'quick' else 3200
    chunk = 200 if ck.tier == 'quick' else 250
    start = rng.randrange(1 << 10)
    done = 0
    while done < n:
        cases = []
        for i in range(min(chunk, n - done)):
            bins, segs, has_depth, classes = gen_table(rng, ck.tier)
            cfg = gen_config(rng, start + done + i)
            tame_config(rng, cfg, len(bins), ck.tier)
            cases.append({'bins': bins, 'segs': segs, 'has_depth': has_depth, 'cfg': cfg, 'classes': sorted(classes)})
        run_segmetrics(ck, consts, cases, 'segmetrics')
        done += len(cases)



# ----------------------------------------------------------------------------
# confidence_interval_bootstrap, called directly, with numpy's generator observed

class RngLog:
    """records the calls confidence_interval_bootstrap makes to numpy's global generator (seed / randint / randn) and
    what they returned; the calls are passed on unchanged (harness process only)"""

    def __enter__(self):
        self.calls = []
        self.saved = (np.random.seed, np.random.randint, np.random.randn)
        seed0, randint0, randn0 = self.saved

        def seed(*a, **k):
            self.calls.append(('seed',) + tuple(a))
            return seed0(*a, **k)

        def randint(*a, **k):
            r = randint0(*a, **k)
            self.calls.append(('randint', tuple(a), dict(k), r))
            return r

        def randn(*a, **k):
            r = randn0(*a, **k)
            self.calls.append(('randn', tuple(a), r))
            return r
        np.random.seed, np.random.randint, np.random.randn = seed, randint, randn
        return self

    def __exit__(self, *exc):
        np.random.seed, np.random.randint, np.random.randn = self.saved
        return False


def gen_ci_direct(rng, tier):
    k = rng.choice([1, 1, 2, 2, 2, 3, 3, 4, 5, 8, 16, 30]) if rng.random() < 0.9 else rng.randint(31, 80)
    vals, vkind = gen_values(rng, k)
    wk = rng.choice(['rand', 'rand', 'ones', 'equal', 'tiny', 'some_ones'])
    wts = [1.0 if wk == 'ones' else 0.5 if wk == 'equal' else rng.randint(1, 8) / 1024 if wk == 'tiny'
           else (1.0 if (wk == 'some_ones' and rng.random() < 0.4) else rng.randint(1, 64) / 64) for _ in range(k)]
    r = rng.random()
    if r < 0.45:
        n = rng.choice([3, 4, 5, 8, 10, 16, 20, 25, 40, 50])
        alpha = 2 / n                      # 2/alpha is (about) the integer n: the guard `bootstraps <= 2/alpha` at equality
        boots = rng.choice([n - 1, n, n, n + 1, 1, 2 * n])
    elif r < 0.8:
        alpha = gen_alpha(rng)
        q = 2 / alpha
        boots = rng.choice([int(q) - 1, int(q), int(q) + 1, int(math.ceil(q)), int(math.ceil(q)) + 1, 1, 100])
    else:
        alpha = rng.choice([0.05, 0.5, 0.999, 0.75, 1 / 3])
        boots = rng.choice([100, 7, 60])
    boots = max(1, boots)
    smoothed = rng.random() < 0.5
    if k * max(boots, 2 / alpha) > 3000:
        alpha, boots = max(alpha, 0.2), min(boots, 12)
    return {'values': vals, 'weights': wts, 'alpha': alpha, 'bootstraps': boots, 'smoothed': smoothed, 'wkind': wk}


def check_ci_direct(ck, consts):
    rng = ck.rng
    n = 160 if ck.tier == 'quick' else 2500
    cases = [gen_ci_direct(rng, ck.tier) for _ in range(n)]
    # fixed shapes the proofs case-split on
    cases += [{'values': [0.25], 'weights': [0.5], 'alpha': 0.05, 'bootstraps': 100, 'smoothed': sm, 'wkind': 'fixed'} for sm in (False, True)]
    cases += [{'values': [1.0, 1.0], 'weights': [1.0, 1.0], 'alpha': 0.05, 'bootstraps': 100, 'smoothed': True, 'wkind': 'ones'},
              {'values': [0.0, 1.0, -0.5], 'weights': [0.5, 0.25, 1.0], 'alpha': 0.5, 'bootstraps': 4, 'smoothed': False, 'wkind': 'fixed'},
              {'values': [0.0, 1.0, -0.5], 'weights': [0.5, 0.25, 1.0], 'alpha': 0.5, 'bootstraps': 5, 'smoothed': True, 'wkind': 'fixed'}]
    recs, reqs = [], []
    for c in cases:
        vals, wts, k = c['values'], c['weights'], len(c['values'])
        np.random.seed(rng.randrange(1 << 30))
        with RngLog() as log:
            try:
                out = segmetrics.confidence_interval_bootstrap(np.asarray(vals, float), np.asarray(wts, float), c['alpha'],
                                                               c['bootstraps'], c['smoothed'])
                out = [float(out[0]), float(out[1])]
            except Exception as e:      # noqa
                out = Err(type(e).__name__ + ': ' + str(e)[:200])
        idx = [[int(i) for i in row] for call in log.calls if call[0] == 'randint' for row in call[3]]
        zs = [[float(x) for x in call[2]] for call in log.calls if call[0] == 'randn']
        recs.append((c, out, log.calls, idx, zs))
        per = [None, None, idx, zs if c['smoothed'] else [], bw_code(max(1, k))]
        reqs.append([[float(x) for x in vals], [float(x) for x in wts], float(c['alpha']), int(c['bootstraps']), bool(c['smoothed']),
                     [float(2 / c['alpha']), sqrt_table(wts) if c['smoothed'] else [], [per]]])
    models = par_batch('c17_ci', reqs)
    for (c, out, calls, idx, zs), model in zip(recs, models):
        case = {'ci_direct': True, 'values': c['values'], 'weights': c['weights'], 'alpha': c['alpha'],
                'bootstraps': c['bootstraps'], 'smoothed': c['smoothed']}
        k = len(c['values'])
        ck.count(case, nontrivial=k >= 2, cls='ci_direct')
        ck.cls('ci_direct_k%s' % (k if k <= 3 else '4+'))
        if isinstance(out, Err):
            ck.violation('confidence_interval_bootstrap raised: %s' % out.msg, case, code=out.msg, clause='C17_ci_cases')
            continue
        if k < 2:
            # C17_ci_cases: the value twice, nothing drawn, the generator not touched
            if calls or out != [float(c['values'][0])] * 2:
                ck.violation('a single bin must give its value twice without drawing anything', case, code=out,
                             calls=[x[0] for x in calls], clause='C17_ci_cases')
            elif isinstance(model, Err) or model[1] is None or [float(x) for x in model[1]] != out:
                ck.tie_break('model ci (k < 2) differs from the code', case, code=out, model=model)
            continue
        # C17_ci_bootstraps: the least integer that is >= bootstraps and >= 2/alpha
        q = F(2) / fr(c['alpha'])
        nb_exact = max(c['bootstraps'], math.ceil(q))
        near = abs(float(q) - round(float(q))) < 1e-9
        shape = [(x[0], x[1]) for x in calls[:2]]
        nb = len(idx)
        ok_calls = (len(calls) >= 2 and calls[0] == ('seed', consts['seed']) and calls[1][0] == 'randint'
                    and tuple(calls[1][1]) == (0, k) and tuple(calls[1][2].get('size', ())) == (nb, k)
                    and all(x[0] == 'randn' and tuple(x[1]) == (k,) for x in calls[2:])
                    and len(calls) - 2 == (nb if c['smoothed'] else 0)
                    and all(0 <= i < k for row in idx for i in row))
        if not ok_calls:
            ck.violation('the resampling is not: seed(0xA5EED); randint(0, k, size=(bootstraps, k)); one randn(k) per resample when '
                         'smoothed', case, calls=[(x[0], x[1]) for x in calls[:4]], n_calls=len(calls), clause='C17_ci_seed')
            continue
        if nb != nb_exact:
            if near:
                ck.float_ambiguous += 1
            else:
                ck.violation('the number of resamples is not max(bootstraps, ceil(2/alpha))', case, code=nb, expected=nb_exact,
                             clause='C17_ci_bootstraps')
                continue
        if near:
            ck.cls('ci_direct_2_over_alpha_integer')
        cfg = {'alpha': c['alpha']}
        elo, ehi, dist = exact_ci(c['values'], c['weights'], idx, zs, cfg)
        if not (close(out[0], elo) and close(out[1], ehi) and out[0] <= out[1]):
            ck.violation('ci is not the 100 alpha/2 and 100 (1 - alpha/2) percentiles of the weighted means of the resamples'
                         + (' smoothed by bw * sqrt(1 - w) * z, bw = k^(-1/4)' if c['smoothed'] else ''), case, code=out,
                         expected=[float(elo), float(ehi)], clause='C17_ci_smoothed_formula' if c['smoothed'] else 'C17_ci_resample_means')
            continue
        fv = [float(x) for x in c['values']]
        if not c['smoothed'] or all(w == 1.0 for w in c['weights']):
            # in range: un-smoothed always (C17_ci_order_range); smoothed with all weights 1 (C17_ci_smoothed_weight_one)
            eps = 1e-12 * max(1.0, abs(min(fv)), abs(max(fv)))
            if not (min(fv) - eps <= out[0] and out[1] <= max(fv) + eps):
                ck.violation('bootstrap CI outside the range of the bins', case, code=out, range=[min(fv), max(fv)],
                             clause='C17_ci_order_range')
                continue
            if c['smoothed']:
                ck.cls('ci_direct_smoothed_all_weights_one')
        if isinstance(model, Err):
            raise RuntimeError('C17 ci model rejected %r: %r' % (case, model))
        if int(model[0]) != nb and not near:
            ck.tie_break('model number of resamples differs from the code', case, code=nb, model=int(model[0]))
        elif model[1] is None or not (close(out[0], model[1][0]) and close(out[1], model[1][1])):
            ck.tie_break('model ci differs from the code', case, code=out, model=model[1])


# ----------------------------------------------------------------------------
# p_adjust_bh

def code_bh(ps):
    try:
        return [float(x) for x in bintest.p_adjust_bh(np.asarray(ps, float))]
    except Exception as e:      # noqa
        return Err(type(e).__name__)


def check_bh_vectors(ck, vectors, label, literal=True, coq_specs=True):
    code = [code_bh(v) for v in vectors]
    model = vlib.model_batch_parallel('c17_bh', [[float(x) for x in v] for v in vectors])
    # the executable Coq specs (cubic / quadratic in n) are run on the short vectors only
    sdef, srank = {}, {}
    if coq_specs:
        i_def = [i for i, v in enumerate(vectors) if len(v) <= 24]
        i_rank = [i for i, v in enumerate(vectors) if len(v) <= 80]
        for i, r in zip(i_def, vlib.model_batch_parallel('c17_bh_def', [[float(x) for x in vectors[i]] for i in i_def])):
            sdef[i] = r
        for i, r in zip(i_rank, vlib.model_batch_parallel('c17_bh_rank', [[float(x) for x in vectors[i]] for i in i_rank])):
            srank[i] = r
    for vi, v in enumerate(vectors):
        ps = [fr(x) for x in v]
        n = len(ps)
        case = {'p': [float(x) for x in v]}
        ck.count(case, nontrivial=(n >= 2 and len(set(ps)) >= 1), cls=label)
        exp = t_bh(ps) if (literal or n <= 64) else t_bh_fast(ps)
        if n <= 64 and t_bh_fast(ps) != exp:
            raise RuntimeError('harness: the two BH oracles disagree on %r' % case)
        # the executable Coq specs must be the same function as the Python oracle
        if vi in sdef and [F(x) for x in sdef[vi]] != exp:
            raise RuntimeError('Spec/Bintest.v bh_def differs from the Python oracle on %r: %r vs %r' % (case, sdef[vi], exp))
        if vi in srank:
            order = sorted(range(n), key=lambda i: ps[i])
            if [F(x) for x in srank[vi]] != [exp[i] for i in order]:
                raise RuntimeError('Spec/Bintest.v bh_rank differs from the Python oracle on %r' % case)
        cv = code[vi]
        if isinstance(cv, Err) or len(cv) != n:
            ck.violation('p_adjust_bh failed', case, code=cv, clause='C17_bh')
            continue
        bad = [i for i in range(n) if not close(cv[i], exp[i], 1e-12)]
        # p <= q <= 1, monotone in rank
        for i in range(n):
            if not (float(ps[i]) - 1e-15 <= cv[i] <= 1.0):
                bad.append(i)
        o = sorted(range(n), key=lambda i: ps[i])
        for a, b in zip(o, o[1:]):
            if cv[a] > cv[b] + 1e-15:
                bad.append(b)
        if bad:
            ck.violation('p_adjust_bh is not the Benjamini-Hochberg adjustment min(1, min_{j>=i} n p_(j)/j)', case,
                         code=cv, expected=[float(x) for x in exp], positions=sorted(set(bad)), clause='C17_bh')
            continue
        mv = model[vi]
        if isinstance(mv, Err) or [F(x) for x in mv] != exp:
            # the model is proved equal to the definition: a difference here is ours
            raise RuntimeError('Model/Bintest.v bh differs from the definition on %r: %r' % (case, mv))


def check_bh(ck):
    rng = ck.rng
    vals = [0.0, 0.25, 0.5, 1.0]
    ex = []
    for n in range(1, 6):
        ex.extend(list(v) for v in itertools.product(vals, repeat=n))
    ck.extra['exhaustive_scope'] = 'p_adjust_bh on all vectors of length 1..5 over {0, 1/4, 1/2, 1}: %d vectors' % len(ex)
    check_bh_vectors(ck, ex, 'bh_exhaustive')
    nrand = 250 if ck.tier == 'quick' else 2500
    vecs = []
    for _ in range(nrand):
        r = rng.random()
        n = rng.randint(1, 12) if r < 0.3 else rng.randint(13, 80) if r < 0.75 else rng.randint(81, 200)
        kind = rng.choice(['uniform', 'uniform', 'small', 'ties', 'grid', 'extremes', 'sorted', 'reversed'])
        if kind == 'uniform':
            v = [rng.random() for _ in range(n)]
        elif kind == 'small':
            v = [rng.random() ** 6 for _ in range(n)]
        elif kind == 'ties':
            pool = [rng.random() for _ in range(rng.randint(1, 4))] + [0.0, 1.0]
            v = [rng.choice(pool) for _ in range(n)]
        elif kind == 'grid':
            v = [rng.randint(0, 16) / 16 for _ in range(n)]
        elif kind == 'extremes':
            v = [rng.choice([0.0, 1.0, 1e-300, 5e-324, 1 - 2 ** -53, rng.random()]) for _ in range(n)]
        elif kind == 'sorted':
            v = sorted(rng.random() for _ in range(n))
        else:
            v = sorted((rng.random() for _ in range(n)), reverse=True)
        vecs.append(v)
    check_bh_vectors(ck, vecs, 'bh_random', literal=False)


# ----------------------------------------------------------------------------
# do_bintest

def code_bintest(bins, segs, has_depth, alpha, target_only):
    cn = make_cna(bins, has_depth)
    sg = None if segs is None else make_segs(segs)
    before = cn.data.copy()
    try:
        hits = bintest.do_bintest(cn, sg, alpha=alpha, target_only=target_only)
    except Exception as e:      # noqa
        return Err(type(e).__name__ + ': ' + str(e)[:200])
    d = hits.data
    return {'cols': list(d.columns), 'probes': [x for x in d['probes'].values] if 'probes' in d else None,
            'depth': [float(x) for x in d['depth'].values] if 'depth' in d else None,
            'idx': [int(i) for i in d.index], 'log2': [float(x) for x in d['log2'].values],
            'p': [float(x) for x in d['p_bintest'].values],
            'rows': [[d[c].iloc[i] for c in ('chromosome', 'start', 'end', 'gene', 'weight')] for i in range(len(d))],
            'input_unchanged': bool(before.equals(cn.data))}


def brute_residuals(bins, segs):
    """(bin index, residual) in table order; None when a bin lies inside more than one segment
    (then the property does not say which mean applies)"""
    out = []
    if not segs:
        by = {}
        for i, b in enumerate(bins):
            by.setdefault(b[0], []).append(i)
        med = {c: t_median([fr(bins[i][4]) for i in ix]) for c, ix in by.items()}
        return [(i, fr(b[4]) - med[b[0]]) for i, b in enumerate(bins)]
    for i, b in enumerate(bins):
        inside = [s for s in segs if s[0] == b[0] and s[1] <= b[1] and b[2] <= s[2]]
        if len(inside) > 1:
            return None
        if inside:
            out.append((i, fr(b[4]) - fr(inside[0][4])))
    return out


def residual_order_is_table_order(bins, segs):
    """do the residual rows (segment by segment, bins in table order inside each) come with increasing index labels?"""
    if not segs:
        return True
    seq = [i for s in segs for i, b in enumerate(bins) if s[0] == b[0] and s[1] <= b[1] and b[2] <= s[2]]
    return all(a < b for a, b in zip(seq, seq[1:]))


def p_normal_two_sided(r, w):
    """2 * Phi(-|r| / sqrt(1 - w)) through erfc (independent of scipy)"""
    v = 1.0 - w
    if v == 0:
        return None if r == 0 else 0.0
    z = abs(r) / math.sqrt(v)
    return math.erfc(z / math.sqrt(2.0))


def check_bintest_cases(ck, consts, cases, label):
    from scipy.stats import norm
    z_reqs = [[enc_bins(c['bins'], c['has_depth']), (None if c['segs'] is None else enc_segs(c['segs'])), bool(c['target_only'])]
              for c in cases]
    zs = vlib.model_batch_parallel('c17_bintest_z', z_reqs)
    reqs2 = []
    for c, z in zip(cases, zs):
        if isinstance(z, Err):
            raise RuntimeError('C17 bintest model rejected %r: %r' % (c, z))
        raw = []
        for idx, res, z2 in z:
            if z2 is None:
                raw.append(None)
            elif z2 == 'inf':
                raw.append(0.0)
            else:
                raw.append(float(2.0 * norm.cdf(-math.sqrt(float(z2)))))      # the Phi oracle
        c['_raw'] = raw
        reqs2.append([enc_bins(c['bins'], c['has_depth']), (None if c['segs'] is None else enc_segs(c['segs'])),
                      float(c['alpha']), bool(c['target_only']), raw, bool(c['has_depth'])])
    tables = par_batch('c17_bintest_table', reqs2)
    for t, c in zip(tables, cases):
        if isinstance(t, Err):
            raise RuntimeError('C17 bintest table model error %r on %r' % (t, c))
    # the (index, log2, p) view of the table is do_bintest of the model (C17_bintest_table)
    models = [[[r[0], r[5], r[9]] for r in t[1]] for t in tables]
    mcols = [list(t[0]) for t in tables]
    mrows = [t[1] for t in tables]
    for c, z, model, mcol, mrow in zip(cases, zs, models, mcols, mrows):
        raw = c.pop('_raw')
        case = {k: v for k, v in c.items() if not k.startswith('_')}
        for cl in c.get('classes', []):
            if cl.startswith('weight_one') or cl.startswith('tied_'):
                ck.cls('bintest_' + cl)
        code = code_bintest(c['bins'], c['segs'], c['has_depth'], c['alpha'], c['target_only'])
        bins = c['bins']
        res = brute_residuals(bins, c['segs'])
        if res is None:
            # overlapping segments: outside the property's precondition -- model vs code only
            ck.count(case, nontrivial=False, cls=label + '_overlapping_segments')
            exp_hits = None
        else:
            if c['target_only']:
                res = [(i, r) for i, r in res if bins[i][3] not in consts['anti']]
            ps = [p_normal_two_sided(float(r), bins[i][5]) for i, r in res]
            # the model's rows come in ITS order (table order, or the order of the residuals when the segments are
            # listed otherwise): same rows, matched position by position only when that order is table order
            zrows = list(zip(z, raw))
            if not residual_order_is_table_order(bins, c['segs']):
                if sorted(int(m[0][0]) for m in zrows) != [i for i, _ in res]:
                    raise RuntimeError('C17: model residual rows are not the brute-force residual rows: %r vs %r in %r'
                                       % ([int(m[0][0]) for m in zrows], [i for i, _ in res], case))
                zrows.sort(key=lambda m: int(m[0][0]))
            for (i, r), p, ((mi, mr, mz), rp) in zip(res, ps, zrows):
                if int(mi) != i or F(mr) != r:
                    raise RuntimeError('C17: model residual rows differ from the brute-force residuals (contradicts the residuals '
                                       'theorem): %r vs %r in %r' % ((mi, mr), (i, r), case))
                if (p is None) != (rp is None) or (p is not None and abs(p - rp) > 1e-9 * max(p, 1e-300) + 1e-300):
                    raise RuntimeError('harness: erfc and scipy normal tails disagree: %r %r' % (p, rp))
            if len(res) != len(z):
                raise RuntimeError('C17: model keeps %d residual rows, brute force %d: %r' % (len(z), len(res), case))
            if any(p is None for p in ps):
                # weight 1 and residual 0: 0/0 -- no p-value exists; model vs code only
                exp_hits = None
                ck.count(case, nontrivial=False, cls=label + '_undefined_z')
            else:
                q = t_bh_fast([fr(p) for p in ps]) if ps else []
                a = fr(c['alpha'])
                exp_hits = [(i, r, qq) for (i, r), qq in zip(res, q) if qq < a]
                margin = min([abs(float(qq - a)) for qq in q] + [1.0])
                ck.count(case, nontrivial=len(res) >= 2, cls=label)
                ck.cls('bintest_hits_%s' % ('0' if not exp_hits else 'all' if len(exp_hits) == len(res) else 'some'))
                if margin < 1e-7 * float(a):
                    ck.float_ambiguous += 1
                    continue
        if isinstance(code, Err):
            if exp_hits is not None and len(res) > 0:
                ck.violation('do_bintest raised on a valid table: %s' % code.msg, case, code=code.msg, clause='C17_hits')
            else:
                ck.cls('bintest_error_on_degenerate_input')
            continue
        if not code['input_unchanged']:
            ck.violation('do_bintest modified the caller\'s bin table', case, clause='C17_hits')
            continue
        # --- C17_bintest_table: the input's columns (log2 in place), probes, p_bintest; every row is the input bin of
        # that index label with nothing but log2 changed, probes = 1
        want_cols = BIN_COLS + (['depth'] if c['has_depth'] else []) + ['probes', 'p_bintest']
        rows_ok = code['cols'] == want_cols and all(int(x) == 1 for x in code['probes']) and \
            all(0 <= i < len(bins) for i in code['idx']) and \
            all(list(row[:4]) == list(bins[i][:4]) and float(row[4]) == float(bins[i][5]) for row, i in zip(code['rows'], code['idx'])) and \
            (not c['has_depth'] or all(float(d) == float(bins[i][6]) for d, i in zip(code['depth'], code['idx'])))
        if not rows_ok:
            ck.violation('the table do_bintest returns is not the input bins (log2 replaced by the residual) plus probes = 1 and '
                         'p_bintest', case, code={'cols': code['cols'], 'idx': code['idx'], 'probes': code['probes']},
                         expected=want_cols, clause='C17_bintest_table')
            continue
        if mcol != code['cols']:
            ck.tie_break('model column names of the bintest table differ from the code', case, code=code['cols'], model=mcol)
            continue
        if exp_hits is not None and not residual_order_is_table_order(bins, c['segs']):
            # segments listed in another order than the bins: exactly the same bins must come back; their order is the
            # model's (proved: table order if every bin is covered once, else the order of the residuals)
            ck.cls('bintest_segments_out_of_table_order')
            pos = {i: n for n, i in enumerate(code['idx'])}
            if sorted(code['idx']) != [i for i, _, _ in exp_hits] or len(pos) != len(code['idx']):
                ck.violation('do_bintest does not return exactly the bins whose adjusted p is below alpha', case,
                             code=code['idx'], expected=[i for i, _, _ in exp_hits], clause='C17_hits')
                continue
            exp_hits = sorted(exp_hits, key=lambda h: pos[h[0]])
        if exp_hits is not None:
            ok = code['idx'] == [i for i, _, _ in exp_hits] and \
                all(close(cl, r, 1e-12) for cl, (_, r, _) in zip(code['log2'], exp_hits)) and \
                all(abs(cp - float(qq)) <= 1e-7 * float(qq) + 1e-300 for cp, (_, _, qq) in zip(code['p'], exp_hits)) and \
                all(list(row[:4]) == list(bins[i][:4]) and float(row[4]) == float(bins[i][5]) for row, i in zip(code['rows'], code['idx']))
            if not ok:
                ck.violation('do_bintest does not return exactly the bins whose BH-adjusted two-sided normal p of '
                             '(log2 - segment mean)/sqrt(1 - weight) is below alpha', case,
                             code={'idx': code['idx'], 'log2': code['log2'], 'p': code['p']},
                             expected={'idx': [i for i, _, _ in exp_hits], 'log2': [float(r) for _, r, _ in exp_hits],
                                       'p': [float(qq) for _, _, qq in exp_hits]}, clause='C17_hits')
                continue
        if isinstance(model, Err):
            raise RuntimeError('C17 bintest model error %r on %r' % (model, case))
        okm = code['idx'] == [int(h[0]) for h in model] and \
            all(close(cl, h[1], 1e-12) for cl, h in zip(code['log2'], model)) and \
            all(abs(cp - float(h[2])) <= 1e-7 * float(h[2]) + 1e-300 for cp, h in zip(code['p'], model))
        if okm:
            # the rest of every model row is the code's row
            okm = all(list(mr[1:5]) == list(row[:4]) and float(mr[6]) == float(row[4]) and int(mr[8]) == 1 and
                      (mr[7] is None) == (not c['has_depth']) for mr, row in zip(mrow, code['rows']))
        if not okm:
            ck.tie_break('model do_bintest differs from the code', case,
                         code={'idx': code['idx'], 'log2': code['log2'], 'p': code['p']},
                         model=[[int(h[0]), float(h[1]), float(h[2])] for h in model])
            continue
        if exp_hits is not None and len(res) >= 2 and ck.rng.random() < 0.5:
            boundary_case(ck, c, case, res, q, label)


def boundary_case(ck, c, case, res, q, label):
    """alpha placed exactly ON an adjusted p-value the code itself computed: 'below alpha' is
    strict.  Run A (alpha just under 1) yields the code's own adjusted values (checked against
    the oracle); run B uses one of them as alpha and must return exactly the rows of run A
    whose value is smaller."""
    a_hi = 1 - 2.0 ** -30
    ra = code_bintest(c['bins'], c['segs'], c['has_depth'], a_hi, c['target_only'])
    if isinstance(ra, Err):
        return
    qmap = {i: qq for (i, _), qq in zip(res, q)}
    for i, cp in zip(ra['idx'], ra['p']):
        if i not in qmap or abs(cp - float(qmap[i])) > 1e-7 * float(qmap[i]) + 1e-300:
            ck.violation('adjusted p of a returned bin is not its Benjamini-Hochberg value', dict(case, alpha=a_hi),
                         code=[i, cp], expected=(float(qmap[i]) if i in qmap else None), clause='C17_hits')
            return
    cands = sorted(set(x for x in ra['p'] if 0 < x < a_hi))
    if not cands:
        return
    alpha_b = ck.rng.choice(cands)
    rb = code_bintest(c['bins'], c['segs'], c['has_depth'], alpha_b, c['target_only'])
    bcase = dict(case, alpha=alpha_b, boundary=True)
    ck.count(bcase, nontrivial=True, cls=label + '_alpha_on_a_value')
    want = [i for i, cp in zip(ra['idx'], ra['p']) if cp < alpha_b]
    got = rb if isinstance(rb, Err) else rb['idx']
    if got != want:
        ck.violation('a bin whose adjusted p EQUALS alpha was returned (or one below alpha was not): "below alpha" is strict',
                     bcase, code=got, expected=want, clause='C17_hits')


def gen_bintest_case(rng, tier):
    bins, segs, has_depth, classes = gen_table(rng, tier, for_bintest=True)
    # spikes: single bins far from their segment with a high weight
    for b in bins:
        if rng.random() < 0.04:
            b[4] = b[4] + rng.choice([-1, 1]) * rng.randint(1 * GRID, 5 * GRID) / GRID
            b[5] = rng.choice([0.9, 0.95, 63 / 64, 0.5])
    for b in bins:
        if b[5] == 1.0:
            b[5] = 1.0 if rng.random() < 0.3 else 63 / 64
    # weight exactly 1 (sd = sqrt(0) = 0): z = r/0 -- infinite (p = 0: always a hit) or, residual exactly 0, undefined
    if bins and segs and rng.random() < 0.25:
        for _ in range(rng.randint(1, 2)):
            s = rng.choice(segs)
            inside = [b for b in bins if b[0] == s[0] and s[1] <= b[1] and b[2] <= s[2]]
            if inside:
                b = rng.choice(inside)
                b[5] = 1.0
                b[4] = s[4] if rng.random() < 0.3 else s[4] + rng.choice([-1, 1]) * rng.randint(1, 512) / GRID
                classes.add('weight_one_zero_residual' if b[4] == s[4] else 'weight_one_nonzero_residual')
    # tied raw p-values strictly inside (0, 1): bins of one segment sharing the weight with residuals +d / -d / +d
    if bins and segs and rng.random() < 0.45:
        for _ in range(rng.randint(1, 3)):
            s = rng.choice(segs)
            inside = [b for b in bins if b[0] == s[0] and s[1] <= b[1] and b[2] <= s[2] and b[5] != 1.0]
            if len(inside) >= 2:
                grp = rng.sample(inside, min(len(inside), rng.randint(2, 4)))
                d = rng.randint(1, 3 * GRID) / GRID
                w = rng.choice([0.5, 0.75, 63 / 64, 0.25, grp[0][5]])
                for b in grp:
                    b[4] = s[4] + rng.choice([-1, 1]) * d
                    b[5] = w
                classes.add('tied_p_values')
    mode = rng.choice(['segments'] * 6 + ['none', 'none', 'empty'])
    if mode == 'none':
        use = None
    elif mode == 'empty':
        use = []
    else:
        use = segs
        if rng.random() < 0.04 and segs:
            s = list(rng.choice(segs))
            use = segs + [s] if s[0] == segs[-1][0] else segs       # a repeated (overlapping) segment, grouped
    if use and rng.random() < 0.12:
        # the segment table lists the chromosomes in another order than the bin table (still grouped)
        chroms = []
        for sg in use:
            if sg[0] not in chroms:
                chroms.append(sg[0])
        if len(chroms) > 1:
            rng.shuffle(chroms)
            use = [sg for ch in chroms for sg in use if sg[0] == ch]
    alpha = rng.choice([0.005, 0.005, 0.05, 0.5, 1e-6, 0.999, 0.2, rng.random()])
    return {'bins': bins, 'segs': use, 'has_depth': has_depth, 'alpha': alpha, 'target_only': rng.random() < 0.5,
            'classes': sorted(classes)}


def check_bintest(ck, consts):
    rng = ck.rng
    n = 150 if ck.tier == 'quick' else 2500
    done = 0
    while done < n:
        cases = [gen_bintest_case(rng, ck.tier) for _ in range(min(250, n - done))]
        check_bintest_cases(ck, consts, cases, 'bintest')
        done += len(cases)


# ----------------------------------------------------------------------------
# corpus

def load_corpus():
    p = os.path.join(vlib.VERIF, 'corpus', 'c17.json')
    return json.load(open(p)) if os.path.exists(p) else {}


def corpus_cfg(c):
    cfg = {'loc': [], 'spread': [], 'ivl': [], 'alpha': 0.05, 'bootstraps': 100, 'smoothed': False, 'skip_low': False}
    cfg.update(c.get('cfg', {}))
    return cfg


def check_corpus(ck, consts):
    cp = load_corpus()
    cases = []
    for c in cp.get('segmetrics', []):
        has_depth = any(len(b) > 6 for b in c['bins'])
        case = {'bins': [list(b) for b in c['bins']], 'segs': [list(s) for s in c['segs']], 'has_depth': has_depth,
                'cfg': corpus_cfg(c), 'what': c.get('what', '')}
        if c.get('canonical'):
            case['canonical'] = c['canonical']
        cases.append(case)
        # exact expectations written in the corpus (regressions of repaired defects)
        if 'expect' in c:
            code = code_segmetrics(case['bins'], case['segs'], has_depth, case['cfg'])
            for col, want in c['expect'].items():
                got = None if isinstance(code, Err) else code.get(col)
                ok = got is not None and len(got) == len(want) and all(
                    (isnan(g) if w is None else (finite(g) and abs(g - w) <= 1e-9 * max(1.0, abs(w)))) for g, w in zip(got, want))
                if not ok:
                    ck.violation('corpus: %s' % c.get('what', col), case, code=got, expected=want, clause='C17_defs')
    run_segmetrics(ck, consts, cases, 'corpus_segmetrics')
    vecs = [list(v) for v in cp.get('bh', [])]
    if vecs:
        check_bh_vectors(ck, vecs, 'corpus_bh')
    bt = []
    for c in cp.get('bintest', []):
        has_depth = any(len(b) > 6 for b in c['bins'])
        case = {'bins': [list(b) for b in c['bins']], 'segs': (None if c.get('segs') is None else [list(s) for s in c['segs']]),
                'has_depth': has_depth, 'alpha': c.get('alpha', 0.005), 'target_only': bool(c.get('target_only', False)),
                'what': c.get('what', '')}
        bt.append(case)
        if 'expect_idx' in c:
            code = code_bintest(case['bins'], case['segs'], has_depth, case['alpha'], case['target_only'])
            got = None if isinstance(code, Err) else code['idx']
            if got != c['expect_idx']:
                ck.violation('corpus: %s' % c.get('what', ''), case, code=got, expected=c['expect_idx'], clause='C17_hits')
    if bt:
        check_bintest_cases(ck, consts, bt, 'corpus_bintest')


# ----------------------------------------------------------------------------

def run(ck, scratch):
    ck.rule = ('do_segmetrics: random sorted bin tables (1-3 chromosomes, gaps, abutting, a few nested bins, low-coverage and '
               'zero-depth bins, weights in (0,1] on a 1/64 grid, log2 on a 1/1024 grid with ties / all-equal / symmetric / outliers) '
               'with segmentations of 1..300 bins per segment incl. empty and single-bin segments, boundaries cutting through a bin, '
               'segments on a chromosome without bins; every subset of location/spread/interval statistics is visited by a counter; '
               'alpha in (0,1), bootstraps around 2/alpha, smoothed and skip_low on/off.  Each statistic of each segment is compared with '
               'its textbook value in exact Fractions on the brute-force overlapping bins, then with the Coq model.  do_bintest: same '
               'tables with spiked bins, with / without / empty segments, target_only on/off, alpha incl. extremes: hits compared with '
               'brute-force residuals -> erfc tail -> literal BH -> filter.  p_adjust_bh: exhaustive on {0,1/4,1/2,1}^(<=5), random to '
               'length 200.  non-trivial = some segment has >= 2 bins and a statistic is requested (bintest: >= 2 residual rows); '
               'distinct by case hash')
    ck.exhaustive = True
    ck.explanation = 'exhaustive: true refers to the enumerated p_adjust_bh scope only (coverage.exhaustive_scope)'
    ck.unproved_remainder = list(UNPROVED)
    if not ck.build_status.get('driver_ok'):
        raise RuntimeError('model driver unavailable')
    load_cnvlib()
    np.seterr(all='ignore')
    consts = get_consts()
    import time
    parts = {}
    for name, fn in (('corpus', lambda: check_corpus(ck, consts)), ('p_adjust_bh', lambda: check_bh(ck)),
                     ('ci_direct', lambda: check_ci_direct(ck, consts)),
                     ('do_bintest', lambda: check_bintest(ck, consts)), ('do_segmetrics', lambda: check_segmetrics(ck, consts))):
        t0 = time.time()
        fn()
        parts[name] = round(time.time() - t0, 1)
    ck.extra['part_seconds'] = parts


def replay(ck, body):
    """re-run one saved case against the current code"""
    load_cnvlib()
    np.seterr(all='ignore')
    consts = get_consts()
    case = body.get('case') or {}
    before = len(ck.violations)
    if 'p' in case:
        check_bh_vectors(ck, [case['p']], 'replay')
    elif case.get('ci_direct'):
        print('a direct confidence_interval_bootstrap case: values=%r weights=%r alpha=%r bootstraps=%r smoothed=%r'
              % tuple(case.get(k) for k in ('values', 'weights', 'alpha', 'bootstraps', 'smoothed')))
        out = segmetrics.confidence_interval_bootstrap(np.asarray(case['values'], float), np.asarray(case['weights'], float),
                                                       case['alpha'], case['bootstraps'], case['smoothed'])
        print('code returns', [float(x) for x in out], '; recorded:', body.get('code'), 'expected:', body.get('expected'))
        return 1
    elif 'cfg' in case:
        c = {k: v for k, v in case.items() if k in ('bins', 'segs', 'has_depth', 'cfg')}
        run_segmetrics(ck, consts, [c], 'replay')
    elif 'alpha' in case:
        c = {k: v for k, v in case.items() if k in ('bins', 'segs', 'has_depth', 'alpha', 'target_only')}
        check_bintest_cases(ck, consts, [c], 'replay')
    else:
        print('tie-break / obligation replay (no input case):', body.get('what'))
        return 1
    bad = len(ck.violations) > before or ck.known_hits
    for v in ck.violations[before:]:
        print('still fails:', v[1])
    if bad:
        print('VIOLATION property=C17 replay=(replayed case still fails)')
        return 1
    print('replayed case passes on the current tree')
    return 0
